// ggrs-facts: a rustc_private driver that dumps typed MIR facts of the crate being compiled as JSON.
// It contains no rule.  Injected with RUSTC_WORKSPACE_WRAPPER (or RUSTC_WRAPPER for dependency crates):
// argv[1] is the real rustc path and is dropped.  Output: $GGRS_FACTS_OUT/<crate>.json, one write.
// Crates analysed: $GGRS_FACTS_CRATES (comma separated, default "ggrs").
#![feature(rustc_private)]
extern crate rustc_abi;
extern crate rustc_driver;
extern crate rustc_hir;
extern crate rustc_interface;
extern crate rustc_lint;
extern crate rustc_middle;
extern crate rustc_session;
extern crate rustc_span;

use rustc_driver::Compilation;
use rustc_hir::def::DefKind;
use rustc_hir::def_id::DefId;
use rustc_middle::mir::{
    AggregateKind, AssertKind, BasicBlock, Body, BorrowKind, CastKind, Const, Operand, Place,
    PlaceTy, ProjectionElem, Rvalue, StatementKind, TerminatorKind, UnwindAction, VarDebugInfoContents,
};
use rustc_middle::ty::{self, Ty, TyCtxt};
use rustc_span::Span;
use std::fmt::Write as _;

fn esc(s: &str) -> String {
    let mut o = String::with_capacity(s.len() + 2);
    o.push('"');
    for c in s.chars() {
        match c {
            '"' => o.push_str("\\\""),
            '\\' => o.push_str("\\\\"),
            '\n' => o.push_str("\\n"),
            '\r' => o.push_str("\\r"),
            '\t' => o.push_str("\\t"),
            c if (c as u32) < 0x20 => {
                let _ = write!(o, "\\u{:04x}", c as u32);
            }
            c => o.push(c),
        }
    }
    o.push('"');
    o
}

struct Cx<'tcx> {
    tcx: TyCtxt<'tcx>,
    krate: String,
}

impl<'tcx> Cx<'tcx> {
    fn path(&self, did: DefId) -> String {
        let p = self.tcx.def_path_str(did);
        if did.is_local() && !p.starts_with('<') {
            format!("{}::{}", self.krate, p)
        } else {
            p
        }
    }

    fn span_json(&self, span: Span) -> String {
        // line of the outermost call site (the user's source), plus the macro backtrace
        let outer = span.source_callsite();
        let sm = self.tcx.sess.source_map();
        let lo = sm.lookup_char_pos(outer.lo());
        let hi = sm.lookup_char_pos(outer.hi());
        let file = format!("{}", lo.file.name.prefer_local_unconditionally());
        let mut macros = Vec::new();
        for ed in span.macro_backtrace() {
            let name = match ed.kind {
                rustc_span::ExpnKind::Macro(_, sym) => sym.to_string(),
                rustc_span::ExpnKind::Desugaring(k) => format!("desugar:{:?}", k),
                rustc_span::ExpnKind::AstPass(k) => format!("astpass:{:?}", k),
                rustc_span::ExpnKind::Root => "root".to_string(),
            };
            macros.push(esc(&name));
        }
        format!(
            "{{\"file\":{},\"line\":{},\"col\":{},\"line_hi\":{},\"mac\":[{}]}}",
            esc(&file),
            lo.line,
            lo.col.0 + 1,
            hi.line,
            macros.join(",")
        )
    }

    fn place_json(&self, body: &Body<'tcx>, place: &Place<'tcx>) -> String {
        let tcx = self.tcx;
        let mut s = format!("{{\"l\":{},\"p\":[", place.local.as_u32());
        let mut pty = PlaceTy::from_ty(body.local_decls[place.local].ty);
        let mut first = true;
        for elem in place.projection.iter() {
            if !first {
                s.push(',');
            }
            first = false;
            match elem {
                ProjectionElem::Deref => s.push_str("\"deref\""),
                ProjectionElem::Field(f, fty) => {
                    let idx = f.as_usize();
                    let (adt, name) = match pty.ty.kind() {
                        ty::Adt(def, _) => {
                            let v = match pty.variant_index {
                                Some(v) => Some(def.variant(v)),
                                None => {
                                    if def.is_enum() {
                                        None
                                    } else {
                                        Some(def.non_enum_variant())
                                    }
                                }
                            };
                            let vname = match pty.variant_index {
                                Some(v) => format!("::{}", def.variant(v).name),
                                None => String::new(),
                            };
                            match v {
                                Some(v) if idx < v.fields.len() => (
                                    format!("{}{}", self.path(def.did()), vname),
                                    v.fields[f].name.to_string(),
                                ),
                                _ => (self.path(def.did()), idx.to_string()),
                            }
                        }
                        ty::Closure(cdid, _) => {
                            let mut nm = idx.to_string();
                            if let Some(l) = cdid.as_local() {
                                let caps = tcx.closure_captures(l);
                                if idx < caps.len() {
                                    nm = caps[idx].to_string(tcx);
                                }
                            }
                            ("closure".to_string(), nm)
                        }
                        ty::Tuple(_) => ("tuple".to_string(), idx.to_string()),
                        _ => ("?".to_string(), idx.to_string()),
                    };
                    let _ = write!(
                        s,
                        "{{\"f\":{},\"adt\":{},\"i\":{},\"ty\":{}}}",
                        esc(&name),
                        esc(&adt),
                        idx,
                        esc(&format!("{}", fty))
                    );
                }
                ProjectionElem::Index(l) => {
                    let _ = write!(s, "{{\"idx\":{}}}", l.as_u32());
                }
                ProjectionElem::ConstantIndex { offset, from_end, .. } => {
                    let _ = write!(s, "{{\"cidx\":{},\"from_end\":{}}}", offset, from_end);
                }
                ProjectionElem::Subslice { from, to, from_end } => {
                    let _ = write!(s, "{{\"sub\":[{},{}],\"from_end\":{}}}", from, to, from_end);
                }
                ProjectionElem::Downcast(sym, vidx) => {
                    let name = match sym {
                        Some(sy) => sy.to_string(),
                        None => match pty.ty.kind() {
                            ty::Adt(def, _) if def.is_enum() => def.variant(vidx).name.to_string(),
                            _ => vidx.as_u32().to_string(),
                        },
                    };
                    let _ = write!(s, "{{\"dc\":{},\"v\":{}}}", esc(&name), vidx.as_u32());
                }
                _ => s.push_str("\"other\""),
            }
            pty = pty.projection_ty(tcx, elem);
        }
        s.push_str("]}");
        s
    }

    fn const_json(&self, body_did: DefId, c: &Const<'tcx>) -> String {
        let tcx = self.tcx;
        let ty = c.ty();
        let mut s = format!("{{\"ty\":{}", esc(&format!("{}", ty)));
        if let ty::FnDef(did, args) = ty.kind() {
            let _ = write!(s, ",\"fn\":{},\"args\":{}", esc(&self.path(*did)), esc(&format!("{:?}", args)));
        } else {
            if let Const::Unevaluated(uv, _) = c {
                let _ = write!(s, ",\"def\":{}", esc(&self.path(uv.def)));
                if let Some(p) = uv.promoted {
                    let _ = write!(s, ",\"promoted\":{}", p.as_u32());
                }
            }
            let is_scalar = ty.is_integral() || ty.is_bool() || ty.is_char();
            if is_scalar {
                let env = ty::TypingEnv::post_analysis(tcx, body_did);
                if let Some(si) = c.try_eval_scalar_int(tcx, env) {
                    let size = si.size();
                    if ty.is_signed() {
                        let _ = write!(s, ",\"val\":{}", esc(&si.to_int(size).to_string()));
                    } else {
                        let _ = write!(s, ",\"val\":{}", esc(&si.to_uint(size).to_string()));
                    }
                }
            }
            let d = format!("{}", c);
            let d: String = d.chars().take(160).collect();
            let _ = write!(s, ",\"d\":{}", esc(&d));
        }
        s.push('}');
        s
    }

    fn operand_json(&self, body_did: DefId, body: &Body<'tcx>, op: &Operand<'tcx>) -> String {
        match op {
            Operand::Copy(p) => format!("{{\"cp\":{}}}", self.place_json(body, p)),
            Operand::Move(p) => format!("{{\"mv\":{}}}", self.place_json(body, p)),
            Operand::Constant(c) => format!("{{\"c\":{}}}", self.const_json(body_did, &c.const_)),
            other => format!("{{\"other\":{}}}", esc(&format!("{:?}", other))),
        }
    }

    fn rvalue_json(&self, body_did: DefId, body: &Body<'tcx>, rv: &Rvalue<'tcx>) -> String {
        let tcx = self.tcx;
        match rv {
            Rvalue::Use(op, _) => format!("{{\"k\":\"use\",\"a\":{}}}", self.operand_json(body_did, body, op)),
            Rvalue::CopyForDeref(p) => {
                format!("{{\"k\":\"use\",\"a\":{{\"cp\":{}}}}}", self.place_json(body, p))
            }
            Rvalue::Ref(_, bk, p) => {
                let m = matches!(bk, BorrowKind::Mut { .. });
                format!("{{\"k\":\"ref\",\"mut\":{},\"p\":{}}}", m, self.place_json(body, p))
            }
            Rvalue::RawPtr(_, p) => format!("{{\"k\":\"rawptr\",\"p\":{}}}", self.place_json(body, p)),
            Rvalue::BinaryOp(op, ab) => format!(
                "{{\"k\":\"bin\",\"op\":{},\"a\":{},\"b\":{}}}",
                esc(&format!("{:?}", op)),
                self.operand_json(body_did, body, &ab.0),
                self.operand_json(body_did, body, &ab.1)
            ),
            Rvalue::UnaryOp(op, a) => format!(
                "{{\"k\":\"un\",\"op\":{},\"a\":{}}}",
                esc(&format!("{:?}", op)),
                self.operand_json(body_did, body, a)
            ),
            Rvalue::Cast(ck, a, ty) => {
                let k = match ck {
                    CastKind::IntToInt => "IntToInt".to_string(),
                    other => format!("{:?}", other),
                };
                format!(
                    "{{\"k\":\"cast\",\"ck\":{},\"a\":{},\"ty\":{}}}",
                    esc(&k),
                    self.operand_json(body_did, body, a),
                    esc(&format!("{}", ty))
                )
            }
            Rvalue::Discriminant(p) => format!("{{\"k\":\"discr\",\"p\":{}}}", self.place_json(body, p)),
            Rvalue::Repeat(a, n) => format!(
                "{{\"k\":\"repeat\",\"a\":{},\"n\":{}}}",
                self.operand_json(body_did, body, a),
                esc(&format!("{}", n))
            ),
            Rvalue::Aggregate(kind, ops) => {
                let kd = match &**kind {
                    AggregateKind::Array(_) => "\"ak\":\"array\"".to_string(),
                    AggregateKind::Tuple => "\"ak\":\"tuple\"".to_string(),
                    AggregateKind::Adt(did, vidx, _, _, _) => {
                        let def = tcx.adt_def(*did);
                        let v = def.variant(*vidx);
                        let fields: Vec<String> = v.fields.iter().map(|f| esc(&f.name.to_string())).collect();
                        format!(
                            "\"ak\":\"adt\",\"adt\":{},\"variant\":{},\"is_enum\":{},\"fields\":[{}]",
                            esc(&self.path(*did)),
                            esc(&v.name.to_string()),
                            def.is_enum(),
                            fields.join(",")
                        )
                    }
                    AggregateKind::Closure(did, _) => {
                        format!("\"ak\":\"closure\",\"closure\":{}", esc(&self.path(*did)))
                    }
                    other => format!("\"ak\":\"other\",\"d\":{}", esc(&format!("{:?}", other))),
                };
                let o: Vec<String> = ops.iter().map(|x| self.operand_json(body_did, body, x)).collect();
                format!("{{\"k\":\"agg\",{},\"ops\":[{}]}}", kd, o.join(","))
            }
            other => format!("{{\"k\":\"other\",\"d\":{}}}", esc(&format!("{:?}", other))),
        }
    }

    fn callee_json(&self, body_did: DefId, body: &Body<'tcx>, func: &Operand<'tcx>) -> String {
        let tcx = self.tcx;
        if let Operand::Constant(c) = func {
            if let ty::FnDef(did, args) = c.const_.ty().kind() {
                let mut s = format!(
                    "{{\"path\":{},\"args\":{},\"local\":{},\"crate\":{}",
                    esc(&self.path(*did)),
                    esc(&format!("{:?}", args)),
                    did.is_local(),
                    esc(tcx.crate_name(did.krate).as_str())
                );
                if let Some(tr) = tcx.trait_of_assoc(*did) {
                    let _ = write!(s, ",\"trait\":{}", esc(&self.path(tr)));
                }
                let env = ty::TypingEnv::post_analysis(tcx, body_did);
                if let Ok(Some(inst)) = ty::Instance::try_resolve(tcx, env, *did, args) {
                    let rd = inst.def_id();
                    if rd != *did {
                        let _ = write!(
                            s,
                            ",\"rpath\":{},\"rlocal\":{},\"rcrate\":{}",
                            esc(&self.path(rd)),
                            rd.is_local(),
                            esc(tcx.crate_name(rd.krate).as_str())
                        );
                    }
                    let _ = write!(s, ",\"rkind\":{}", esc(&format!("{:?}", inst.def).chars().take(40).collect::<String>()));
                }
                s.push('}');
                return s;
            }
        }
        // indirect call (fn pointer / closure value)
        format!("{{\"indirect\":{}}}", self.operand_json(body_did, body, func))
    }

    fn unwind_json(&self, u: &UnwindAction) -> String {
        match u {
            UnwindAction::Cleanup(bb) => format!("{}", bb.as_u32()),
            _ => "null".to_string(),
        }
    }

    fn body_json(&self, did: DefId, body: &Body<'tcx>, kind: &str, promoted: Option<u32>) -> String {
        let tcx = self.tcx;
        let mut s = String::new();
        let pth = match promoted {
            Some(i) => format!("{}::promoted[{}]", self.path(did), i),
            None => self.path(did),
        };
        let _ = write!(s, "{{\"path\":{},\"kind\":{}", esc(&pth), esc(kind));
        if promoted.is_some() {
            let _ = write!(s, ",\"parent\":{}", esc(&self.path(did)));
        }
        let _ = write!(s, ",\"span\":{}", self.span_json(body.span));
        if promoted.is_none() && matches!(tcx.def_kind(did), DefKind::Fn | DefKind::AssocFn) {
            let vis = tcx.visibility(did);
            let _ = write!(s, ",\"pub\":{}", vis.is_public());
        }
        if promoted.is_none() && matches!(tcx.def_kind(did), DefKind::Closure) {
            let _ = write!(s, ",\"parent\":{}", esc(&self.path(tcx.typeck_root_def_id(did))));
            let _ = write!(s, ",\"direct_parent\":{}", esc(&self.path(tcx.parent(did))));
            if let Some(l) = did.as_local() {
                let caps: Vec<String> = tcx
                    .closure_captures(l)
                    .iter()
                    .map(|c| format!("{{\"name\":{},\"by_ref\":{}}}", esc(&c.to_string(tcx)), c.is_by_ref()))
                    .collect();
                let _ = write!(s, ",\"upvars\":[{}]", caps.join(","));
            }
        }
        if matches!(tcx.def_kind(did), DefKind::AssocFn) {
            if let Some(imp) = tcx.impl_of_assoc(did) {
                let st = tcx.type_of(imp).instantiate_identity().skip_norm_wip();
                let _ = write!(s, ",\"self_ty\":{}", esc(&format!("{}", st)));
                if let Some(tr) = tcx.impl_opt_trait_id(imp) {
                    let _ = write!(s, ",\"impl_trait\":{}", esc(&self.path(tr)));
                }
            }
        }
        let _ = write!(s, ",\"argc\":{}", body.arg_count);
        // locals
        s.push_str(",\"locals\":[");
        for (i, (_l, d)) in body.local_decls.iter_enumerated().enumerate() {
            if i > 0 {
                s.push(',');
            }
            let _ = write!(s, "{{\"ty\":{}}}", esc(&format!("{}", d.ty)));
        }
        s.push_str("],\"names\":[");
        let mut first = true;
        for vdi in body.var_debug_info.iter() {
            if let VarDebugInfoContents::Place(p) = &vdi.value {
                if !first {
                    s.push(',');
                }
                first = false;
                let _ = write!(s, "{{\"name\":{},\"place\":{}}}", esc(&vdi.name.to_string()), self.place_json(body, p));
            }
        }
        s.push_str("],\"blocks\":[");
        for (bi, (_bb, bd)) in body.basic_blocks.iter_enumerated().enumerate() {
            if bi > 0 {
                s.push(',');
            }
            let _ = write!(s, "{{\"cleanup\":{},\"stmts\":[", bd.is_cleanup);
            let mut firsts = true;
            for st in bd.statements.iter() {
                let js = match &st.kind {
                    StatementKind::Assign(b) => {
                        let (p, rv) = &**b;
                        Some(format!(
                            "{{\"k\":\"assign\",\"place\":{},\"rv\":{},\"span\":{}}}",
                            self.place_json(body, p),
                            self.rvalue_json(did, body, rv),
                            self.span_json(st.source_info.span)
                        ))
                    }
                    StatementKind::SetDiscriminant { place, variant_index } => Some(format!(
                        "{{\"k\":\"setdiscr\",\"place\":{},\"v\":{},\"span\":{}}}",
                        self.place_json(body, place),
                        variant_index.as_u32(),
                        self.span_json(st.source_info.span)
                    )),
                    _ => None,
                };
                if let Some(js) = js {
                    if !firsts {
                        s.push(',');
                    }
                    firsts = false;
                    s.push_str(&js);
                }
            }
            s.push_str("],\"term\":");
            let t = bd.terminator();
            let sp = self.span_json(t.source_info.span);
            let bbn = |b: &BasicBlock| b.as_u32();
            match &t.kind {
                TerminatorKind::Goto { target } => {
                    let _ = write!(s, "{{\"k\":\"goto\",\"t\":{},\"span\":{}}}", bbn(target), sp);
                }
                TerminatorKind::SwitchInt { discr, targets } => {
                    let mut ts = Vec::new();
                    for (v, b) in targets.iter() {
                        ts.push(format!("[{},{}]", esc(&v.to_string()), bbn(&b)));
                    }
                    let dty = discr.ty(&body.local_decls, tcx);
                    let _ = write!(
                        s,
                        "{{\"k\":\"switch\",\"discr\":{},\"dty\":{},\"targets\":[{}],\"otherwise\":{},\"span\":{}}}",
                        self.operand_json(did, body, discr),
                        esc(&format!("{}", dty)),
                        ts.join(","),
                        bbn(&targets.otherwise()),
                        sp
                    );
                }
                TerminatorKind::Return => {
                    let _ = write!(s, "{{\"k\":\"return\",\"span\":{}}}", sp);
                }
                TerminatorKind::Unreachable => {
                    let _ = write!(s, "{{\"k\":\"unreachable\",\"span\":{}}}", sp);
                }
                TerminatorKind::UnwindResume => {
                    let _ = write!(s, "{{\"k\":\"resume\",\"span\":{}}}", sp);
                }
                TerminatorKind::UnwindTerminate(_) => {
                    let _ = write!(s, "{{\"k\":\"terminate\",\"span\":{}}}", sp);
                }
                TerminatorKind::Drop { place, target, unwind, .. } => {
                    let _ = write!(
                        s,
                        "{{\"k\":\"drop\",\"place\":{},\"t\":{},\"unwind\":{},\"span\":{}}}",
                        self.place_json(body, place),
                        bbn(target),
                        self.unwind_json(unwind),
                        sp
                    );
                }
                TerminatorKind::Call { func, args, destination, target, unwind, .. } => {
                    let a: Vec<String> = args.iter().map(|x| self.operand_json(did, body, &x.node)).collect();
                    let at: Vec<String> = args
                        .iter()
                        .map(|x| esc(&format!("{}", x.node.ty(&body.local_decls, tcx))))
                        .collect();
                    let tg = match target {
                        Some(b) => format!("{}", bbn(b)),
                        None => "null".to_string(),
                    };
                    let _ = write!(
                        s,
                        "{{\"k\":\"call\",\"callee\":{},\"args\":[{}],\"arg_tys\":[{}],\"dest\":{},\"t\":{},\"unwind\":{},\"span\":{}}}",
                        self.callee_json(did, body, func),
                        a.join(","),
                        at.join(","),
                        self.place_json(body, destination),
                        tg,
                        self.unwind_json(unwind),
                        sp
                    );
                }
                TerminatorKind::Assert { cond, expected, msg, target, unwind } => {
                    let m = match &**msg {
                        AssertKind::BoundsCheck { len, index } => format!(
                            "{{\"kind\":\"BoundsCheck\",\"len\":{},\"index\":{}}}",
                            self.operand_json(did, body, len),
                            self.operand_json(did, body, index)
                        ),
                        AssertKind::Overflow(op, a, b) => format!(
                            "{{\"kind\":\"Overflow\",\"op\":{},\"a\":{},\"b\":{}}}",
                            esc(&format!("{:?}", op)),
                            self.operand_json(did, body, a),
                            self.operand_json(did, body, b)
                        ),
                        AssertKind::OverflowNeg(a) => {
                            format!("{{\"kind\":\"OverflowNeg\",\"a\":{}}}", self.operand_json(did, body, a))
                        }
                        AssertKind::DivisionByZero(a) => {
                            format!("{{\"kind\":\"DivisionByZero\",\"a\":{}}}", self.operand_json(did, body, a))
                        }
                        AssertKind::RemainderByZero(a) => {
                            format!("{{\"kind\":\"RemainderByZero\",\"a\":{}}}", self.operand_json(did, body, a))
                        }
                        other => format!("{{\"kind\":\"Other\",\"d\":{}}}", esc(&format!("{:?}", other))),
                    };
                    let _ = write!(
                        s,
                        "{{\"k\":\"assert\",\"cond\":{},\"expected\":{},\"msg\":{},\"t\":{},\"unwind\":{},\"span\":{}}}",
                        self.operand_json(did, body, cond),
                        expected,
                        m,
                        bbn(target),
                        self.unwind_json(unwind),
                        sp
                    );
                }
                TerminatorKind::FalseEdge { real_target, .. } => {
                    let _ = write!(s, "{{\"k\":\"goto\",\"t\":{},\"span\":{}}}", bbn(real_target), sp);
                }
                TerminatorKind::FalseUnwind { real_target, .. } => {
                    let _ = write!(s, "{{\"k\":\"goto\",\"t\":{},\"span\":{}}}", bbn(real_target), sp);
                }
                other => {
                    let _ = write!(
                        s,
                        "{{\"k\":\"other\",\"d\":{},\"span\":{}}}",
                        esc(&format!("{:?}", other).chars().take(200).collect::<String>()),
                        sp
                    );
                }
            }
            s.push('}');
        }
        s.push_str("]}");
        s
    }
}

fn ty_s<'tcx>(t: Ty<'tcx>) -> String {
    format!("{}", t)
}

struct Cb;
impl rustc_driver::Callbacks for Cb {
    fn after_analysis<'tcx>(
        &mut self,
        _c: &rustc_interface::interface::Compiler,
        tcx: TyCtxt<'tcx>,
    ) -> Compilation {
        let kn = tcx.crate_name(rustc_span::def_id::LOCAL_CRATE).as_str().to_string();
        let wanted = std::env::var("GGRS_FACTS_CRATES").unwrap_or_else(|_| "ggrs".to_string());
        if !wanted.split(',').any(|w| w == kn) {
            return Compilation::Continue;
        }
        let outdir = match std::env::var("GGRS_FACTS_OUT") {
            Ok(d) => d,
            Err(_) => return Compilation::Continue,
        };
        // never dump for build scripts / proc-macro hosts of the same name
        let cx = Cx { tcx, krate: kn.clone() };
        let mut out = String::with_capacity(8 << 20);
        let sess = tcx.sess;
        let mut feats = Vec::new();
        for (k, v) in sess.config.iter() {
            if k.as_str() == "feature" {
                if let Some(v) = v {
                    feats.push(esc(v.as_str()));
                }
            }
        }
        feats.sort();
        let unsafe_level = {
            let store = rustc_lint::unerased_lint_store(tcx.sess);
            match store.find_lints("unsafe_code") {
                Some(ids) if !ids.is_empty() => {
                    let lvl = tcx.lint_level_at_node(ids[0].lint, rustc_hir::CRATE_HIR_ID);
                    format!("{:?}", lvl.level)
                }
                _ => "unknown".to_string(),
            }
        };
        let _ = write!(
            out,
            "{{\"crate\":{},\"debug_assertions\":{},\"overflow_checks\":{},\"features\":[{}],\"unsafe_code_lint\":{},",
            esc(&kn),
            sess.opts.debug_assertions,
            sess.overflow_checks(),
            feats.join(","),
            esc(&unsafe_level)
        );
        // ADTs and consts
        let mut adts = Vec::new();
        let mut consts = Vec::new();
        for ldid in tcx.hir_crate_items(()).definitions() {
            let did = ldid.to_def_id();
            match tcx.def_kind(did) {
                DefKind::Struct | DefKind::Enum => {
                    let def = tcx.adt_def(did);
                    let mut vs = Vec::new();
                    for v in def.variants().iter() {
                        let fs: Vec<String> = v
                            .fields
                            .iter()
                            .map(|f| {
                                let t = tcx.type_of(f.did).instantiate_identity().skip_norm_wip();
                                format!("{{\"name\":{},\"ty\":{}}}", esc(&f.name.to_string()), esc(&ty_s(t)))
                            })
                            .collect();
                        vs.push(format!("{{\"name\":{},\"fields\":[{}]}}", esc(&v.name.to_string()), fs.join(",")));
                    }
                    adts.push(format!(
                        "{{\"path\":{},\"is_enum\":{},\"variants\":[{}],\"span\":{}}}",
                        esc(&cx.path(did)),
                        def.is_enum(),
                        vs.join(","),
                        cx.span_json(tcx.def_span(did))
                    ));
                }
                DefKind::Const { .. } | DefKind::AssocConst { .. } => {
                    let t = tcx.type_of(did).instantiate_identity().skip_norm_wip();
                    let mut c = format!("{{\"path\":{},\"ty\":{}", esc(&cx.path(did)), esc(&ty_s(t)));
                    let scalar = t.is_integral() || t.is_bool() || t.is_char();
                    if scalar && tcx.generics_of(did).is_empty() {
                        if let Ok(v) = tcx.const_eval_poly(did) {
                            if let Some(si) = v.try_to_scalar_int() {
                                let size = si.size();
                                let vs = if t.is_signed() {
                                    si.to_int(size).to_string()
                                } else {
                                    si.to_uint(size).to_string()
                                };
                                let _ = write!(c, ",\"val\":{}", esc(&vs));
                            }
                        }
                    }
                    let _ = write!(c, ",\"span\":{}}}", cx.span_json(tcx.def_span(did)));
                    consts.push(c);
                }
                _ => {}
            }
        }
        let _ = write!(out, "\"adts\":[{}],\"consts\":[{}],\"fns\":[", adts.join(","), consts.join(","));
        let mut n = 0usize;
        for ldid in tcx.mir_keys(()) {
            let did = ldid.to_def_id();
            let kind = tcx.def_kind(did);
            let (body, k): (&Body<'tcx>, &str) = match kind {
                DefKind::Fn => (tcx.optimized_mir(did), "fn"),
                DefKind::AssocFn => (tcx.optimized_mir(did), "method"),
                DefKind::Closure => {
                    if tcx.is_coroutine(did) {
                        continue;
                    }
                    (tcx.optimized_mir(did), "closure")
                }
                DefKind::Const { .. } | DefKind::AssocConst { .. } => {
                    if !tcx.generics_of(did).is_empty() {
                        continue;
                    }
                    (tcx.mir_for_ctfe(did), "const")
                }
                _ => continue,
            };
            if n > 0 {
                out.push(',');
            }
            n += 1;
            out.push_str(&cx.body_json(did, body, k, None));
            if k != "const" {
                for (pi, pb) in tcx.promoted_mir(did).iter_enumerated() {
                    out.push(',');
                    n += 1;
                    out.push_str(&cx.body_json(did, pb, "promoted", Some(pi.as_u32())));
                }
            }
        }
        out.push_str("]}");
        let path = format!("{}/{}.json", outdir, kn);
        std::fs::write(&path, out).expect("ggrs-facts: cannot write fact file");
        eprintln!("ggrs-facts: wrote {} ({} bodies)", path, n);
        Compilation::Continue
    }
}

fn main() {
    let mut args: Vec<String> = std::env::args().collect();
    // RUSTC_WORKSPACE_WRAPPER / RUSTC_WRAPPER: argv[1] is the real rustc path
    if args.len() > 1 && (args[1].ends_with("rustc") || args[1].contains("/rustc")) {
        args.remove(1);
    }
    rustc_driver::run_compiler(&args, &mut Cb);
}
