"""Configuration-determined panic sites (C16.O4).

"Any session the builder returns can be polled and advanced without panicking" quantifies over runs, but one class of violations is
visible in the code alone: an arithmetic site whose failure condition is a function of the *configuration only* -- values that are fixed when
the session is constructed -- fails in every run of a configuration the builder accepted, or in none.  Inventoried over the whole crate
(builder excluded: C16.O3):

  D  every division / remainder (the compiler's DivisionByZero / RemainderByZero assertion, present in every build profile),
  T  every panicking subtraction on `Duration` / `Instant - Duration` (`Duration - Duration` panics on underflow; `saturating_sub` and
     `Instant - Instant`, which saturates, are not sites but are counted so that the matcher is seen to recognise the receiver types),
  U  every overflow-checked subtraction whose two operands are built from configuration fields and constants only (`max_prediction - 1`
     with a prediction window of 0).

A *configuration field* is computed, not listed: a field of a session / endpoint / sync-layer struct that no function other than a
constructor stores to or borrows mutably.  A site is discharged by a non-zero constant divisor, a dominating guard, a fixed-size array length,
or an entry of tables/config_invariants.json -- each entry names the builder guard or constructor obligation that establishes it, and the rule
re-checks the machine-checkable part of that claim (the field is immutable; the builder default is non-zero)."""
import json
import os

from .lib import *
from .sem import key, dnf_str, cmp_atom, dnf_implies_atom, last_seg
from .facts import strip_generics, Operand
from . import panics

VERIF = os.path.dirname(os.path.dirname(os.path.abspath(__file__)))
OWNERS = ('P2PSession', 'SpectatorSession', 'SyncTestSession', 'UdpProtocol', 'SyncLayer', 'InputQueue', 'TimeSync', 'SavedStates', 'PlayerRegistry')


def table():
    with open(os.path.join(VERIF, 'tables', 'config_invariants.json')) as f:
        return json.load(f)['invariants']


def immutable_fields(W):
    """(struct, field) pairs that are never stored to / mutably borrowed outside a constructor"""
    c = getattr(W, '_immutable_fields', None)
    if c is not None:
        return c
    mut = set()

    def mark(f, pl):
        if f.path.endswith('::new') or f.path.endswith('::default'):
            return
        for e in pl.proj:
            if isinstance(e, dict) and 'f' in e:
                mut.add((strip_generics(e['adt']).split('::')[-1], e['f']))
    for f in W.fns():
        if f.derived:
            continue
        for b in f.blocks:
            if b.cleanup:
                continue
            for s in b.stmts:
                if s.k in ('assign', 'setdiscr'):
                    if s.place.proj:
                        mark(f, s.place)
                    if s.k == 'assign' and s.rv.k == 'ref' and s.rv.j.get('mut') and s.rv.place.proj:
                        mark(f, s.rv.place)
            t = b.term
            if t.k == 'call' and t.dest.proj:
                mark(f, t.dest)
    out = set()
    for a in OWNERS:
        try:
            fl = W.struct_fields(a)
        except AnchorMissing:
            continue
        for x in fl:
            if (a, x['name']) not in mut:
                out.add((a, x['name']))
    W._immutable_fields = out
    return out


def leaves(e, out):
    t = e[0]
    if t in ('int', 'cst'):
        out.append(('const', key(e)))
    elif t == 'ap':
        out.append(('ap', e[1]))
    elif t == 'var':
        out.append(('var', key(e)))
    elif t == 'bin':
        leaves(e[2], out)
        leaves(e[3], out)
    elif t == 'un':
        leaves(e[2], out)
    elif t == 'call':
        if last_seg(e[1]) not in ('len', 'as_millis', 'as_secs', 'from', 'into', 'clone'):
            out.append(('call', e[1]))
        for a in e[2]:
            leaves(a, out)
    elif t in ('min', 'max'):
        for a in e[1]:
            leaves(a, out)
    elif t == 'phi':
        for a in e[1]:
            leaves(a[1], out)
    elif t == 'fld':
        leaves(e[1], out)
    else:
        out.append(('other', key(e)))
    return out


def config_only(W, f, exprs):
    """every leaf is a constant or a read of an immutable field of self (one level: self.F or self.X.F with both immutable)"""
    imm = immutable_fields(W)
    owner = strip_generics(f.self_ty or '').split('::')[-1] if f.self_ty else None
    if f.kind == 'closure' and f.parent:
        pf = [g for g in W.fns() if g.path == f.parent]
        if pf and pf[0].self_ty:
            owner = strip_generics(pf[0].self_ty).split('::')[-1]
    seen_field = False
    for e in exprs:
        for kind, k in leaves(e, []):
            if kind == 'const':
                continue
            if kind != 'ap':
                return False
            parts = k.split('.')
            if parts[0] != 'self' or len(parts) < 2 or owner is None:
                return False
            cur = owner
            for p in parts[1:]:
                if '[' in p or (cur, p) not in imm:
                    return False
                seen_field = True
                ty = next((x['ty'] for x in W.struct_fields(cur) if x['name'] == p), '')
                cur = strip_generics(ty).split('::')[-1]
                if cur not in OWNERS:
                    break
    return seen_field


def _timeish(ty):
    return ty is not None and ('Duration' in ty or 'Instant' in ty)


def sites(W):
    out = []
    for f in W.fns():
        if f.derived or 'sessions::builder' in f.path:
            continue
        cx = None
        for b in f.blocks:
            if b.cleanup or b.id not in cfg_of(f).reach:
                continue
            t = b.term
            if t.k == 'assert' and t.msg['kind'] in ('DivisionByZero', 'RemainderByZero'):
                out.append(dict(fn=f, bb=b.id, term=t, kind=t.msg['kind'], cls='D'))
            elif t.k == 'assert' and t.msg['kind'] == 'Overflow' and t.msg.get('op') == 'Sub':
                cx = cx or W.ctx(f)
                ops = [cx.expr_operand(Operand(t.msg[x])) for x in ('a', 'b') if isinstance(t.msg.get(x), dict)]
                if len(ops) == 2 and config_only(W, f, ops):
                    out.append(dict(fn=f, bb=b.id, term=t, kind='Overflow(Sub)', cls='U', ops=ops))
            elif t.k == 'call' and t.callee.indirect is None and t.arg_tys and _timeish(t.arg_tys[0]):
                seg = last_seg(t.callee.best)
                if seg in ('sub', 'sub_assign'):
                    if len(t.arg_tys) > 1 and 'Instant' in t.arg_tys[0] and 'Instant' in t.arg_tys[1]:
                        out.append(dict(fn=f, bb=b.id, term=t, kind='Instant - Instant (saturates)', cls='t'))
                    else:
                        out.append(dict(fn=f, bb=b.id, term=t, kind='method:sub', cls='T'))
                elif seg in ('saturating_sub', 'checked_sub', 'saturating_duration_since', 'checked_duration_since', 'duration_since'):
                    out.append(dict(fn=f, bb=b.id, term=t, kind=seg, cls='t'))
    return out


def _dur_guarded(g, a, b):
    ka, kb = key(a), key(b)

    def p(at):
        if at[0] != 'relz':
            return False
        vec = dict(at[2])
        if set(vec) != {ka, kb} or ka == kb:
            return False
        if vec[ka] == 1 and vec[kb] == -1:
            return at[1] in ('Ge', 'Gt') and at[3] >= 0
        if vec[ka] == -1 and vec[kb] == 1:
            return at[1] in ('Le', 'Lt') and at[3] <= 0
        return False
    return every_disjunct_has(g, p)


def rule(W, ob):
    tab = table()
    imm = immutable_fields(W)
    ob.require_count(len(imm), 15, 'configuration fields (never written after construction)')
    nD = nT = nU = nt = 0
    for s in sites(W):
        f, t = s['fn'], s['term']
        cx = W.ctx(f)
        g = W.guards(f).stable_guard(s['bb'])
        fn = panics.short_fn(f)
        if s['cls'] == 't':
            nt += 1
            ob.ok('%s: %s -- cannot panic' % (fn, s['kind']), where(f, t.line))
            continue
        if s['cls'] == 'D':
            nD += 1
            how, why = panics.discharge(W, s)
            c = cx.expr_operand(t.cond)
            d = c[2] if c[0] == 'bin' and c[3] == ('int', 0) else (c[3] if c[0] == 'bin' else c)
            dk = key(d)
            if how is None and d[0] == 'call' and last_seg(d[1]) == 'len' and len(d[2]) == 1 and d[2][0][0] == 'ap':
                # length of a fixed-size array field
                parts = d[2][0][1].split('.')
                owner = strip_generics(f.self_ty or '').split('::')[-1]
                if parts[0] == 'self' and len(parts) == 2:
                    try:
                        ty = next((x['ty'] for x in W.struct_fields(owner) if x['name'] == parts[1]), '')
                    except AnchorMissing:
                        ty = ''
                    if ty.startswith('[') and ';' in ty:
                        n = ty.rsplit(';', 1)[1].strip(' ]')
                        v = int(n) if n.isdigit() else W.fx.const_val(n)
                        if v:
                            how, why = 'array', 'divisor is the length of the fixed-size array `%s` (%s = %s)' % (parts[1], n, v)
            if how is None:
                owner = strip_generics(f.self_ty or '').split('::')[-1]
                for iv in tab:
                    if iv['type'] == owner and iv['expr'] == dk and iv['fact'] == 'nonzero':
                        fld = iv['field']
                        if (owner, fld) not in imm:
                            why = 'tables/config_invariants.json relies on `%s.%s` being fixed after construction, but it is written elsewhere' % (owner, fld)
                            break
                        how, why = 'invariant', '%s != 0: %s' % (dk, iv['established_by'])
                        break
            if how:
                ob.ok('%s: divisor `%s` -- %s' % (fn, dk[:60], why[:200]), where(f, t.line))
            else:
                ob.fail('config-panic|%s|%s|%s' % (fn, s['kind'], dk[:80]),
                        '%s divides by `%s`, which is not shown to be non-zero (%s): a session the builder accepted panics here' % (fn, dk[:80], why[:200]),
                        where(f, t.line), witness='guard: ' + dnf_str(g)[:300])
            continue
        if s['cls'] == 'T':
            nT += 1
            a, b = cx.expr_operand(t.args[0]), cx.expr_operand(t.args[1])
            if _dur_guarded(g, a, b):
                ob.ok('%s: `%s - %s` under a dominating comparison' % (fn, key(a)[:50], key(b)[:50]), where(f, t.line))
            else:
                conf = config_only(W, f, [a, b])
                ob.fail('config-panic|%s|duration-sub|%s|%s' % (fn, key(a)[:60], key(b)[:60]),
                        '%s subtracts `%s - %s` with the panicking operator and no dominating comparison orders them%s'
                        % (fn, key(a)[:60], key(b)[:60], ' (both are configuration values no builder rule orders: every session configured that way panics here)' if conf else ''),
                        where(f, t.line), witness='guard: ' + dnf_str(g)[:300])
            continue
        if s['cls'] == 'U':
            nU += 1
            a, b = s['ops']
            if all(k == 'const' for e in (a, b) for k, _ in leaves(e, [])):
                ob.ok('%s: `%s - %s` is a constant expression (evaluated and checked by the compiler)' % (fn, key(a), key(b)), where(f, t.line))
                continue
            need = cmp_atom('Ge', a, b, True)
            if g and dnf_implies_atom(g, need):
                ob.ok('%s: `%s - %s` under a dominating guard' % (fn, key(a)[:50], key(b)[:50]), where(f, t.line))
                continue
            ob.fail('config-panic|%s|unsigned-sub|%s|%s' % (fn, key(a)[:60], key(b)[:60]),
                    '%s computes `%s - %s` on unsigned configuration values without a guard: a configuration the builder accepts (e.g. 0) underflows' % (fn, key(a)[:60], key(b)[:60]),
                    where(f, t.line), witness='guard: ' + dnf_str(g)[:300])
    # the invariants' machine-checkable premises
    for iv in tab:
        if iv.get('builder_default'):
            bf = W.fn('sessions::builder::SessionBuilder::new')
            val = None
            for st in bf.stmts():
                if st.k == 'assign' and st.rv.k == 'agg' and st.rv.j.get('ak') == 'adt' and st.rv.j.get('fields') and iv['builder_default'] in st.rv.j['fields']:
                    op = st.rv.ops[st.rv.j['fields'].index(iv['builder_default'])]
                    e = W.ctx(bf).expr_operand(op)
                    val = e[1] if e[0] == 'int' else (e[2] if e[0] == 'cst' and len(e) > 2 else None)
            ob.check(val not in (None, 0), 'config-invariant|default|%s' % iv['builder_default'],
                     'the builder default of `%s` is %s (non-zero)' % (iv['builder_default'], val),
                     'the builder default of `%s` is %s: the invariant `%s != 0` does not hold for a default configuration' % (iv['builder_default'], val, iv['expr']), where(bf))
    ob.require_count(nD, 12, 'division / remainder sites')
    ob.require_count(nt + nT, 1, 'Duration / Instant differences (saturating or guarded)')
    ob.info('%d division/remainder sites, %d panicking time subtractions, %d non-panicking time differences, %d configuration-only unsigned subtractions' % (nD, nT, nt, nU))
