"""C13 -- SyncTestSession flags exactly the nondeterministic games (structural part)."""
from .lib import *
from .cfg import cfg_of, callee_matches
from .sem import key, dnf_str, atoms_of_cond
from .facts import Place
from . import c01, c02

LEVEL = 'other'
EXPLANATION = ('Static rule checking: the builder boundary (check_distance >= max_prediction and sparse saving rejected before constructing), '
               'the comparison over [current - check_distance, current] runs on every call with check_distance > 0 and current > check_distance and '
               'precedes the rollback, a mismatch returns before any request, the history keeps the first checksum per frame and its window is not '
               'narrower than the comparison range, every player\'s input is required and registered, the confirmed frame trails by check_distance. '
               'Both halves of the property quantify over game programs and are NOT decided.')
NOT_DECIDED = ['a deterministic game never reports MismatchedChecksum', 'a nondeterministic game is reported within check_distance + 2 frames']
ASSUMPTIONS = c01.ASSUMPTIONS

ST = 'sessions::sync_test_session::SyncTestSession'
SL = c01.SL
CD = 'self.check_distance'
CUR = 'self.sync_layer.current_frame'


def o1(W, ob):
    f = W.fn('SessionBuilder::start_synctest_session')
    G = W.guards(f)
    cons = sites(W, f, ST + '::new')
    ob.require_count(len(cons), 1, 'SyncTestSession::new call')
    for b in cons:
        g = G.guard(b)
        ok = every_disjunct_has(g, lambda a: match_lin(a, [(exact('self.check_dist'), 1), (exact('self.max_prediction'), -1)], hi=-1)) and \
            guard_has_bool(g, 'self.sparse_saving', False)
        exact_ = not every_disjunct_has(g, lambda a: match_lin(a, [(exact('self.check_dist'), 1), (exact('self.max_prediction'), -1)], hi=-2))
        only = all(len(c) == 2 for c in g)
        ob.check(ok and exact_ and only, 'start_synctest_session|boundary',
                 'a SyncTestSession is built exactly when check_distance < max_prediction and sparse saving is off',
                 'SyncTestSession::new is reached under `%s`; documented: check_distance < max_prediction and no sparse saving, nothing else' % dnf_str(g)[:200],
                 where(f, f.blocks[b].term.line))
    errs = [s for f2, s in W.constructions('GgrsError', 'InvalidRequest') if f2 is f]
    ob.require_count(len(errs), 2, 'InvalidRequest returns of start_synctest_session')


def o2(W, ob):
    f = W.fn(ST + '::advance_frame')
    G = W.guards(f)
    cfg = cfg_of(f)
    cx = W.ctx(f)
    adj = sites(W, f, ST + '::adjust_gamestate')
    ob.require_count(len(adj), 1, 'adjust_gamestate call in SyncTestSession::advance_frame')
    clos = [c for c in W.closures_of(f) if any(callee_matches(t.callee, ST + '::checksums_consistent') for t in c.calls())]
    # ... or an explicit loop over the same range that calls checksums_consistent itself
    direct = [t for t in f.calls() if callee_matches(t.callee, ST + '::checksums_consistent')]
    ob.require_count(len(clos) + len(direct), 1, 'comparison closure (checksums_consistent)')
    # where the closure is built and driven: filter(..) / collect()
    drive = [t.bb for t in f.calls() if last_seg(t.callee.best) in ('filter', 'collect') and 'RangeInclusive' in key(cx.expr_operand(t.args[0]))]
    drive += [t.bb for t in direct]
    if direct:
        # explicit loop: the loop itself (its `next` over the comparison range) is what every path to the rollback passes; the body runs once per frame of the range
        drive += [t.bb for t in f.calls() if last_seg(t.callee.best) == 'next' and t.args and 'RangeInclusive' in key(cx.expr_operand(t.args[0]))]
    # pushes onto the list of mismatched frames (explicit-loop spelling): guarded by `!checksums_consistent(frame)`; they are not requests
    mism_pushes = []
    for t in f.calls():
        if last_seg(t.callee.best) == 'push' and direct:
            g_ = G.guard(t.bb)
            if every_disjunct_has(g_, lambda a: a[0] == 'bool' and 'checksums_consistent(' in a[1] and a[2] is False):
                mism_pushes.append(t.bb)
    rng = [t for t in f.calls() if last_seg(t.callee.best) == 'new' and 'RangeInclusive' in (t.callee.best or '')]
    ob.require_count(len(rng), 1, 'comparison range')
    for t in rng:
        lo, hi = key(cx.expr_operand(t.args[0])), key(cx.expr_operand(t.args[1]))
        ob.check(lo == '(%s Sub %s)' % (CUR, CD) and hi == CUR, 'SyncTestSession::advance_frame|compare-range',
                 'the comparison covers current - check_distance ..= current', 'the comparison range is %s ..= %s' % (lo, hi), where(f, t.line))
        g = G.guard(t.bb)
        # condition => guard: exactly check_distance > 0 & current > check_distance
        c1 = every_disjunct_has(g, lambda a: match_lin(a, [(exact(CD), 1)], lo=1))
        c2 = every_disjunct_has(g, lambda a: match_lin(a, [(exact(CUR), 1), (exact(CD), -1)], lo=1))
        stricter = every_disjunct_has(g, lambda a: match_lin(a, [(exact(CUR), 1), (exact(CD), -1)], lo=2)) or any(len(c) > 2 for c in g) or \
            any(a[0] == 'ne' for c in g for a in c)
        ob.check(c1 and c2 and not stricter, 'SyncTestSession::advance_frame|compare-every-call',
                 'the comparison runs on every call with check_distance > 0 and current_frame > check_distance',
                 'the checksum comparison is skipped under additional conditions: it runs under `%s` (expected exactly check_distance > 0 & current_frame > check_distance) '
                 '-- the first recorded checksum of a frame could then be a resimulated one' % dnf_str(g)[:240], where(f, t.line))
    for b in adj:
        ob.check(bool(drive) and cfg.path_avoiding([b], drive) is None, 'SyncTestSession::advance_frame|compare-then-rollback',
                 'the comparison precedes the simulated rollback', 'adjust_gamestate can run without the checksum comparison having run in this call',
                 where(f, f.blocks[b].term.line))
        a1 = key(cx.expr_operand(f.blocks[b].term.args[1]))
        ob.check(a1 == '(%s Sub %s)' % (CUR, CD), 'SyncTestSession::advance_frame|rollback-depth', 'the rollback goes check_distance frames back',
                 'adjust_gamestate receives `%s`' % a1, where(f, f.blocks[b].term.line))
        g = G.guard(b)
        ob.check(every_disjunct_has(g, lambda a: a[0] == 'bool' and 'is_empty(' in a[1] and a[2] is True), 'SyncTestSession::advance_frame|rollback-only-when-consistent',
                 'the rollback happens only when no mismatch was found', 'rollback guard: ' + dnf_str(g)[:200], where(f, f.blocks[b].term.line))
    errs = [s for f2, s in W.constructions('GgrsError', 'MismatchedChecksum') if f2 is f]
    ob.require_count(len(errs), 1, 'MismatchedChecksum return')
    for s in errs:
        g = G.guard(s.bb)
        ok = every_disjunct_has(g, lambda a: a[0] == 'bool' and 'is_empty(' in a[1] and a[2] is False)
        pushes = [t.bb for t in f.calls() if last_seg(t.callee.best) == 'push' and t.bb not in mism_pushes] + adj
        before = [p for p in pushes if cfg.path_avoiding([s.bb], [p]) is None and p != s.bb and s.bb in cfg.reachable_after(p)]
        ob.check(ok and not before, 'SyncTestSession::advance_frame|mismatch-before-requests', 'a non-empty mismatch list is returned before any request is issued',
                 'MismatchedChecksum: guard %s, requests issued before=%d' % (dnf_str(g)[:120], len(before)), where(f, s.line))
        fields = dict(zip(s.rv.j['fields'], s.rv.ops))
        mf = key(cx.expr_operand(fields['mismatched_frames']))
        listed = ('collect(' in mf and 'filter(' in mf) or (bool(mism_pushes) and len(mism_pushes) == len(direct))
        ob.check(listed, 'SyncTestSession::advance_frame|mismatch-list', 'the error names the frames that failed the comparison',
                 'mismatched_frames := %s' % mf[:100], where(f, s.line))
    # the closure keeps a frame iff it is NOT consistent
    for c in clos:
        e = W.ctx(c).expr_place(Place({'l': 0, 'p': []}))
        ob.check(e[0] == 'un' and e[1] == 'Not' and 'checksums_consistent(' in key(e), 'SyncTestSession::advance_frame|filter-polarity',
                 'a frame is listed when its checksums are not consistent', 'the filter predicate is `%s`' % key(e)[:100], where(c))


def o3(W, ob):
    f = W.fn(ST + '::checksums_consistent')
    G = W.guards(f)
    cx = W.ctx(f)
    ins = [t for t in f.calls() if last_seg(t.callee.best) == 'insert' and 'checksum_history' in cx.ap_carry(t.args[0].place).s(f)]
    ob.require_count(len(ins), 1, 'checksum_history.insert')
    n = only_writers(W, ob, 'checksum_history', 'SyncTestSession', [ST + '::checksums_consistent'], 'O3')
    for t in ins:
        g = G.guard(t.bb)
        ok = every_disjunct_has(g, lambda a: a[0] == 'is' and a[1].startswith('self.checksum_history[') and a[2] == 'None' and a[3])
        kf, kc = key(cx.expr_operand(t.args[1])), key(cx.expr_operand(t.args[2]))
        ob.check(ok and kf.endswith('.frame') and kc.endswith('.checksum') and kf[:-6] == kc[:-9], 'checksums_consistent|first-wins',
                 'a checksum is recorded only when none is recorded for that frame yet, frame and checksum from one cell',
                 'checksum_history.insert(%s, %s) under %s' % (kf[-40:], kc[-40:], dnf_str(g)[-160:]), where(f, t.line))
    eqs = [t for t in f.calls() if last_seg(t.callee.best) == 'eq']
    ok = False
    for t in eqs:
        g = G.guard(t.bb)
        ks = sorted(key(cx.expr_operand(a)) for a in t.args)
        ok = every_disjunct_has(g, lambda a: a[0] == 'is' and a[1].startswith('self.checksum_history[') and a[2] == 'Some' and a[3]) and \
            any(k.startswith('self.checksum_history[') for k in ks) and any(k.endswith('.checksum') for k in ks)
    ob.check(ok, 'checksums_consistent|compare-recorded', 'a recorded checksum is compared with the cell\'s current checksum',
             'the recorded checksum is not compared with the cell\'s checksum', where(f))
    # the prune window is not narrower than the comparison range: keeps k >= current - check_distance
    rets = [t for t in f.calls() if last_seg(t.callee.best) == 'retain']
    ob.require_count(len(rets), 1, 'checksum_history.retain')
    for t in rets:
        src = trace_back(W, f, t.args[1])
        clo = None
        if src and src[0] == 'stmt' and src[1].rv.k == 'agg' and src[1].rv.j.get('ak') == 'closure':
            from .facts import strip_generics
            for c in W.closures_of(f):
                if c.path == strip_generics(src[1].rv.j['closure']):
                    clo = c
        ok = False
        desc = '?'
        if clo is not None:
            e = W.ctx(clo).expr_place(Place({'l': 0, 'p': []}))
            d = atoms_of_cond(e, True)
            desc = dnf_str(d)
            if len(d) == 1 and len(d[0]) == 1 and d[0][0][0] == 'lin':
                terms, lo, hi = lin_view(d[0][0])
                # k - current + check_distance >= 0   (k >= current - check_distance), possibly keeping more (constant <= 0)
                kk = [k for k in terms if k.startswith('arg')]
                if len(kk) == 1 and set(terms) == {kk[0], CUR, CD} and terms[CUR] == -terms[kk[0]] and terms[CD] == terms[kk[0]]:
                    s_ = terms[kk[0]]
                    ok = (s_ == 1 and lo is not None and lo <= 0 and hi is None) or (s_ == -1 and hi is not None and hi >= 0 and lo is None)
        bound_ok = ok
        ob.check(ok and bound_ok, 'checksums_consistent|window', 'the history keeps every frame >= current - check_distance (the whole comparison range)',
                 'the history prune keeps `%s` with bound ok=%s: frames of the comparison range could lose their first checksum' % (desc, bound_ok), where(f, t.line))


def o4(W, ob):
    f = W.fn(ST + '::advance_frame')
    G = W.guards(f)
    cx = W.ctx(f)
    adds = [t for t in f.calls() if callee_matches(t.callee, SL + '::add_local_input')]
    ob.require_count(len(adds), 1, 'add_local_input in SyncTestSession::advance_frame')
    for t in adds:
        g = G.guard(t.bb)
        ok = every_disjunct_has(g, lambda a: match_lin(a, [(exact('len(self.local_inputs)'), 1), (exact('self.num_players'), -1)], eq=0))
        ob.check(ok, 'SyncTestSession::advance_frame|all-inputs', 'inputs are registered only when every player provided one',
                 'add_local_input guard: ' + dnf_str(g)[:200], where(f, t.line))
    fetch = sites(W, f, SL + '::synchronized_inputs')
    for b in fetch:
        ob.check(cfg_of(f).path_avoiding([b], [t.bb for t in adds] + [x.bb for x in f.calls() if last_seg(x.callee.best) == 'clear']) is None,
                 'SyncTestSession::advance_frame|register-before-fetch', 'inputs are registered before they are fetched',
                 'the fetch can be reached without registering the inputs', where(f, f.blocks[b].term.line))
    sl = [t for t in f.calls() if callee_matches(t.callee, SL + '::set_last_confirmed_frame')]
    ob.require_count(len(sl), 1, 'set_last_confirmed_frame in SyncTestSession::advance_frame')
    for t in sl:
        a1 = key(cx.expr_operand(t.args[1]))
        a2 = cx.expr_operand(t.args[2])
        ob.check(a1 == '(%s Sub %s)' % (CUR, CD) and a2 == ('int', 0), 'SyncTestSession::advance_frame|confirmed-trails',
                 'the confirmed frame trails the current frame by check_distance (non-sparse)', 'set_last_confirmed_frame(%s, %s)' % (a1, key(a2)), where(f, t.line))
    al = W.fn(ST + '::add_local_input')
    errs = [s for f2, s in W.constructions('GgrsError', 'InvalidRequest') if f2 is al]
    ok = False
    for s in errs:
        g = W.guard(al, s.bb)
        ok = every_disjunct_has(g, lambda a: match_lin(a, [(exact('arg2'), 1), (exact('self.num_players'), -1)], lo=0))
    ob.check(ok, 'SyncTestSession::add_local_input|handle-range', 'handles >= num_players are rejected', 'SyncTestSession::add_local_input does not reject handle >= num_players', where(al))


from . import helpers

from . import initial

from . import casts

from . import removals

from . import mustcall

from . import wiring

from . import vocab

from . import inventory

OBLIGATIONS = [
    ('C13.O1', 'builder boundary', 'start_synctest_session builds a session exactly under check_dist < max_prediction & !sparse_saving, InvalidRequest otherwise.', o1),
    ('C13.O2', 'compare, then roll back, every call', 'under exactly check_distance > 0 & current > check_distance the comparison over [current - cd, current] precedes '
     'adjust_gamestate(current - cd); a non-empty mismatch list is returned before any request.', o2),
    ('C13.O3', 'first checksum wins', 'checksum_history is inserted only on the get == None edge from one cell, compared on the Some edge, pruned with bound k >= current - cd.', o3),
    ('C13.O4', 'all inputs confirmed', 'every handle < num_players must be present and is passed to add_local_input before the fetch; set_last_confirmed_frame(current - cd, false).', o4),
    ('C13.O5', 'save / step / load structure (= C02.O8, C02.O4, C01.O2)', 'see C02.O8', c02.o8),
    ('C13.O6', 'resimulation loop (= C02.O4, C02.O6)', 'see C02.O4', c02.o4),
    ('C13.H', 'helpers the rules above rely on', 'the bodies of the helpers named by this property\'s rules compute what the rules assume (get_cell, cell_accessors, saved_state_by_frame); see rules/helpers.py', helpers.bundle('get_cell', 'cell_accessors', 'saved_state_by_frame')),
    ('C13.I', 'initial state', 'every constructor gives the fields this property\'s rules interpret (NULL_FRAME = none / nothing yet, 0 = first frame, latches open, typestate start) the value listed in tables/initial_state.json; every field compared with NULL_FRAME anywhere is listed; see rules/initial.py', initial.rule_for('C13')),
    ('C13.C', 'lossy integer casts', 'every sign-changing cast (signed -> unsigned; NULL_FRAME is -1) and every narrowing cast to < 32 bits or from 128 bits in the crate is in range by a dominating guard, by the shape of its operand, or listed with a reason in tables/casts.json; see rules/casts.py', casts.rule),
    ('C13.R', 'who may remove', 'every call that takes elements out of a collection this property\'s rules rely on (keyed removal from a map, or bulk / positional removal) is one of the reviewed sites in tables/removals.json; a lookup turned into a removal, a second prune, a clear on another path is reported; see rules/removals.py', removals.rule_for('C13')),
    ('C13.M', 'must-call floor', 'the calls listed for this property in tables/must_call.json are made on every path from the entry of their function to a normal return (interprocedural must-call): a new early return, fast path or extra condition in front of one of them is reported; see rules/mustcall.py', mustcall.rule_for('C13')),
    ('C13.W', 'configuration wiring', 'the SyncTestSession gets the configuration the builder holds: no crossed wires, collections forwarded whole, setters order-independent, and no constructor combines two different configuration values into one (input delay, check distance and prediction window reach the sync layer as configured); see rules/wiring.py', wiring.rule),
    ('C13.V', 'no unreviewed condition in the pinned helpers', 'for each helper whose body this property\'s rules pin (tables/condition_terms.json), the terms its path conditions are built from (fields, parameters, call results -- no constants, operators or local names) are a subset of the reviewed vocabulary: one more `if` in front of a pinned result (a lock that may time out, "only while an endpoint is running") is reported; see rules/vocab.py', vocab.rule_for('C13')),
    ('C13.S', 'state inventory', 'every field of the structs this property\'s rules read (tables/state.json) is known, and is written only by its reviewed writers (or helpers only they call): a new field is new state across calls -- a cache, a flag, a stored deadline -- that nothing has shown to stay in step; a new writer is a second place that resets, re-arms or moves something; see rules/inventory.py', inventory.state_rule_for('C13')),
    ('C13.K', 'call inventory', 'every reviewed call of a function that writes state (tables/call_edges.json, callers in the structs this property\'s rules read) is still made, directly or through helpers: a call deleted as redundant is reported; likewise the arguments of logging / debug-only macros change no state, no unreviewed call of a state-writing function appears (tables/call_edges_all.json), the types of the locals a loop carries from one iteration to the next (tables/carried.json) and, per function and field, how reads and writes of the field are ordered (tables/orders.json: a snapshot taken before instead of after an update) are as reviewed; see rules/inventory.py', inventory.call_rule_for('C13')),
    ('C13.A', 'expression inventory', 'every arithmetic expression handed to a call or stored in a field, and what every closure given to an iterator adaptor / collection method returns, is one of the reviewed expressions of its function (tables/expressions.json; linear / guard normal forms, no local names): a changed literal, operator, operand order, factor, predicate or sort key is reported; see rules/inventory.py', inventory.expr_rule_for('C13')),
    ('C13.P', 'trait-impl inventory', 'each (type, trait) pair among PartialEq / Eq / Hash / Ord / Clone / Default / From / Deref / InputPredictor is derived or hand-written as listed in tables/impls.json: a derive replaced by a hand-written impl (equality by address only, a hash that ignores a field) changes which map keys collide and which inputs match with every call site unchanged; see rules/inventory.py', inventory.impl_rule),
    ('C13.Z', inventory.CONST_TITLE, inventory.CONST_TEXT, inventory.const_rule_for('C13')),
]
