"""C07 -- a peer drop is detected on time and the survivor's timeline stays coherent (structural part)."""
from .lib import *
from .cfg import cfg_of, callee_matches
from .sem import key, dnf_str, cmp_atom, conj_implies_atom
from . import c01, c03

LEVEL = 'other'
EXPLANATION = ('Static rule checking: the two timeout guards read the right fields, every Disconnected/NetworkInterrupted '
               'emission is a test-and-set of its flag, the pending disconnect frame is a minimum (never overwritten by a '
               'later one), the resimulation start is last_frame+1 and is skipped only if nothing was simulated past it, the '
               'timeout path and disconnect_player agree, inputs arriving after the cut-off are ignored, the cut-off predicate '
               'is the same everywhere. Timing against a real clock is NOT decided.')
NOT_DECIDED = ['timing against a real clock', 'that the survivor keeps advancing on its own', 'what spectators of that host see']
ASSUMPTIONS = c01.ASSUMPTIONS

P2P = c01.P2P
SL = c01.SL
UDP = c01.UDP


def timer_atom(conj, field):
    """a non-integer comparison  now - <field> - last_recv_time > 0"""
    for a in conj:
        if a[0] == 'relz' and a[1] in ('Gt', 'Lt'):
            ks = {k: c for k, c in a[2]}
            if field in ks and 'self.last_recv_time' in ks and ks[field] == ks['self.last_recv_time'] and len(ks) == 3:
                now = [k for k in ks if k not in (field, 'self.last_recv_time')][0]
                if ks[now] == -ks[field] and ('now' in now or 'Instant' in now):
                    # orientation: now > last_recv + field
                    if (a[1] == 'Gt') == (ks[now] > 0):
                        return True
    return False


def o1(W, ob):
    f = W.fn(UDP + '::poll')
    G = W.guards(f)
    for variant, field in (('NetworkInterrupted', 'self.disconnect_notify_start'), ('Disconnected', 'self.disconnect_timeout')):
        cs = event_constructions(W, f, 'Event', variant)
        ob.require_count(len(cs), 1, 'Event::%s in poll' % variant)
        for s in cs:
            g = G.guard(s.bb)
            ok = bool(g) and all(timer_atom(c, field) for c in g) and guard_has_is(g, 'self.state', 'Running')
            # "whenever": nothing but the once-only flag may additionally condition the event
            eg = G.essential_guard(s.bb)
            ok = ok and all(len(c) == 3 for c in eg)
            ob.check(ok, 'poll|%s-timer' % variant,
                     '%s is raised while Running when now > last_recv_time + %s' % (variant, field.split('.')[-1]),
                     'the guard of Event::%s in poll is %s; expected `state is Running & last_recv_time + %s < now`' % (
                         variant, dnf_str(g)[:300], field.split('.')[-1]), where(f, s.line))
    n = only_writers(W, ob, 'last_recv_time', 'UdpProtocol', [UDP + '::handle_message'], 'O1', kinds=('store',))
    liveness_refresh(W, ob)
    ob.require_count(n, 1, 'stores to last_recv_time')
    # NetworkInterrupted announces disconnect_timeout - disconnect_notify_start
    for s in event_constructions(W, f, 'Event', 'NetworkInterrupted'):
        v = key(W.ctx(f).expr_operand(s.rv.ops[0]))
        vals = [v]
        src = trace_back(W, f, s.rv.ops[0], through={'as_millis'})
        if src and src[0] == 'place' and not src[1].proj:
            pd = G.phi_defs(src[1].local)
            if pd:
                vals = [key(x) for _, x in pd]
                v = ' | '.join(vals)

        def diff(x):
            # exactly the difference (as_millis and copies are transparent in keys); any other function of it -- subsec_millis, as_secs, a division -- is not
            import re
            return re.match(r'^(?:\w+::)*(?:saturating_sub|sub)\(self\.disconnect_timeout, self\.disconnect_notify_start\)$', x) is not None or \
                x == '(self.disconnect_timeout Sub self.disconnect_notify_start)'

        def zero(x):
            return 'ZERO' in x or x in ('0',) or 'from_millis(0)' in x or 'from_secs(0)' in x or 'default(' in x.lower()
        # (whether a plain subtraction can panic is C16.O4's business; here: the announced value is the remaining time, floored at zero)
        ob.check(any(diff(x) for x in vals) and all(diff(x) or zero(x) for x in vals),
                 'poll|interrupted-remaining', 'NetworkInterrupted carries timeout - notify_start',
                 'NetworkInterrupted.disconnect_timeout := %s' % v, where(f, s.line))


def liveness_refresh(W, ob):
    """every message that gets past the filters -- in EVERY protocol state, the handshake included -- refreshes last_recv_time: the silence the timeout
    guards measure starts at the last accepted packet, not at the last packet received while Running (or at construction)"""
    f = W.fn(UDP + '::handle_message')
    cfg = cfg_of(f)
    st = stores_in(W, f, 'last_recv_time')
    ob.require_count(len(st), 1, 'stores to last_recv_time in handle_message')
    handlers = [t for t in f.calls() if t.callee.indirect is None and any(callee_matches(t.callee, UDP + '::' + h) for h in
                ('on_sync_request', 'on_sync_reply', 'on_input', 'on_input_ack', 'on_quality_report', 'on_quality_reply', 'on_checksum_report'))]
    ob.require_count(len(handlers), 7, 'handler dispatch sites')
    sb = [w['bb'] for w in st]
    # ... and ONLY accepted messages: a packet that is then discarded (foreign magic, shutdown) is not a sign of life of the peer
    from . import c08 as _c08
    Gf = W.guards(f)
    for w in st:
        g = Gf.guard(w['bb'])
        okf = bool(g) and guard_has_is(g, 'self.state', 'Shutdown', False) and all(_c08.magic_ok(c) for c in g)
        ob.check(okf, 'handle_message|refresh-only-accepted', 'only packets that passed the Shutdown and magic filters refresh last_recv_time',
                 'last_recv_time is refreshed by packets that are then discarded (guard: %s): traffic from a restarted or foreign sender on the peer\'s address keeps a dead peer alive' % dnf_str(g)[:200],
                 where(f, w['line']))
    # the dispatch point: the nearest block that dominates every handler call (the `match` on the body); the KeepAlive arm leaves from it too
    doms = None
    for t in handlers:
        d = set(cfg.dominators().get(t.bb, ()))
        doms = d if doms is None else doms & d
    doms = doms or set()
    dispatch = max(doms, key=lambda b: len(cfg.dominators().get(b, ()))) if doms else None
    for b in ([dispatch] if dispatch is not None else []) + [t.bb for t in handlers]:
        p = None if b in sb else cfg.path_avoiding([b], sb)   # a store in the dispatching block itself precedes its terminator
        ob.check(p is None, 'handle_message|refresh-before-dispatch', 'every accepted message refreshes last_recv_time before it is dispatched',
                 'a message can be dispatched without refreshing last_recv_time (in some protocol state accepted packets do not count as a sign of life): the timeout '
                 'guards then measure silence from an older packet or from construction', where(f, f.blocks[b].term.line), witness=path_str(f, p) if p else None)


def check_and_set(W, ob, variant, flag, floor):
    sites_ = []
    for f in W.fns():
        if 'UdpProtocol' not in f.path:
            continue
        for s in event_constructions(W, f, 'Event', variant):
            sites_.append((f, s))
    ob.require_count(len(sites_), floor, 'Event::%s emission sites' % variant)
    for f, s in sites_:
        g = W.guard(f, s.bb)
        tested = guard_has_bool(g, 'self.' + flag, False)
        st = stores_in(W, f, flag)
        cfg = cfg_of(f)
        setb = [w['bb'] for w in st if W.ctx(f).expr_rvalue(w['site'].rv) == ('int', 1)]
        followed = s.bb in setb or (bool(setb) and cfg.path_from_avoiding(s.bb, setb) is None)
        if not followed:
            # ... or set first, then emitted: a set inside the tested region (its own guard still has the flag clear) that dominates the emission
            followed = any(cfg.dominates(b, s.bb) and guard_has_bool(W.guard(f, b), 'self.' + flag, False) for b in setb)
        ob.check(tested and followed, '%s|%s|test-and-set' % (short(f.path), variant),
                 'Event::%s in %s is emitted only if `%s` is clear and sets it' % (variant, short(f.path), flag),
                 'Event::%s in %s: flag tested=%s, flag set on every following path=%s -- the event can be emitted twice '
                 'for one address' % (variant, short(f.path), tested, followed), where(f, s.line))


def o2(W, ob):
    check_and_set(W, ob, 'Disconnected', 'disconnect_event_sent', 3)
    check_and_set(W, ob, 'NetworkInterrupted', 'disconnect_notify_sent', 1)
    # the flag is never cleared
    for w in W.writes_to_field('disconnect_event_sent')[0]:
        if w['kind'] == 'store':
            v = W.ctx(w['fn']).expr_rvalue(w['site'].rv)
            ob.check(v == ('int', 1), 'disconnect_event_sent|cleared|%s' % short(w['fn'].path), 'disconnect_event_sent is only ever set',
                     'disconnect_event_sent is assigned %s in %s' % (key(v), short(w['fn'].path)), where(w['fn'], w['line']))


def _reads_of(W, name):
    from .inventory import _Reads
    return _Reads(W).of(W.fn(name))


def o3(W, ob):
    st = [w for w in W.writes_to_field('disconnect_frame')[0] if w['kind'] == 'store' and 'P2PSession' in w['fn'].path]
    ob.require_count(len(st), 2, 'stores to P2PSession.disconnect_frame')
    merges = 0
    for w in st:
        f = w['fn']
        cx = W.ctx(f)
        v = cx.expr_rvalue(w['site'].rv)
        g = W.guard(f, w['bb'])
        if key(v) in ('NULL_FRAME', '-1'):
            # the reset: only after the rollback consumed it
            ok = match_path(f.path, P2P + '::handle_rollback_and_save') and \
                every_disjunct_has(g, lambda a: match_lin(a, [(has('check_simulation_consistency('), 1)], neq=-1))
            adj = sites(W, f, P2P + '::adjust_gamestate')
            # the frame is consumed by the check_simulation_consistency call the guard names; the rollback it asked for runs on every path through the reset -- before
            # it or, since adjust_gamestate does not read the field, after it
            after = bool(adj) and (cfg_of(f).path_avoiding([w['bb']], adj) is None or
                                   ((w['bb'] in adj or cfg_of(f).every_path_from_passes([w['bb']], adj)) and 'self.disconnect_frame' not in _reads_of(W, P2P + '::adjust_gamestate')))
            ob.check(ok and after, 'disconnect_frame|reset', 'the pending disconnect frame is cleared only together with the rollback that consumed it',
                     'disconnect_frame is reset in %s under %s' % (short(f.path), dnf_str(g)[:200]), where(f, w['line']))
            continue
        merges += 1
        cur = ('ap', 'self.disconnect_frame')
        unset = cmp_atom('Eq', cur, ('int', -1), True)
        isset = cmp_atom('Ne', cur, ('int', -1), True)
        # the stored value may be chosen by a `match` / `if` expression: one case per definition, each under the path condition of its defining block
        cases = [(g, v)]
        if v[0] == 'var' and isinstance(v[1], int):
            pd = W.guards(f).phi_defs(v[1])
            if pd:
                cases = [(W.guard(f, bb), val) for bb, val in pd]

        def merges_min(c, val):
            if val[0] == 'min' and cur in val[1] and len(val[1]) == 2:
                # min(pending, new) lowers only -- provided something IS pending (min with the NULL sentinel -1 would keep "nothing pending")
                return conj_implies_atom(c, isset)
            return conj_implies_atom(c, cmp_atom('Lt', val, cur, True)) or conj_implies_atom(c, unset)
        ok = all(bool(gc) and all(merges_min(c, val) for c in gc) for gc, val in cases)
        ob.check(ok, '%s|disconnect_frame|min-merge' % short(f.path),
                 'a new pending disconnect frame is only ever lowered (min-merge with the one already pending)',
                 'disconnect_frame := %s is not a min-merge: the store is not guarded by `disconnect_frame == NULL | new < '
                 'disconnect_frame` (guard: %s) -- an earlier pending cut-off can be overwritten by a later one' % (' / '.join(key(val) for _, val in cases), dnf_str(g)[:300]),
                 where(f, w['line']))
        # O3b: value = last_frame + 1, skipped only when nothing was simulated past it
        new_frame = ('bin', 'Add', ('ap', 'arg3'), ('int', 1), 'int')

        def is_start(val):
            return key(val) == '(arg3 Add 1)' or (val[0] == 'min' and len(val[1]) == 2 and cur in val[1] and any(key(x) == '(arg3 Add 1)' for x in val[1]))
        okv = all(is_start(val) for _, val in cases)
        skip_ok = every_disjunct_has(g, lambda a: match_lin(a, [(exact('self.sync_layer.current_frame'), 1), (exact('arg3'), -1)], lo=2))
        too_strict = every_disjunct_has(g, lambda a: match_lin(a, [(exact('self.sync_layer.current_frame'), 1), (exact('arg3'), -1)], lo=3))
        ob.check(okv and skip_ok and not too_strict, '%s|disconnect_frame|start' % short(f.path),
                 'resimulation starts at last_frame + 1 and is requested whenever current_frame > last_frame + 1',
                 'disconnect_frame := %s under %s; expected last_frame + 1 whenever current_frame > last_frame + 1' % (' / '.join(key(val) for _, val in cases), dnf_str(g)[:200]),
                 where(f, w['line']))
    ob.require_count(merges, 1, 'merging stores to disconnect_frame')


def o4(W, ob):
    d = W.fn(P2P + '::disconnect_player_at_frame')
    callers = W.calls_to(P2P + '::disconnect_player_at_frame')
    ob.require_count(len(callers), 4, 'callers of disconnect_player_at_frame')
    for f, t in callers:
        cx = W.ctx(f)
        a = key(cx.expr_operand(t.args[2]))
        h = key(cx.expr_operand(t.args[1]))
        host = short(f.path)
        if match_path(f.path, P2P + '::update_player_disconnects'):
            continue  # gossip path: checked by C10
        ok = a in ('NULL_FRAME', '-1') or (a.startswith('self.local_connect_status[') and a.endswith('.last_frame'))
        if a not in ('NULL_FRAME', '-1') and a.startswith('self.local_connect_status['):
            idx = a[len('self.local_connect_status['):-len('].last_frame')]
            ok = ok and (idx == h or h in idx or idx in h)
        if not ok:
            # a phi: last_frame for players, NULL for spectators
            src = trace_back(W, f, t.args[2])
            if src and src[0] == 'place':
                pd = W.guards(f).phi_defs(src[1].local)
                if pd:
                    ks = {key(v) for _, v in pd}
                    ok = all(k in ('NULL_FRAME', '-1') or (k.startswith('self.local_connect_status[') and k.endswith('.last_frame')) for k in ks)
        ob.check(ok, '%s|disconnect-frame-arg' % host, '%s passes the player\'s own last received frame' % host,
                 '%s passes `%s` as last_frame of handle `%s`' % (host, a, h), where(f, t.line))
    G = W.guards(d)
    cfg = cfg_of(d)
    disc = [t for t in d.calls() if callee_matches(t.callee, 'UdpProtocol::disconnect')]
    ob.require_count(len(disc), 2, 'endpoint.disconnect() calls in disconnect_player_at_frame')
    marks = [w for w in stores_in(W, d, 'disconnected')]
    ob.require_count(len(marks), 1, 'stores marking handles disconnected')
    for w in marks:
        k = w['ap'].s(d)
        ok = 'handles' in k and W.ctx(d).expr_rvalue(w['site'].rv) == ('int', 1)
        ob.check(ok, 'disconnect_player_at_frame|mark-all-handles', 'every handle of the endpoint is marked disconnected',
                 'the disconnected flag is stored to `%s`' % k, where(d, w['line']))
    # on the Remote arm every path reaches endpoint.disconnect()
    remote_disc = [t for t in disc if guard_has_is(G.guard(t.bb), 'self.player_reg.handles[arg2]', 'Remote')]
    ob.check(len(remote_disc) == 1, 'disconnect_player_at_frame|remote-endpoint-disconnect',
             'the remote endpoint is stopped', 'no endpoint.disconnect() on the Remote arm', where(d))
    for t in remote_disc:
        g = G.guard(t.bb)
        extra = [a for c in g for a in c if a[0] != 'is']
        ob.check(not extra, 'disconnect_player_at_frame|remote-endpoint-disconnect-unconditional',
                 'the remote endpoint is stopped on every path of the Remote arm', 'endpoint.disconnect() is conditional: ' + dnf_str(g)[:200],
                 where(d, t.line))
    ob.check(W.cg.fn_must_call(d, P2P + '::check_initial_sync'), 'disconnect_player_at_frame|check-initial-sync',
             'the session re-checks whether everyone left is synchronized', 'disconnect_player_at_frame does not always call check_initial_sync', where(d))
    # disconnect_player: only for connected remote players
    dp = W.fn(P2P + '::disconnect_player')
    for t in dp.calls():
        if callee_matches(t.callee, P2P + '::disconnect_player_at_frame'):
            g = W.guard(dp, t.bb)
            if guard_has_is(g, 'self.player_reg.handles[arg2]', 'Remote'):
                ob.check(every_disjunct_has(g, lambda a: a[0] == 'bool' and a[1].endswith('.disconnected') and a[2] is False),
                         'disconnect_player|connected-only', 'disconnect_player acts only on a still connected remote player',
                         'disconnect_player can disconnect an already disconnected player: ' + dnf_str(g)[:200], where(dp, t.line))


from . import helpers, wiring

from . import initial

from . import mustcall

from . import vocab

from . import inventory

OBLIGATIONS = [
    ('C07.O1', 'timeout guards', 'NetworkInterrupted under last_recv_time + disconnect_notify_start < now, Disconnected under '
     'last_recv_time + disconnect_timeout < now, both while Running; last_recv_time written only by handle_message.', o1),
    ('C07.O2', 'once', 'every emission of Event::Disconnected (3 sites) / NetworkInterrupted tests its flag and sets it on the same '
     'path; disconnect_event_sent is never cleared.', o2),
    ('C07.O3', 'resimulate from the earliest cut-off', 'disconnect_frame is a pending minimum: every store but the reset after the '
     'rollback is a min-merge of last_frame + 1, skipped only when current_frame <= last_frame + 1.', o3),
    ('C07.O4', 'siblings', 'timeout path and disconnect_player pass local_connect_status[h].last_frame; disconnect_player_at_frame '
     'marks all handles, stops the endpoint on every path, re-checks initial sync.', o4),
    ('C07.O5', 'same cut-off predicate everywhere (= C03.O2)', 'see C03.O2', c03.o2),
    ('C07.O6', 'the cut-off is final (= C03.O4)', 'inputs of a player already marked disconnected are ignored (see C03.O4)', c03.o4),
    ('C07.O7', 'the pending disconnect frame takes part in the rollback (= C01.O1, C01.O7)', 'see C01.O7', c01.o7),
    ('C07.H', 'helpers the rules above rely on', 'the bodies of the helpers named by this property\'s rules compute what the rules assume (endpoint_getters, protocol_state_tests); see rules/helpers.py', helpers.bundle('endpoint_getters', 'protocol_state_tests', 'from_inputs')),
    ('C07.W', 'configuration wiring', 'at every call site that passes a field read `x.B` for a parameter `A` the callee has no same-typed parameter `B`; in every struct literal no parameter `B` is stored in field `A` while a same-typed parameter `A` / field `B` exists (builder -> constructor -> endpoint fields: timeouts, window, fps are not crossed); see rules/wiring.py', wiring.rule),
    ('C07.I', 'initial state', 'every constructor gives the fields this property\'s rules interpret (NULL_FRAME = none / nothing yet, 0 = first frame, latches open, typestate start) the value listed in tables/initial_state.json; every field compared with NULL_FRAME anywhere is listed; see rules/initial.py', initial.rule_for('C07')),
    ('C07.M', 'must-call floor', 'the calls listed for this property in tables/must_call.json are made on every path from the entry of their function to a normal return (interprocedural must-call): a new early return, fast path or extra condition in front of one of them is reported; see rules/mustcall.py', mustcall.rule_for('C07')),
    ('C07.V', 'no unreviewed condition in the pinned helpers', 'for each helper whose body this property\'s rules pin (tables/condition_terms.json), the terms its path conditions are built from (fields, parameters, call results -- no constants, operators or local names) are a subset of the reviewed vocabulary: one more `if` in front of a pinned result (a lock that may time out, "only while an endpoint is running") is reported; see rules/vocab.py', vocab.rule_for('C07')),
    ('C07.S', 'state inventory', 'every field of the structs this property\'s rules read (tables/state.json) is known, and is written only by its reviewed writers (or helpers only they call): a new field is new state across calls -- a cache, a flag, a stored deadline -- that nothing has shown to stay in step; a new writer is a second place that resets, re-arms or moves something; see rules/inventory.py', inventory.state_rule_for('C07')),
    ('C07.K', 'call inventory', 'every reviewed call of a function that writes state (tables/call_edges.json, callers in the structs this property\'s rules read) is still made, directly or through helpers: a call deleted as redundant is reported; likewise the arguments of logging / debug-only macros change no state, no unreviewed call of a state-writing function appears (tables/call_edges_all.json), the types of the locals a loop carries from one iteration to the next (tables/carried.json) and, per function and field, how reads and writes of the field are ordered (tables/orders.json: a snapshot taken before instead of after an update) are as reviewed; see rules/inventory.py', inventory.call_rule_for('C07')),
    ('C07.A', 'expression inventory', 'every arithmetic expression handed to a call or stored in a field, and what every closure given to an iterator adaptor / collection method returns, is one of the reviewed expressions of its function (tables/expressions.json; linear / guard normal forms, no local names): a changed literal, operator, operand order, factor, predicate or sort key is reported; see rules/inventory.py', inventory.expr_rule_for('C07')),
    ('C07.Z', inventory.CONST_TITLE, inventory.CONST_TEXT, inventory.const_rule_for('C07')),
]
