"""Fact extraction: runs the ggrs-facts driver over a ggrs source tree (default /repo) through cargo.

The fact file is cached under /verif/.cache/facts keyed by a hash of the tree's sources, manifest and lock file and
of the driver binary, so that eighteen checks on one tree cost one extraction; any edit to the tree changes the key.
cargo's own freshness cache is defeated by deleting the ggrs fingerprints before each run and the run is only
accepted if the fact file was (re)written by it.
"""
import hashlib
import os
import shutil
import subprocess
import sys
import time

VERIF = os.path.dirname(os.path.dirname(os.path.abspath(__file__)))
CACHE = os.path.join(VERIF, '.cache')
DRIVER = os.path.join(VERIF, 'engine', 'target', 'release', 'ggrs-facts')

CONFIGS = {
    'default': [],
    'sync-send': ['--features', 'sync-send'],
    'release': ['--release'],
}


def sysroot():
    return subprocess.check_output(['rustc', '+nightly', '--print', 'sysroot'], text=True).strip()


def tree_hash(repo):
    h = hashlib.sha256()
    files = []
    for root, dirs, fs in os.walk(os.path.join(repo, 'src')):
        dirs.sort()
        for f in sorted(fs):
            files.append(os.path.join(root, f))
    for f in ('Cargo.toml', 'Cargo.lock'):
        files.append(os.path.join(repo, f))
    for f in files:
        h.update(os.path.relpath(f, repo).encode())
        h.update(b'\0')
        try:
            with open(f, 'rb') as fh:
                h.update(fh.read())
        except OSError:
            h.update(b'<missing>')
        h.update(b'\0')
    with open(DRIVER, 'rb') as fh:
        h.update(hashlib.sha256(fh.read()).digest())
    return h.hexdigest()[:20]


def ensure_driver():
    if not os.path.exists(DRIVER):
        subprocess.check_call(['cargo', '+nightly', 'build', '--release', '--offline'],
                              cwd=os.path.join(VERIF, 'engine'))


def extract(repo='/repo', config='default', crates='ggrs', all_crates=False, target_dir=None, quiet=True):
    """returns (dict crate -> fact file path, info dict)"""
    ensure_driver()
    t0 = time.time()
    key = tree_hash(repo)
    tag = '%s-%s%s' % (key, config, '-deps' if all_crates else '')
    outdir = os.path.join(CACHE, 'facts', tag)
    want = crates.split(',')
    paths = {c: os.path.join(outdir, c + '.json') for c in want}
    if all(os.path.exists(p) for p in paths.values()):
        return paths, {'cached': True, 'key': key, 'wall_s': 0.0}
    os.makedirs(outdir, exist_ok=True)
    for p in paths.values():
        if os.path.exists(p):
            os.remove(p)
    if target_dir is None:
        target_dir = os.path.join(CACHE, 'target-%s%s' % (config, '-deps' if all_crates else ''))
    os.makedirs(target_dir, exist_ok=True)
    # defeat cargo's freshness cache for the crates we want facts of
    for prof in ('debug', 'release'):
        fp = os.path.join(target_dir, prof, '.fingerprint')
        if os.path.isdir(fp):
            for d in os.listdir(fp):
                base = d.rsplit('-', 1)[0]
                if base in want or base.replace('-', '_') in want:
                    shutil.rmtree(os.path.join(fp, d), ignore_errors=True)
    env = dict(os.environ)
    env['LD_LIBRARY_PATH'] = os.path.join(sysroot(), 'lib') + ':' + env.get('LD_LIBRARY_PATH', '')
    env['RUSTFLAGS'] = '-Zmir-opt-level=0 -Awarnings'
    env['CARGO_NET_OFFLINE'] = 'true'
    env['GGRS_FACTS_OUT'] = outdir
    env['GGRS_FACTS_CRATES'] = crates
    env['CARGO_TARGET_DIR'] = target_dir
    env.pop('RUSTC_WRAPPER', None)
    env.pop('RUSTC_WORKSPACE_WRAPPER', None)
    env['RUSTC_WRAPPER' if all_crates else 'RUSTC_WORKSPACE_WRAPPER'] = DRIVER
    cmd = ['cargo', '+nightly', 'check', '--offline', '--lib'] + CONFIGS[config]
    p = subprocess.run(cmd, cwd=repo, env=env, stdout=subprocess.PIPE, stderr=subprocess.STDOUT, text=True)
    if p.returncode != 0:
        sys.stderr.write(p.stdout[-4000:])
        raise RuntimeError('fact extraction failed: the tree does not compile (config %s)' % config)
    for c, pth in paths.items():
        if not os.path.exists(pth):
            sys.stderr.write(p.stdout[-2000:])
            raise RuntimeError('fact extraction produced no fact file for crate %s' % c)
    return paths, {'cached': False, 'key': key, 'wall_s': round(time.time() - t0, 2)}


DEP_CRATES = ('bitfield_rle', 'varinteger')


def deps_hash(repo):
    h = hashlib.sha256()
    for f in ('Cargo.toml', 'Cargo.lock'):
        try:
            with open(os.path.join(repo, f), 'rb') as fh:
                h.update(fh.read())
        except OSError:
            h.update(b'<missing>')
        h.update(b'\0')
    with open(DRIVER, 'rb') as fh:
        h.update(hashlib.sha256(fh.read()).digest())
    return h.hexdigest()[:20]


def extract_deps(repo='/repo'):
    """facts of the two codec dependencies (bitfield_rle, varinteger).  Their source is pinned by Cargo.lock (registry checksum), so the
    cache key is the manifest + lock file + driver, not the ggrs sources; written atomically (parallel scratch copies share it)."""
    ensure_driver()
    t0 = time.time()
    key = deps_hash(repo)
    outdir = os.path.join(CACHE, 'facts', 'deps-' + key)
    paths = {c: os.path.join(outdir, c + '.json') for c in DEP_CRATES}
    if all(os.path.exists(p) for p in paths.values()):
        return paths, {'cached': True, 'key': key, 'wall_s': 0.0}
    import tempfile
    os.makedirs(os.path.join(CACHE, 'facts'), exist_ok=True)
    tmp_out = tempfile.mkdtemp(prefix='deps-tmp-', dir=os.path.join(CACHE, 'facts'))
    tmp_target = tempfile.mkdtemp(prefix='target-deps-', dir=CACHE)
    try:
        env = dict(os.environ)
        env['LD_LIBRARY_PATH'] = os.path.join(sysroot(), 'lib') + ':' + env.get('LD_LIBRARY_PATH', '')
        env['RUSTFLAGS'] = '-Zmir-opt-level=0 -Awarnings'
        env['CARGO_NET_OFFLINE'] = 'true'
        env['GGRS_FACTS_OUT'] = tmp_out
        env['GGRS_FACTS_CRATES'] = ','.join(DEP_CRATES)
        env['CARGO_TARGET_DIR'] = tmp_target
        env.pop('RUSTC_WORKSPACE_WRAPPER', None)
        env['RUSTC_WRAPPER'] = DRIVER
        p = subprocess.run(['cargo', '+nightly', 'check', '--offline', '--lib'], cwd=repo, env=env, stdout=subprocess.PIPE,
                           stderr=subprocess.STDOUT, text=True)
        if p.returncode != 0:
            sys.stderr.write(p.stdout[-4000:])
            raise RuntimeError('dependency fact extraction failed')
        for c in DEP_CRATES:
            if not os.path.exists(os.path.join(tmp_out, c + '.json')):
                raise RuntimeError('dependency fact extraction produced no fact file for crate %s' % c)
        try:
            os.rename(tmp_out, outdir)
        except OSError:
            pass  # another process won the race; its result is equivalent
    finally:
        shutil.rmtree(tmp_target, ignore_errors=True)
        shutil.rmtree(tmp_out, ignore_errors=True)
    return paths, {'cached': False, 'key': key, 'wall_s': round(time.time() - t0, 2)}


if __name__ == '__main__':
    import argparse
    ap = argparse.ArgumentParser()
    ap.add_argument('--repo', default='/repo')
    ap.add_argument('--config', default='default')
    ap.add_argument('--crates', default='ggrs')
    ap.add_argument('--all-crates', action='store_true')
    a = ap.parse_args()
    print(extract(a.repo, a.config, a.crates, a.all_crates))
    if a.crates == 'ggrs':
        print(extract_deps(a.repo))
