"""The analysed program: facts of one configuration + call graph + cached semantic contexts, and the generic
whole-program indexes (writer sets, constructor sites, growth sites) of analysis B.  Rule-free."""
from .facts import Facts, strip_generics, Place
from .cfg import CallGraph, cfg_of, match_path, callee_matches
from .sem import Ctx, Guards, AP, key, last_seg

GROW_FNS = {'push', 'push_back', 'push_front', 'insert', 'extend', 'extend_from_slice', 'append', 'resize',
            'entry', 'or_default', 'or_insert', 'or_insert_with', 'resize_with', 'extend_from_within', 'reserve',
            'clone_into', 'clone_from'}
SHRINK_FNS = {'pop', 'pop_front', 'pop_back', 'remove', 'remove_entry', 'retain', 'clear', 'drain', 'truncate',
              'split_off', 'swap_remove', 'take'}
COLLECTION_TYS = ('std::vec::Vec<', 'std::collections::VecDeque<', 'std::collections::HashMap<',
                  'std::collections::HashSet<', 'std::collections::BTreeMap<', 'std::collections::BTreeSet<',
                  'Vec<', 'VecDeque<', 'HashMap<', 'HashSet<', 'BTreeMap<', 'BTreeSet<')


class AnchorMissing(Exception):
    pass


class _WrappedConstruction:
    """a call of a constructor wrapper, presented like the assignment `dest = Adt::Variant{..}` it stands for (rule code reads .bb .line .place .rv.j)"""
    k = 'assign'

    def __init__(self, term, agg_stmt, idx):
        self.term = term
        self.place = term.dest
        self.rv = agg_stmt.rv
        self.variant = None
        self.span = term.span
        self.bb = term.bb
        self.idx = idx
        self.wrapped = True

    @property
    def line(self):
        return self.span['line']

    @property
    def macros(self):
        return self.span['mac']

    def __repr__(self):
        return '%r = %r (through a constructor wrapper)' % (self.place, self.rv)


class World:
    def __init__(self, facts, extra_facts=()):
        self.fx = facts
        self.all_facts = [facts] + list(extra_facts)
        self.cg = CallGraph(self.all_facts)
        self._ctx = {}
        self._guards = {}
        self._straight = {}
        self._promoted = {}
        self._writes = None

    # ---- anchors ----
    def fn(self, suffix, unique=True):
        r = []
        for fx in self.all_facts:
            r.extend(f for f in fx.find(suffix) if f.kind in ('fn', 'method'))
        if not r:
            raise AnchorMissing('function `%s` not found' % suffix)
        if unique:
            if len(r) != 1:
                raise AnchorMissing('function `%s` is ambiguous (%d matches)' % (suffix, len(r)))
            return r[0]
        return r

    def fn_opt(self, suffix):
        try:
            return self.fn(suffix)
        except AnchorMissing:
            return None

    def const(self, name):
        v = self.fx.const_val(name)
        if v is None:
            raise AnchorMissing('constant `%s` not found or not scalar' % name)
        return v

    def adt(self, path):
        for fx in self.all_facts:
            a = fx.adt(path)
            if a is not None:
                return a
        return None

    def struct_fields(self, adt_suffix):
        a = self.adt(adt_suffix)
        if a is None:
            raise AnchorMissing('type `%s` not found' % adt_suffix)
        return a['variants'][0]['fields']

    def require_field(self, adt_suffix, field):
        for f in self.struct_fields(adt_suffix):
            if f['name'] == field:
                return f
        raise AnchorMissing('field `%s.%s` not found' % (adt_suffix, field))

    # ---- contexts ----
    def ctx(self, fn):
        c = self._ctx.get(fn)
        if c is None:
            c = Ctx(fn, self)
            self._ctx[fn] = c
        return c

    def guards(self, fn):
        g = self._guards.get(fn)
        if g is None:
            g = Guards(self.ctx(fn))
            self._guards[fn] = g
        return g

    def guard(self, fn, bb):
        return self.guards(fn).guard(bb)

    def is_straight_line(self, fn):
        v = self._straight.get(fn)
        if v is None:
            v = True
            n = 0
            for b in fn.blocks:
                if b.cleanup:
                    continue
                n += 1
                if b.term.k == 'switch':
                    v = False
                    break
            if n > 12:
                v = False
            self._straight[fn] = v
        return v

    PURE_EXTERNAL = {'min', 'max', 'eq', 'ne', 'lt', 'le', 'gt', 'ge', 'len', 'is_empty', 'clone', 'into', 'from', 'try_into', 'try_from', 'unwrap_or',
                     'unwrap_or_default', 'deref', 'as_ref', 'cmp', 'partial_cmp', 'is_some', 'is_none', 'is_ok', 'is_err', 'contains', 'contains_key',
                     'get', 'first', 'last', 'abs', 'saturating_sub', 'saturating_add', 'clamp', 'index'}

    def is_small_pure(self, fn, _stack=()):
        """no loops, few blocks, no `&mut` parameters, no stores through references, only pure callees"""
        k = ('pure', fn)
        if k in self._straight:
            return self._straight[k]
        if fn in _stack:
            return False
        v = True
        blocks = [b for b in fn.blocks if not b.cleanup]
        if len(blocks) > 24 or fn.kind not in ('fn', 'method'):
            v = False
        if v and any(fn.local_ty(i).startswith('&mut') for i in range(1, fn.argc + 1)):
            v = False
        if v and cfg_of(fn).back_edges():
            v = False
        if v:
            for b in blocks:
                for st in b.stmts:
                    if st.k != 'assign' or any(e == 'deref' for e in st.place.proj):
                        v = False
                t = b.term
                if t.k == 'call':
                    if any(m in ('trace', 'debug', 'warn', 'info', 'error') for m in t.macros):
                        continue
                    if t.callee.indirect is not None:
                        v = False
                        continue
                    tg = self.cg.targets(t.callee)
                    if tg:
                        if not all(self.is_straight_line(x) and self.is_small_pure(x, _stack + (fn,)) or self.is_small_pure(x, _stack + (fn,)) for x in tg):
                            v = False
                    elif last_seg(t.callee.best) not in self.PURE_EXTERNAL:
                        if t.target is None:
                            continue   # a diverging call (panic): the path does not return
                        v = False
        self._straight[k] = v
        return v

    def promoted_expr(self, parent_path, idx):
        k = (parent_path, idx)
        if k in self._promoted:
            return self._promoted[k]
        r = None
        name = '%s::promoted[%d]' % (parent_path, idx)
        for fx in self.all_facts:
            for f in fx.fns.get(name, []):
                c = Ctx(f, self)
                r = c.expr_place(Place({'l': 0, 'p': []}))
                if r[0] in ('var',):
                    r = None
        self._promoted[k] = r
        return r

    def closure_site(self, clo):
        """(parent function, the Aggregate statement that builds this closure)"""
        if not hasattr(self, '_closure_sites'):
            self._closure_sites = {}
            for f in self.fns():
                for s in f.stmts():
                    if s.k == 'assign' and s.rv.k == 'agg' and s.rv.j.get('ak') == 'closure':
                        self._closure_sites[strip_generics(s.rv.j['closure'])] = (f, s)
        return self._closure_sites.get(clo.path)

    def closures_of(self, fn):
        r = []
        for fx in self.all_facts:
            r.extend(fx.closures_of(fn))
        return r

    def fns(self):
        return self.cg.fns

    # ---- analysis B: writes ----
    def writes(self):
        """every store and every call that receives a `&mut` to (part of) a place, with access paths.
        Entries: dict(fn, bb, kind='store'|'call', ap=AP, site=Stmt|Term, callee=seg|None, line)"""
        if self._writes is not None:
            return self._writes
        out = []
        for f in self.fns():
            cx = self.ctx(f)
            for b in f.blocks:
                if b.cleanup:
                    continue
                for s in b.stmts:
                    if s.k != 'assign' and s.k != 'setdiscr':
                        continue
                    if s.place.is_local():
                        continue
                    ap = cx.ap_of_place(s.place)
                    if not ap.steps and ap.root[0] == 'local':
                        continue
                    out.append(dict(fn=f, bb=b.id, kind='store', ap=ap, site=s, callee=None, line=s.line))
                t = b.term
                if t.k == 'call':
                    if not t.dest.is_local():
                        ap = cx.ap_of_place(t.dest)
                        if ap.steps or ap.root[0] != 'local':
                            out.append(dict(fn=f, bb=b.id, kind='store', ap=ap, site=t, callee=None, line=t.line))
                    for i, a in enumerate(t.args):
                        ty = t.arg_tys[i] if i < len(t.arg_tys) else ''
                        if ty.startswith('&mut ') and a.is_place():
                            ap = cx.ap_carry(a.place)
                            seg = last_seg(t.callee.best) if t.callee.indirect is None else None
                            out.append(dict(fn=f, bb=b.id, kind='call', ap=ap, site=t, callee=seg, line=t.line, argi=i))
        self._writes = out
        return out

    def writes_to_field(self, field, owner_hint=None):
        """stores / mutating calls whose access path ends at (or passes through) `field`.
        Returns entries where the LAST field of the path is `field` (exact target) in 'exact', others in 'through'."""
        exact, through = [], []
        for w in self.writes():
            fs = w['ap'].fields()
            if not fs:
                continue
            if fs[-1] == field:
                exact.append(w)
            elif field in fs:
                through.append(w)
        return exact, through

    def constructor_wrappers(self):
        """{fn: (adt, variant)} -- crate functions that do nothing but build one variant of an ADT and return it (`fn invalid_request(info) -> GgrsError`):
        straight-line (no branch outside cleanup), exactly one aggregate of an ADT of this crate, and the return type names that ADT.  A call of such a
        wrapper is a construction site of the variant in the CALLER (Min et al.: treat a wrapper as the thing it wraps)."""
        c = getattr(self, '_ctor_wrappers', None)
        if c is not None:
            return c
        c = {}
        for f in self.fns():
            if f.derived or f.kind == 'closure' or f.path.split('::')[-1] in ('new', 'default', 'from'):
                continue
            if any(b.term.k == 'switch' for b in f.blocks if not b.cleanup):
                continue
            if any((f.local_ty(i) or '').startswith('&mut') for i in range(1, f.argc + 1)):
                continue     # it can change state: a function of its own (save_current_state), not a spelling of the literal
            aggs = [s for s in f.stmts() if s.k == 'assign' and s.rv.k == 'agg' and s.rv.j.get('ak') == 'adt' and strip_generics(s.rv.j['adt']).startswith('ggrs::')]
            if len(aggs) != 1:
                continue
            adt = strip_generics(aggs[0].rv.j['adt'])
            ret_ty = f.local_ty(0) or ''
            if adt.split('::')[-1] not in ret_ty or not any(k in adt for k in ('GgrsError', 'GgrsEvent', 'Event', 'GgrsRequest')):
                continue
            c[f] = (adt, aggs[0].rv.j['variant'], aggs[0])
        self._ctor_wrappers = c
        return c

    def constructions(self, adt_suffix, variant=None):
        """Aggregate constructions of an ADT (variant); calls of a constructor wrapper count as constructions in the caller"""
        wr = self.constructor_wrappers()
        r = []
        for f in self.fns():
            if f.derived:
                continue   # #[derive(Clone, ...)] re-builds variants; not a producer of new values
            if f not in wr:
                for s in f.stmts():
                    if s.k == 'assign' and s.rv.k == 'agg' and s.rv.j.get('ak') == 'adt':
                        p = strip_generics(s.rv.j['adt'])
                        if match_path(p, adt_suffix) and (variant is None or s.rv.j['variant'] == variant):
                            r.append((f, s))
            for b in f.blocks:
                t = b.term
                if b.cleanup or t.k != 'call':
                    continue
                for g in self.cg.targets(t.callee):
                    if g in wr and match_path(wr[g][0], adt_suffix) and (variant is None or wr[g][1] == variant):
                        r.append((f, _WrappedConstruction(t, wr[g][2], len(b.stmts))))
        return r

    def calls_to(self, pattern, within=None):
        r = []
        fns = [within] if within is not None else self.fns()
        for f in fns:
            for t in f.calls():
                if callee_matches(t.callee, pattern):
                    r.append((f, t))
        return r

    def calls_in(self, fn, pattern, include_closures=False):
        r = [t for t in fn.calls() if callee_matches(t.callee, pattern)]
        if include_closures:
            for c in self.closures_of(fn):
                r.extend(t for t in c.calls() if callee_matches(t.callee, pattern))
        return r


# ---------------------------------------------------------------------------------------------------------
# analysis E: effect summaries
# ---------------------------------------------------------------------------------------------------------

def _subst_root(ap_str, mapping):
    """rewrite the root of an access-path string (`self.x[*].y`, `arg2.z`, `^self.w`) through mapping root->caller path"""
    import re
    m = re.match(r'^(\^?[A-Za-z_][A-Za-z_0-9]*)(.*)$', ap_str)
    if not m:
        return None
    root, rest = m.group(1), m.group(2)
    if root in mapping:
        base = mapping[root]
        if base is None:
            return None
        return base + rest
    return None


class Effects:
    """for every function the set of (generic) access-path strings, rooted at its parameters (`self`, `argN`) or at
    captured variables (`^name`), that it may write -- directly, through calls (callee roots mapped to the caller's
    argument paths) or through closures it constructs.  Writes rooted at locals are dropped."""

    def __init__(self, W):
        self.W = W
        self.memo = {}
        self.by_fn = {}
        for w in W.writes():
            self.by_fn.setdefault(w['fn'], []).append(w)

    def of(self, fn, _stack=()):
        if fn in self.memo:
            return self.memo[fn]
        if fn in _stack:
            return set()
        W = self.W
        cx = W.ctx(fn)
        out = set()
        for w in self.by_fn.get(fn, []):
            ap = w['ap']
            if w['kind'] == 'store':
                if ap.root[0] in ('arg', 'upvar') or (ap.root[0] == 'expr' and ap.root[1].split('.')[0].split('[')[0] in ('self',) or
                                                     (ap.root[0] == 'expr' and ap.root[1].startswith('arg'))):
                    out.add(ap.s(fn, generic=True))
                continue
            # a call receiving &mut
            t = w['site']
            tg = W.cg.targets(t.callee)
            rooted = ap.root[0] in ('arg', 'upvar') or (ap.root[0] == 'expr' and (ap.root[1].startswith('self') or ap.root[1].startswith('arg')))
            base = ap.s(fn, generic=True) if rooted else None
            if tg:
                for g in tg:
                    sub = self.of(g, _stack + (fn,))
                    mapping = {}
                    for i, a in enumerate(t.args):
                        nm = 'self' if g.local_name(i + 1) == 'self' else 'arg%d' % (i + 1)
                        if a.is_place():
                            apc = cx.ap_carry(a.place)
                            okr = apc.root[0] in ('arg', 'upvar') or (apc.root[0] == 'expr' and (apc.root[1].startswith('self') or apc.root[1].startswith('arg')))
                            mapping[nm] = apc.s(fn, generic=True) if okr else None
                        else:
                            mapping[nm] = None
                    for e in sub:
                        r = _subst_root(e, mapping)
                        if r is not None:
                            out.add(r)
            else:
                if base is not None:
                    out.add(base)
        # closures constructed here: their upvar-rooted effects, mapped through the captured places
        for c in W.closures_of(fn):
            if c.direct_parent != fn.path and c.parent != fn.path:
                continue
            sub = self.of(c, _stack + (fn,))
            for e in sub:
                if e.startswith('^'):
                    e2 = e[1:]
                    out.add(e2 if e2.startswith('self') else '^' + e2 if fn.kind == 'closure' else e2)
                elif e.startswith('self') and not (c.local_name(1) == 'self'):
                    out.add(e)   # already expressed in the parent's terms (resolved capture)
        self.memo[fn] = out
        return out
