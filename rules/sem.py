"""Analyses B' (reference provenance / access paths), C (expressions, guards as normal forms) and parts of D.
Rule-free.  See DESIGN.md section 2.2.

Access path (AP): a root plus a tuple of steps; derefs are elided, tuple fields and downcasts are transparent.
  root  : ('arg', i) | ('local', i) | ('upvar', name) | ('ret', callee, bb) | ('expr', key)
  steps : field names, '[*]' or '[<key of index expression>]'
Expressions are nested tuples; `key(e)` is their canonical string.
"""
from .facts import strip_generics, Place, Operand
from .cfg import cfg_of, match_path

INT_TYS = {'i8', 'i16', 'i32', 'i64', 'i128', 'isize', 'u8', 'u16', 'u32', 'u64', 'u128', 'usize'}

# callees whose result refers into (an element of) what their first argument refers to
ELEM_FNS = {'index', 'index_mut', 'get', 'get_mut', 'get_unchecked', 'get_unchecked_mut', 'first', 'last', 'front',
            'back', 'front_mut', 'back_mut', 'first_mut', 'last_mut', 'iter', 'iter_mut', 'values', 'values_mut',
            'keys', 'next', 'next_back', 'peek', 'entry', 'find', 'max_by_key', 'min_by_key', 'drain', 'get_key_value',
            'pop_front', 'pop_back', 'pop', 'remove', 'remove_entry', 'max', 'min', 'nth'}
# ... refers to exactly what the first argument refers to
IDENT_FNS = {'deref', 'deref_mut', 'unwrap', 'expect', 'as_ref', 'as_mut', 'as_slice', 'as_mut_slice', 'borrow',
             'borrow_mut', 'enumerate', 'rev', 'by_ref', 'or_default', 'or_insert_with', 'or_insert', 'as_deref',
             'as_deref_mut', 'unwrap_or_default', 'skip', 'take', 'peekable', 'ok', 'unwrap_unchecked', 'branch',
             'from_residual', 'from_output', 'lock', 'into_inner'}
# value-preserving conversions
VALUE_FNS = {'clone', 'copied', 'cloned', 'into', 'from', 'try_into', 'try_from', 'to_owned', 'to_vec', 'into_iter',
             'as_millis'}
CMP_FNS = {'eq': 'Eq', 'ne': 'Ne', 'lt': 'Lt', 'le': 'Le', 'gt': 'Gt', 'ge': 'Ge'}
ARITH_FNS = {'add': 'Add', 'sub': 'Sub'}
NEG = {'Eq': 'Ne', 'Ne': 'Eq', 'Lt': 'Ge', 'Le': 'Gt', 'Gt': 'Le', 'Ge': 'Lt'}
NOINLINE = {'check_simulation_consistency', 'confirmed_frame', 'last_recv_frame', 'frames_behind_host', 'inputs_at_frame',
            'next_complete_outgoing_input_frame', 'max_frame_advantage', 'average_frame_advantage', 'prev_pos', 'validate_player_handle',
            'to_player_inputs', 'decode', 'rle_decode', 'delta_decode', 'delta_encode', 'encode', 'set_frame_delay', 'add_local_input',
            'add_input', 'advance_queue_head', 'saved_state_by_frame', 'latest_saved_state_in_range', 'local_player_handles', 'is_handling_message',
            'peer_connect_status', 'millis_since_epoch', 'checksums_consistent'}
LOG_MACROS = {'trace', 'debug', 'info', 'warn', 'error', 'event', 'enabled', 'level_enabled', 'log'}
BUILTIN_VARIANTS = {'Option': ['None', 'Some'], 'Result': ['Ok', 'Err'], 'ControlFlow': ['Continue', 'Break'],
                    'Ordering': None}


def transparent_proj(proj):
    """projections that only unwrap a carrier: derefs, downcasts, payload fields of a downcast, tuple fields"""
    prev_dc = False
    for e in proj:
        if e == 'deref':
            prev_dc = False
            continue
        if isinstance(e, dict):
            if 'dc' in e:
                prev_dc = True
                continue
            if 'f' in e and (e.get('adt') == 'tuple' or (prev_dc and e['f'].isdigit())):
                prev_dc = False
                continue
        return False
    return True


def last_seg(path):
    if path is None:
        return None
    return path.rsplit('::', 1)[-1]


class AP:
    __slots__ = ('root', 'steps')

    def __init__(self, root, steps=()):
        self.root = root
        self.steps = tuple(steps)

    def extend(self, *more):
        st = list(self.steps)
        for m in more:
            if m == '[*]' and st and st[-1] == '[*]':
                continue
            st.append(m)
        return AP(self.root, st)

    def fields(self):
        return [s for s in self.steps if not s.startswith('[')]

    def generic(self):
        return AP(self.root, tuple('[*]' if s.startswith('[') else s for s in self.steps))

    def last_field(self):
        f = self.fields()
        return f[-1] if f else None

    def has_field(self, name):
        return name in self.steps

    def root_str(self, fn=None):
        r = self.root
        if r[0] == 'arg':
            if fn is not None and fn.local_name(r[1]) == 'self':
                return 'self'
            return 'arg%d' % r[1]
        if r[0] == 'local':
            if fn is not None:
                n = fn.local_name(r[1])
                if n:
                    return '%s#%d' % (n, r[1])
            return '_%d' % r[1]
        if r[0] == 'upvar':
            return '^' + r[1]
        if r[0] == 'ret':
            return last_seg(r[1]) + '()@bb%s' % r[2]
        if r[0] == 'expr':
            return r[1]
        return str(r)

    def s(self, fn=None, generic=False):
        out = self.root_str(fn)
        for st in self.steps:
            if st.startswith('['):
                out += '[*]' if generic else st
            else:
                out += '.' + st
        return out

    def __eq__(self, o):
        return isinstance(o, AP) and self.root == o.root and self.steps == o.steps

    def __hash__(self):
        return hash((self.root, self.steps))

    def __repr__(self):
        return 'AP(%s)' % self.s()


def key(e):
    """canonical string of an expression"""
    t = e[0]
    if t == 'int':
        return str(e[1])
    if t == 'cst':
        return last_seg(e[1])
    if t == 'ap':
        return e[1]
    if t == 'var':
        return '%s#%d' % (e[2] or 'v', e[1])
    if t == 'bin':
        return '(%s %s %s)' % (key(e[2]), e[1], key(e[3]))
    if t == 'un':
        return '%s(%s)' % (e[1], key(e[2]))
    if t == 'call':
        return '%s(%s)' % (short_path(e[1]), ', '.join(key(a) for a in e[2]))
    if t in ('min', 'max'):
        return '%s(%s)' % (t, ', '.join(sorted(key(a) for a in e[1])))
    if t == 'variant':
        return '%s::%s' % (last_seg(e[1]), e[2])
    if t == 'agg':
        return '%s{%s}' % (e[1], ', '.join('%s: %s' % (f, key(v)) for f, v in e[2]))
    if t == 'discr':
        return 'discr(%s)' % key(e[1])
    if t == 'phi':
        return 'phi(%s)' % ', '.join(key(a[1]) for a in e[1])
    if t == 'fld':
        return '%s.%s' % (key(e[1]), '.'.join(e[2]))
    if t == 'other':
        return str(e[1])
    return str(e)


def short_path(p):
    """last two segments of a def path"""
    if p is None:
        return '?'
    if p.startswith('<'):
        return p
    segs = p.split('::')
    return '::'.join(segs[-2:])


class Ctx:
    """per-function semantic view"""

    def __init__(self, fn, world, env=None, depth=0):
        self.fn = fn
        self.world = world
        self.env = env
        self.depth = depth
        self.cfg = cfg_of(fn)
        self._defs = None
        self._origin = {}
        self._expr = {}
        self._expr_roots = {}
        self._busy = set()

    # ---------------- definitions ----------------
    def defs(self, local):
        if self._defs is None:
            d = {}
            for b in self.fn.blocks:
                if b.cleanup:
                    continue
                for s in b.stmts:
                    if s.k == 'assign':
                        if s.place.is_local():
                            d.setdefault(s.place.local, []).append(('stmt', s))
                        elif not any(e == 'deref' for e in s.place.proj):
                            d.setdefault(s.place.local, []).append(('partial', s))
                    else:
                        d.setdefault(s.place.local, []).append(('partial', s))
                t = b.term
                if t.k == 'call' and t.dest.is_local():
                    d.setdefault(t.dest.local, []).append(('call', t))
                elif t.k == 'call':
                    d.setdefault(t.dest.local, []).append(('partial', t))
            self._defs = d
        return self._defs.get(local, [])

    def full_defs(self, local):
        return [d for d in self.defs(local) if d[0] != 'partial']

    def is_arg(self, local):
        return 1 <= local <= self.fn.argc

    # ---------------- access paths ----------------
    def origin(self, local):
        """what the (reference-like) value held in `local` refers to"""
        if local in self._origin:
            return self._origin[local]
        if ('o', local) in self._busy:
            return AP(('local', local))
        self._busy.add(('o', local))
        try:
            r = self._origin_uncached(local)
        finally:
            self._busy.discard(('o', local))
        self._origin[local] = r
        return r

    def _origin_uncached(self, local):
        if self.is_arg(local):
            if self.env is not None and local in self.env:
                e = self.env[local]
                if e[0] == 'ap_obj':
                    return e[1]
                return AP(('expr', key(e)))
            return AP(('arg', local))
        ds = self.full_defs(local)
        if len(ds) == 1:
            kind, d = ds[0]
            if kind == 'stmt':
                rv = d.rv
                if rv.k in ('ref', 'rawptr'):
                    return self.ap_of_place(rv.place)
                if rv.k in ('use', 'cast') and rv.a.is_place():
                    return self.ap_carry(rv.a.place)
                return AP(('local', local))
            else:
                return self.origin_of_call(d, local)
        if len(ds) > 1:
            cands = set()
            for kind, d in ds:
                if kind == 'stmt' and d.rv.k in ('ref', 'rawptr'):
                    cands.add(self.ap_of_place(d.rv.place))
                elif kind == 'stmt' and d.rv.k in ('use', 'cast') and d.rv.a.is_place():
                    cands.add(self.ap_carry(d.rv.a.place))
                else:
                    cands.add(None)
            if len(cands) == 1 and None not in cands:
                return cands.pop()
        return AP(('local', local))

    def origin_of_call(self, t, local):
        c = t.callee
        seg = last_seg(c.best) if c.indirect is None else None
        if seg and t.args and t.args[0].is_place():
            if seg in ELEM_FNS:
                base = self.ap_carry(t.args[0].place)
                if seg in ('index', 'index_mut', 'get', 'get_mut', 'remove', 'entry', 'nth') and len(t.args) > 1:
                    return base.extend('[%s]' % key(self.expr_operand(t.args[1])))
                return base.extend('[*]')
            if seg in IDENT_FNS or seg in ('into_iter', 'map', 'filter', 'filter_map', 'zip', 'chain'):
                if seg == 'into_iter':
                    ty = t.arg_tys[0] if t.arg_tys else ''
                    if ty.startswith('&') or 'Vec<' in ty[:30] or 'HashMap<' in ty[:40]:
                        if not any(x in ty for x in ('Iter', 'Enumerate', 'Range', 'Drain', 'Map<', 'Filter')):
                            return self.ap_carry(t.args[0].place).extend('[*]')
                return self.ap_carry(t.args[0].place)
        return AP(('ret', c.best if c.indirect is None else 'indirect', t.bb))

    def ap_carry(self, place):
        """the AP a reference-like value stored at `place` refers to"""
        if 'deref' not in place.proj and transparent_proj(place.proj):
            r = self.origin(place.local)
        else:
            r = self.ap_of_place(place)
        # `&mut iter` where `iter` is itself a carrier (iterator, Option<&T>, ...): look through to what it carries,
        # but only when that leads to something rooted outside this function's temporaries
        hops = 0
        while r.root[0] == 'local' and not r.steps and hops < 6:
            L = r.root[1]
            if ('c', L) in self._busy:
                break
            self._busy.add(('c', L))
            try:
                ds = self.full_defs(L)
                nxt = None
                if len(ds) == 1:
                    kind, d = ds[0]
                    if kind == 'stmt' and d.rv.k in ('use', 'cast') and d.rv.a.is_place():
                        pl = d.rv.a.place
                        nxt = self.origin(pl.local) if ('deref' not in pl.proj and transparent_proj(pl.proj)) else self.ap_of_place(pl)
                        if nxt.root == ('local', pl.local) and not nxt.steps and not pl.proj:
                            nxt = AP(('local', pl.local))
                    elif kind == 'call':
                        nxt = self.origin_of_call(d, L)
            finally:
                self._busy.discard(('c', L))
            if nxt is None or nxt == r:
                break
            if nxt.root[0] == 'local' and not nxt.steps:
                r2 = nxt
                hops += 1
                # keep following, but remember where we started in case the chain ends at an unnamed temporary
                first = r if hops == 1 else first
                r = r2
                continue
            return nxt
        if hops:
            return first
        return r

    def ap_of_place(self, place):
        proj = place.proj
        if proj and proj[0] == 'deref':
            base = self.origin(place.local)
            rest = proj[1:]
        else:
            if self.is_arg(place.local) and self.env is not None and place.local in self.env:
                e = self.env[place.local]
                base = e[1] if e[0] == 'ap_obj' else AP(('expr', key(e)))
            elif self.is_arg(place.local):
                base = AP(('arg', place.local))
            else:
                base = AP(('local', place.local))
            rest = proj
        prev_dc = False
        for e in rest:
            if e == 'deref':
                continue
            if isinstance(e, dict):
                if 'dc' in e:
                    prev_dc = True
                    continue
                if 'f' in e:
                    if e['adt'] == 'closure':
                        pe = self.upvar_expr(e['i'], e['f'])
                        if pe is not None:
                            base = AP(('expr', key(pe)))
                            self._expr_roots[key(pe)] = pe
                        else:
                            base = AP(('upvar', e['f']))
                    elif e['adt'] == 'tuple' or (prev_dc and e['f'].isdigit()):
                        prev_dc = False
                        continue
                    else:
                        prev_dc = False
                        base = base.extend(e['f'])
                elif 'idx' in e:
                    base = base.extend('[%s]' % key(self.expr_place(Place({'l': e['idx'], 'p': []}))))
                elif 'cidx' in e:
                    base = base.extend('[%d]' % e['cidx'])
                elif 'sub' in e:
                    base = base.extend('[*]')
                # downcast: transparent
        return base

    def upvar_expr(self, idx, name):
        """the captured variable as an expression of the function that builds this closure (None if unknown)"""
        if self.fn.kind != 'closure':
            return None
        k = ('uv', idx)
        if k in self._expr:
            return self._expr[k]
        self._expr[k] = None
        r = None
        site = self.world.closure_site(self.fn)
        if site is not None:
            pf, stmt = site
            if idx < len(stmt.rv.ops):
                pcx = self.world.ctx(pf)
                try:
                    r = pcx.expr_operand(stmt.rv.ops[idx])
                except RecursionError:
                    r = None
                if r is not None and r[0] == 'var':
                    # keep the parent's variable, qualified so that it cannot be confused with a local of the closure
                    r = ('ap', '%s#%d@%s' % (r[2] or 'v', r[1], last_seg(pf.path)))
        self._expr[k] = r
        return r

    def ap_str(self, ap, generic=False):
        return ap.s(self.fn, generic)

    # ---------------- expressions ----------------
    def expr_operand(self, op):
        if op.kind == 'const':
            c = op.const
            if 'fn' in c:
                return ('other', 'fn ' + strip_generics(c['fn']))
            if 'promoted' in c:
                pe = self.world.promoted_expr(strip_generics(c['def']), c['promoted'])
                if pe is not None:
                    return pe
            if 'def' in c:
                v = int(c['val']) if 'val' in c else None
                return ('cst', strip_generics(c['def']), v)
            if 'val' in c:
                return ('int', int(c['val']))
            return ('other', c.get('d', '?'))
        if op.place is None:
            return ('other', str(op.const.get('d')))
        return self.expr_place(op.place)

    def expr_place(self, place):
        k = (place.local, repr(place.proj))
        if k in self._expr:
            return self._expr[k]
        if ('e', k) in self._busy:
            return ('var', place.local, self.fn.local_name(place.local))
        self._busy.add(('e', k))
        try:
            r = self._expr_place(place)
        finally:
            self._busy.discard(('e', k))
        self._expr[k] = r
        return r

    def _expr_place(self, place):
        L = place.local
        proj = place.proj
        if not proj:
            if self.is_arg(L) and self.full_defs(L):
                # a `mut` parameter that is reassigned: not the caller's value any more
                return ('var', L, self.fn.local_name(L))
            if self.is_arg(L):
                if self.env is not None and L in self.env:
                    e = self.env[L]
                    if e[0] == 'ap_obj':
                        return ('ap', e[1].s(e[2]))
                    return e
                return ('ap', AP(('arg', L)).s(self.fn))
            ds = self.full_defs(L)
            if len(ds) == 1:
                kind, d = ds[0]
                if kind == 'stmt':
                    return self.expr_rvalue(d.rv, L)
                return self.expr_call(d)
            if len(ds) == 0:
                return ('var', L, self.fn.local_name(L))
            # several definitions: a phi when none of them reads the variable itself (not loop carried)
            return ('var', L, self.fn.local_name(L))
        # checked arithmetic: (_t.0) where _t = OpWithOverflow(a, b)
        if len(proj) == 1 and isinstance(proj[0], dict) and proj[0].get('adt') == 'tuple':
            ds = self.full_defs(L)
            if len(ds) == 1 and ds[0][0] == 'stmt' and ds[0][1].rv.k == 'bin' and ds[0][1].rv.op.endswith('WithOverflow'):
                rv = ds[0][1].rv
                if proj[0]['i'] == 0:
                    return self.mk_bin(rv.op[:-len('WithOverflow')], rv.a, rv.b)
                return ('other', 'overflow_flag')
        # a captured variable read as a whole: the parent's expression for it
        if self.fn.kind == 'closure' and L == 1:
            flds = [e for e in proj if isinstance(e, dict) and 'f' in e]
            if len(flds) == 1 and flds[0].get('adt') == 'closure' and all(e == 'deref' or e is flds[0] for e in proj):
                pe = self.upvar_expr(flds[0]['i'], flds[0]['f'])
                if pe is not None:
                    return pe
        # transparent projections on a carrier: value of the carried thing
        ap = self.ap_of_place(place)
        if ap.root[0] in ('local',) and not ap.steps:
            # e.g. ((_o as Some).0) of a by-value Option: the payload of whatever defines _o
            inner = self.expr_place(Place({'l': L, 'p': []}))
            if inner[0] == 'ap':
                return inner
            if all(e == 'deref' for e in proj):
                return inner
            return ('fld', inner, tuple(str(e.get('f', e.get('dc', '?'))) if isinstance(e, dict) else 'deref' for e in proj))
        if ap.root[0] == 'ret':
            # a field of / payload of a call result
            ds = self.full_defs(L)
            if proj and transparent_proj(proj):
                if len(ds) == 1 and ds[0][0] == 'call':
                    return self.expr_call(ds[0][1])
        if ap.root[0] == 'local' and ap.steps:
            # field of a by-value local struct: try its aggregate definition
            ds = self.full_defs(L)
            if len(ds) == 1 and ds[0][0] == 'stmt' and ds[0][1].rv.k == 'agg' and ds[0][1].rv.j.get('ak') == 'adt' \
                    and len(ap.steps) == 1 and not self.partial_defs_of_field(L, ap.steps[0]):
                rv = ds[0][1].rv
                if ap.steps[0] in rv.j['fields']:
                    return self.expr_operand(rv.ops[rv.j['fields'].index(ap.steps[0])])
            if len(ds) == 1 and ds[0][0] == 'stmt' and ds[0][1].rv.k == 'use' and ds[0][1].rv.a.is_place():
                # copy of a struct: read through
                src = ds[0][1].rv.a.place
                inner = Place({'l': src.local, 'p': src.proj + proj})
                return self.expr_place(inner)
            if len(ds) == 1 and ds[0][0] == 'call':
                base = self.expr_call(ds[0][1])
                if base[0] == 'ap':
                    return ('ap', base[1] + ''.join(('.' + s) if not s.startswith('[') else s for s in ap.steps))
                return ('fld', base, ap.steps)
        if ap.root[0] == 'expr' and not ap.steps and ap.root[1] in self._expr_roots:
            return self._expr_roots[ap.root[1]]
        return ('ap', ap.s(self.fn))

    def partial_defs_of_field(self, local, field):
        r = []
        for kind, d in self.defs(local):
            if kind == 'partial':
                pl = d.place if hasattr(d, 'place') and d.place is not None else getattr(d, 'dest', None)
                if pl is not None and field in pl.fields():
                    r.append(d)
        return r

    def operand_is_int(self, op):
        if op.kind == 'const':
            return op.const.get('ty') in INT_TYS
        p = op.place
        if not p.proj:
            return self.fn.local_ty(p.local) in INT_TYS
        lf = None
        for e in reversed(p.proj):
            if isinstance(e, dict) and 'ty' in e:
                lf = e['ty']
                break
            if e == 'deref' or (isinstance(e, dict) and ('idx' in e or 'cidx' in e)):
                break
        if lf is not None:
            return lf in INT_TYS
        return None

    def mk_bin(self, op, a, b):
        isint = self.operand_is_int(a)
        if isint is None:
            isint = self.operand_is_int(b)
        return ('bin', op, self.expr_operand(a), self.expr_operand(b), 'int' if isint else 'other')

    def expr_rvalue(self, rv, L=None):
        k = rv.k
        if k == 'use':
            return self.expr_operand(rv.a)
        if k == 'cast':
            return self.expr_operand(rv.a)
        if k == 'bin':
            return self.mk_bin(rv.op, rv.a, rv.b)
        if k == 'un':
            if rv.op == 'PtrMetadata':
                return ('call', 'len', (self.expr_operand(rv.a),))
            return ('un', rv.op, self.expr_operand(rv.a))
        if k in ('ref', 'rawptr'):
            return self.expr_place(rv.place)
        if k == 'discr':
            return ('discr', self.expr_place(rv.place), self.place_ty(rv.place))
        if k == 'agg':
            ak = rv.j['ak']
            if ak == 'adt':
                adt = strip_generics(rv.j['adt'])
                if not rv.ops:
                    return ('variant', adt, rv.j['variant'])
                return ('agg', last_seg(adt) + '::' + rv.j['variant'] if rv.j['is_enum'] else last_seg(adt),
                        tuple((f, self.expr_operand(o)) for f, o in zip(rv.j['fields'], rv.ops)))
            if ak == 'tuple':
                return ('agg', 'tuple', tuple((str(i), self.expr_operand(o)) for i, o in enumerate(rv.ops)))
            if ak == 'closure':
                return ('other', 'closure ' + strip_generics(rv.j['closure']))
            return ('agg', ak, tuple((str(i), self.expr_operand(o)) for i, o in enumerate(rv.ops)))
        if k == 'repeat':
            return ('call', 'repeat', (self.expr_operand(rv.a),))
        return ('other', rv.j.get('d', k))

    def expr_call(self, t):
        c = t.callee
        if c.indirect is not None:
            return ('call', 'indirect', tuple(self.expr_operand(a) for a in t.args))
        seg = last_seg(c.best)
        tr = c.trait or ''
        args = t.args
        if seg in CMP_FNS and len(args) == 2 and ('PartialEq' in tr or 'PartialOrd' in tr or 'cmp::' in (c.path or '')):
            return ('bin', CMP_FNS[seg], self.expr_operand(args[0]), self.expr_operand(args[1]), 'other')
        if seg in ARITH_FNS and len(args) == 2 and ('ops::' in tr or 'ops::' in (c.path or '')):
            return ('bin', ARITH_FNS[seg], self.expr_operand(args[0]), self.expr_operand(args[1]), 'other')
        if seg == 'len' and len(args) == 1 and not c.local:
            return ('call', 'len', (self.expr_operand(args[0]),))
        if seg in ('duration_since', 'saturating_duration_since', 'checked_duration_since') and len(args) == 2:
            return ('bin', 'Sub', self.expr_operand(args[0]), self.expr_operand(args[1]), 'other')
        if seg == 'elapsed' and len(args) == 1:
            return ('bin', 'Sub', ('call', 'std::time::Instant::now', ()), self.expr_operand(args[0]), 'other')
        if seg in ('min', 'max') and len(args) == 2:
            return (seg, (self.expr_operand(args[0]), self.expr_operand(args[1])))
        if seg == 'not' and len(args) == 1 and 'ops::' in tr:
            return ('un', 'Not', self.expr_operand(args[0]))
        if args and args[0].is_place():
            if seg in ELEM_FNS or seg in IDENT_FNS:
                # the value is (an element of) what arg0 refers to
                ap = self.origin_of_call(t, None)
                if ap.root[0] not in ('ret',):
                    return ('ap', ap.s(self.fn))
                if seg in IDENT_FNS:
                    return self.expr_operand(args[0])
            if seg in VALUE_FNS:
                if seg in ('from', 'try_from', 'into', 'try_into') or True:
                    return self.expr_operand(args[0])
        elif args and seg in VALUE_FNS:
            return self.expr_operand(args[0])
        # inline trivial local getters (never the functions whose calls the rules refer to by name: their keys must not
        # depend on how the callee happens to be written)
        tg = self.world.cg.targets(c)
        if len(tg) == 1 and self.depth < 3 and seg not in NOINLINE:
            g = tg[0]
            if self.world.is_straight_line(g):
                env = {}
                for i, a in enumerate(args):
                    if a.is_place():
                        ap = self.ap_carry(a.place) if self.refers(a) else None
                        if ap is not None and ap.root[0] in ('arg', 'upvar') or (ap is not None and ap.steps):
                            env[i + 1] = ('ap_obj', ap, self.fn)
                            continue
                    env[i + 1] = self.expr_operand(a)
                sub = Ctx(g, self.world, env=env, depth=self.depth + 1)
                r = sub.expr_place(Place({'l': 0, 'p': []}))
                if not mentions_callee_local(r):
                    return r
        return ('call', c.best, tuple(self.expr_operand(a) for a in args))

    def call_phi(self, call_expr):
        """for ('call', path, args) of a small pure local function with branches: its result as a phi over the return
        paths, each under its path condition expressed in the caller's terms; None if not applicable"""
        path, args = call_expr[1], call_expr[2]
        tg = self.world.cg.by_path.get(path, [])
        if len(tg) != 1 or self.depth >= 2:
            return None
        g = tg[0]
        if self.world.is_straight_line(g) or not self.world.is_small_pure(g) or last_seg(path) in NOINLINE:
            return None
        env = {}
        for i, a in enumerate(args):
            env[i + 1] = a
        sub = Ctx(g, self.world, env=env, depth=self.depth + 1)
        subG = Guards(sub)
        pd = subG.phi_defs(0)
        if not pd:
            return None
        alts = []
        for b, v in pd:
            gd = subG.guard(b)
            if b in subG.truncated or mentions_callee_local(v) or any(mentions_callee_key(a) for c2 in gd for a in c2):
                return None
            alts.append((tuple(tuple(c2) for c2 in gd), v))
        return ('phi', tuple(alts))

    def refers(self, op):
        """is the operand a reference-like value (so that its origin is meaningful)?"""
        if not op.is_place():
            return False
        p = op.place
        if p.proj:
            return True
        ty = self.fn.local_ty(p.local)
        return ty.startswith('&') or ty.startswith('*') or ty.startswith('std::boxed::Box')

    def place_ty(self, place):
        ty = self.fn.local_ty(place.local)
        for e in place.proj:
            if e == 'deref':
                ty = ty.lstrip('&').strip()
                if ty.startswith('mut '):
                    ty = ty[4:]
            elif isinstance(e, dict) and 'ty' in e:
                ty = e['ty']
        return ty


def mentions_callee_key(atom):
    import re as _re
    for k2 in _atom_keys(atom):
        if _re.search(r'(^|[^A-Za-z_0-9])(_\d+|[A-Za-z_][A-Za-z_0-9]*#\d+)', k2):
            return True
    return False


def mentions_callee_local(e):
    """an inlined expression must be closed over caller terms: no ('var', ...) or '_N' local roots of the callee"""
    t = e[0]
    if t == 'var':
        return True
    if t == 'ap':
        s = e[1]
        import re as _re
        return bool(_re.match(r'^(_\d+|[A-Za-z_][A-Za-z_0-9]*#\d+)', s))
    if t in ('bin',):
        return mentions_callee_local(e[2]) or mentions_callee_local(e[3])
    if t == 'un':
        return mentions_callee_local(e[2])
    if t == 'call':
        return any(mentions_callee_local(a) for a in e[2])
    if t in ('min', 'max'):
        return any(mentions_callee_local(a) for a in e[1])
    if t == 'phi':
        return any(mentions_callee_local(a[1]) for a in e[1])
    if t == 'agg':
        return any(mentions_callee_local(v) for _, v in e[2])
    if t in ('discr', 'fld'):
        return mentions_callee_local(e[1])
    return False


# ---------------------------------------------------------------------------------------------------------
# atoms and guards
# ---------------------------------------------------------------------------------------------------------

def linearise(e):
    """expression -> (dict term-key -> coef, const) treating non-arithmetic sub-expressions as opaque terms"""
    t = e[0]
    if t == 'int':
        return {}, e[1]
    if t == 'cst' and e[2] is not None:
        # named constants are replaced by their value; the values of documented constants are checked separately
        return {}, e[2]
    if t == 'bin' and e[1] in ('Add', 'Sub'):
        a, ca = linearise(e[2])
        b, cb = linearise(e[3])
        sgn = 1 if e[1] == 'Add' else -1
        out = dict(a)
        for k2, v in b.items():
            out[k2] = out.get(k2, 0) + sgn * v
            if out[k2] == 0:
                del out[k2]
        return out, ca + sgn * cb
    if t == 'bin' and e[1] == 'Mul':
        for x, y in ((e[2], e[3]), (e[3], e[2])):
            if x[0] == 'int':
                b, cb = linearise(y)
                return {k2: v * x[1] for k2, v in b.items() if v * x[1] != 0}, cb * x[1]
    return {key(e): 1}, 0


def const_fold(e, consts=True):
    return e


class Atom:
    """normal forms:
       ('lin', vec, lo, hi, strict)  : lo <= sum(vec) <= hi  (None = unbounded); vec is a sorted tuple of (key, coef)
                                       with the first coefficient positive; ints only (strict comparisons tightened)
       ('ne',  vec, k)               : sum(vec) != k
       ('rel', op, keyA, keyB)       : non-integer comparison kept symbolically, op in Lt/Le/Eq/Ne
       ('bool', key, pol)
       ('is', key, variant, pol)
    """
    pass


def canon_vec(terms, c):
    """returns (vec, const, flipped) with first coef positive"""
    items = sorted((k2, v) for k2, v in terms.items() if v != 0)
    if not items:
        return (), c, False
    if items[0][1] < 0:
        return tuple((k2, -v) for k2, v in items), -c, True
    return tuple(items), c, False


def cmp_atom(op, a, b, isint, pol=True):
    """atom for `a op b` (negated when pol is False)"""
    if not pol:
        op = NEG[op]
    if not isint:
        # keep symbolic but canonical: only Lt/Le/Eq/Ne with swapped operands for Gt/Ge
        if op == 'Gt':
            op, a, b = 'Lt', b, a
        elif op == 'Ge':
            op, a, b = 'Le', b, a
        # linearise anyway so that a+b<c and a<c-b... are NOT identified (non-integers): use keys of linear forms
        ta, ca = linearise(a)
        tb, cb = linearise(b)
        d = dict(ta)
        for k2, v in tb.items():
            d[k2] = d.get(k2, 0) - v
            if d[k2] == 0:
                del d[k2]
        c = ca - cb
        vec, c2, flipped = canon_vec(d, c)
        # sum(vec) + c2 (op') 0
        if op in ('Eq', 'Ne'):
            return ('relz', op, vec, c2)
        if flipped:
            op = {'Lt': 'Gt', 'Le': 'Ge'}[op]
        return ('relz', op, vec, c2)
    ta, ca = linearise(a)
    tb, cb = linearise(b)
    d = dict(ta)
    for k2, v in tb.items():
        d[k2] = d.get(k2, 0) - v
        if d[k2] == 0:
            del d[k2]
    c = ca - cb          # a - b = sum(d) + c
    vec, c2, flipped = canon_vec(d, c)
    # now: (a - b) = s * (S + c2) with S = sum(vec), s = -1 if flipped else 1
    if flipped:
        op = {'Lt': 'Gt', 'Le': 'Ge', 'Gt': 'Lt', 'Ge': 'Le', 'Eq': 'Eq', 'Ne': 'Ne'}[op]
    # S + c2 op 0
    if op == 'Eq':
        return ('lin', vec, -c2, -c2)
    if op == 'Ne':
        return ('ne', vec, -c2)
    if op == 'Lt':
        return ('lin', vec, None, -c2 - 1)
    if op == 'Le':
        return ('lin', vec, None, -c2)
    if op == 'Gt':
        return ('lin', vec, -c2 + 1, None)
    if op == 'Ge':
        return ('lin', vec, -c2, None)
    raise ValueError(op)


def atoms_of_cond(e, pol, ctx=None):
    """DNF (list of lists of atoms) for boolean expression e having truth value pol"""
    t = e[0]
    if t == 'un' and e[1] == 'Not':
        return atoms_of_cond(e[2], not pol, ctx)
    if t == 'bin' and e[1] in NEG:
        a, b = e[2], e[3]
        # comparisons against enum unit variants
        for x, y in ((a, b), (b, a)):
            if y[0] == 'variant' and e[1] in ('Eq', 'Ne'):
                p2 = pol if e[1] == 'Eq' else not pol
                return [[('is', key(x), y[2], p2)]]
        # bool == const
        if e[1] in ('Eq', 'Ne') and e[4] != 'int':
            for x, y in ((a, b), (b, a)):
                if y[0] == 'int' and y[1] in (0, 1) and x[0] != 'int':
                    want = (y[1] == 1) == (e[1] == 'Eq')
                    return atoms_of_cond(x, want == pol, ctx) if is_boolish(x) else [[cmp_atom(e[1], a, b, False, pol)]]
        return [[cmp_atom(e[1], a, b, e[4] == 'int', pol)]]
    if t == 'bin' and e[1] in ('BitAnd', 'BitOr'):
        isand = e[1] == 'BitAnd'
        da = atoms_of_cond(e[2], pol, ctx)
        db = atoms_of_cond(e[3], pol, ctx)
        if isand == pol:
            return dnf_and(da, db)
        return da + db
    if t == 'int':
        truth = (e[1] != 0) == pol
        return [[]] if truth else []
    return [[('bool', key(e), pol)]]


def is_boolish(e):
    return e[0] in ('un', 'call', 'ap', 'var') or (e[0] == 'bin' and e[1] in NEG)


def dnf_and(a, b):
    out = []
    for x in a:
        for y in b:
            c = conj_simplify(x + y)
            if c is not None:
                out.append(c)
    return out


def negate_atom(a):
    t = a[0]
    if t == 'bool':
        return [('bool', a[1], not a[2])]
    if t == 'is':
        return [('is', a[1], a[2], not a[3])]
    if t == 'ne':
        return [('lin', a[1], a[2], a[2])]
    if t == 'lin':
        vec, lo, hi = a[1], a[2], a[3]
        if lo is not None and hi is not None:
            if lo == hi:
                return [('ne', vec, lo)]
            return None  # a disjunction; not representable as one atom
        if lo is None and hi is not None:
            return [('lin', vec, hi + 1, None)]
        if hi is None and lo is not None:
            return [('lin', vec, None, lo - 1)]
    if t == 'relz':
        op = {'Lt': 'Ge', 'Le': 'Gt', 'Gt': 'Le', 'Ge': 'Lt', 'Eq': 'Ne', 'Ne': 'Eq'}[a[1]]
        return [('relz', op, a[2], a[3])]
    return None


_FAM = {'Some': 'option', 'None': 'option', 'Ok': 'result', 'Err': 'result', 'Continue': 'cf', 'Break': 'cf'}


def variant_family(v):
    """payload projections are transparent in keys, so `x is Some` and `x is Local` (the payload's variant) may share a key:
    only variants of one enum family exclude each other"""
    return _FAM.get(v, 'user')


def conj_simplify(atoms):
    """deduplicate, intersect intervals on equal vectors; None if contradictory"""
    lin = {}
    ne = set()
    rest = set()
    for a in atoms:
        if a[0] == 'lin':
            lo, hi = lin.get(a[1], (None, None))
            if a[2] is not None:
                lo = a[2] if lo is None else max(lo, a[2])
            if a[3] is not None:
                hi = a[3] if hi is None else min(hi, a[3])
            lin[a[1]] = (lo, hi)
        elif a[0] == 'ne':
            ne.add(a)
        else:
            rest.add(a)
    out = []
    # integer tightening: x != k at an end of x's interval moves that end
    changed = True
    while changed:
        changed = False
        for a in list(ne):
            lo, hi = lin.get(a[1], (None, None))
            if lo is not None and a[2] == lo:
                lin[a[1]] = (lo + 1, hi)
                ne.discard(a)
                changed = True
            elif hi is not None and a[2] == hi:
                lin[a[1]] = (lo, hi - 1)
                ne.discard(a)
                changed = True
    for vec, (lo, hi) in lin.items():
        if lo is not None and hi is not None and lo > hi:
            return None
        out.append(('lin', vec, lo, hi))
    for a in ne:
        lo, hi = lin.get(a[1], (None, None))
        if lo is not None and hi is not None and lo == hi == a[2]:
            return None
        if (lo is not None and a[2] < lo) or (hi is not None and a[2] > hi):
            continue  # redundant
        out.append(a)
    for a in rest:
        n = negate_atom(a)
        if n and n[0] in rest:
            return None
        # is(X, A, True) and is(X, B, True) with A != B contradict
        if a[0] == 'is' and a[3]:
            for b in rest:
                if b[0] == 'is' and b[3] and b[1] == a[1] and b[2] != a[2] and variant_family(b[2]) == variant_family(a[2]):
                    return None
        out.append(a)
    # drop negative variant facts implied by a positive one (same enum family)
    pos = {(a[1], variant_family(a[2])) for a in out if a[0] == 'is' and a[3]}
    out = [a for a in out if not (a[0] == 'is' and not a[3] and (a[1], variant_family(a[2])) in pos)]
    return sorted(set(out), key=repr)


def conj_implies_atom(conj, b):
    """does the conjunction of atoms imply atom b?  (sound, incomplete)"""
    if b in conj:
        return True
    t = b[0]
    if t == 'lin':
        vec, blo, bhi = b[1], b[2], b[3]
        lo = hi = None
        for a in conj:
            if a[0] == 'lin' and a[1] == vec:
                if a[2] is not None:
                    lo = a[2] if lo is None else max(lo, a[2])
                if a[3] is not None:
                    hi = a[3] if hi is None else min(hi, a[3])
        ok_lo = blo is None or (lo is not None and lo >= blo)
        ok_hi = bhi is None or (hi is not None and hi <= bhi)
        return ok_lo and ok_hi
    if t == 'ne':
        vec, k2 = b[1], b[2]
        for a in conj:
            if a[0] == 'lin' and a[1] == vec:
                if (a[2] is not None and k2 < a[2]) or (a[3] is not None and k2 > a[3]):
                    return True
            if a[0] == 'ne' and a[1] == vec and a[2] == k2:
                return True
        return False
    if t == 'is':
        if b[3]:
            return False
        # negative variant fact follows from a positive fact about another variant
        for a in conj:
            if a[0] == 'is' and a[3] and a[1] == b[1] and a[2] != b[2] and variant_family(a[2]) == variant_family(b[2]):
                return True
        return False
    if t == 'relz':
        op, vec, c = b[1], b[2], b[3]
        for a in conj:
            if a[0] == 'relz' and a[2] == vec and a[3] == c:
                if a[1] == op:
                    return True
                if (a[1], op) in (('Lt', 'Le'), ('Gt', 'Ge'), ('Eq', 'Le'), ('Eq', 'Ge'), ('Lt', 'Ne'), ('Gt', 'Ne')):
                    return True
        return False
    return False


def dnf_implies_atom(dnf, b):
    return all(conj_implies_atom(c, b) for c in dnf)


def dnf_implies_conj(dnf, conj_b):
    return all(all(conj_implies_atom(c, b) for b in conj_b) for c in dnf)


def dnf_implies_dnf(dnf, dnf_b):
    """every disjunct of dnf implies some disjunct of dnf_b"""
    return all(any(all(conj_implies_atom(c, b) for b in cb) for cb in dnf_b) for c in dnf)


def dnf_equiv(a, b):
    return dnf_implies_dnf(a, b) and dnf_implies_dnf(b, a)


def dnf_simplify(dnf, limit=24):
    """merge (X & c) | (X & !c) -> X, drop subsumed disjuncts"""
    cur = []
    for c in dnf:
        s = conj_simplify(list(c))
        if s is not None and s not in cur:
            cur.append(s)
    changed = True
    while changed and len(cur) <= 400:
        changed = False
        n = len(cur)
        for i in range(n):
            for j in range(i + 1, n):
                a, b = cur[i], cur[j]
                sa, sb = set(a), set(b)
                da, db = sa - sb, sb - sa
                if len(da) == 1 and len(db) == 1:
                    x = next(iter(da))
                    y = next(iter(db))
                    nx = negate_atom(x)
                    merged = None
                    if nx and nx[0] == y:
                        merged = sorted(sa & sb, key=repr)
                    elif x[0] == 'lin' and y[0] == 'lin' and x[1] == y[1]:
                        # adjacent / overlapping intervals
                        u = interval_union((x[2], x[3]), (y[2], y[3]))
                        if u is not None:
                            if u == (None, None):
                                merged = sorted(sa & sb, key=repr)
                            else:
                                merged = sorted((sa & sb) | {('lin', x[1], u[0], u[1])}, key=repr)
                    elif x[0] == 'lin' and y[0] == 'ne' and x[1] == y[1] and x[2] == x[3] == y[2]:
                        merged = sorted(sa & sb, key=repr)
                    elif y[0] == 'lin' and x[0] == 'ne' and x[1] == y[1] and y[2] == y[3] == x[2]:
                        merged = sorted(sa & sb, key=repr)
                    if merged is not None:
                        cur = [c for k3, c in enumerate(cur) if k3 not in (i, j)]
                        if merged not in cur:
                            cur.append(merged)
                        changed = True
                        break
                elif not da:
                    # a subsumes b (a has fewer atoms): drop b
                    cur = [c for k3, c in enumerate(cur) if k3 != j]
                    changed = True
                    break
                elif not db:
                    cur = [c for k3, c in enumerate(cur) if k3 != i]
                    changed = True
                    break
            if changed:
                break
    return cur


def interval_union(a, b):
    (alo, ahi), (blo, bhi) = a, b

    def lt(x, y):  # x < y treating None appropriately is messy; handle by cases
        return x is not None and y is not None and x < y
    # order so that a starts first
    if alo is not None and (blo is None or blo < alo):
        (alo, ahi), (blo, bhi) = (blo, bhi), (alo, ahi)
    # now alo is None or alo <= blo
    if ahi is None:
        return (alo, None)
    if blo is not None and blo > ahi + 1:
        return None
    hi = None if bhi is None else max(ahi, bhi)
    return (alo, hi)


def atom_str(a):
    t = a[0]
    if t == 'lin':
        s = ' + '.join(('%s' % k2 if v == 1 else '%d*%s' % (v, k2)) for k2, v in a[1]) or '0'
        if a[2] is not None and a[3] is not None:
            if a[2] == a[3]:
                return '%s == %d' % (s, a[2])
            return '%d <= %s <= %d' % (a[2], s, a[3])
        if a[2] is not None:
            return '%s >= %d' % (s, a[2])
        if a[3] is not None:
            return '%s <= %d' % (s, a[3])
        return 'true'
    if t == 'ne':
        s = ' + '.join(('%s' % k2 if v == 1 else '%d*%s' % (v, k2)) for k2, v in a[1]) or '0'
        return '%s != %d' % (s, a[2])
    if t == 'relz':
        s = ' + '.join(('%s' % k2 if v == 1 else '%d*%s' % (v, k2)) for k2, v in a[2]) or '0'
        return '%s%s %s 0' % (s, (' + %d' % a[3]) if a[3] else '', {'Lt': '<', 'Le': '<=', 'Gt': '>', 'Ge': '>=', 'Eq': '==', 'Ne': '!='}[a[1]])
    if t == 'bool':
        return ('' if a[2] else '!') + a[1]
    if t == 'is':
        return '%s %s %s' % (a[1], 'is' if a[3] else 'is not', a[2])
    return str(a)


def dnf_str(dnf):
    if dnf == [[]] or dnf == [()]:
        return 'true'
    if not dnf:
        return 'false'
    return ' | '.join('(' + ' & '.join(atom_str(a) for a in c) + ')' if c else 'true' for c in dnf)


class Guards:
    """path conditions of blocks as DNFs of atoms, built along the immediate-dominator chain"""

    MAX_PATHS = 64

    def __init__(self, ctx):
        self.ctx = ctx
        self.cfg = ctx.cfg
        self.fn = ctx.fn
        self._edge = {}
        self._guard = {}
        self.truncated = set()
        self.atom_origin = {}
        self.atom_edge = {}
        self._loops = None
        self._loop_by_header = {}
        self._in_progress = set()
        self._back = self.cfg.back_edges()

    def edge_cond(self, p, s):
        """DNF under which control goes from block p to its successor s"""
        k = (p, s)
        if k in self._edge:
            return self._edge[k]
        t = self.fn.blocks[p].term
        r = [[]]
        if t.k == 'switch' and any(m in LOG_MACROS for m in t.macros):
            r = [[]]
        elif t.k == 'switch':
            e = self.ctx.expr_operand(t.discr)
            vals = [v for v, b in t.targets if b == s]
            is_other = (t.otherwise == s)
            r = []
            if e[0] == 'discr' and e[1][0] == 'call' and str(e[1][1]).endswith('impls::cmp') and len(e[1][2]) == 2:
                # `match a.cmp(&b) { Less => .., Equal => .., Greater => .. }` on primitive integers (core::cmp::impls): the three outcomes are the three
                # comparisons, so the guard is the same normal form as `if a < b {..} else if a > b {..} else {..}`
                a_, b_ = e[1][2]
                rel = {-1: 'Lt', 0: 'Eq', 1: 'Gt'}
                for v in vals:
                    if v in rel:
                        r.append([cmp_atom(rel[v], a_, b_, True)])
                if is_other:
                    listed = [v for v, b in t.targets]
                    for v in (-1, 0, 1):
                        if v not in listed:
                            r.append([cmp_atom(rel[v], a_, b_, True)])
            elif e[0] == 'discr':
                names = self.variant_names(e[2])
                x = e[1]
                for v in vals:
                    nm = names[v] if names and v < len(names) else str(v)
                    r.append([('is', key(x), nm, True)])
                if is_other:
                    listed = [v for v, b in t.targets]
                    if names and len(names) - len(set(listed)) == 1:
                        rem = [i for i in range(len(names)) if i not in listed][0]
                        r.append([('is', key(x), names[rem], True)])
                    else:
                        r.append([('is', key(x), (names[v] if names and v < len(names) else str(v)), False) for v in listed])
            elif t.dty == 'bool':
                for v in vals:
                    r.extend(self.cond_dnf(e, v != 0))
                if is_other:
                    listed = [v for v, b in t.targets]
                    if listed == [0]:
                        r.extend(self.cond_dnf(e, True))
                    elif listed == [1]:
                        r.extend(self.cond_dnf(e, False))
                    else:
                        r.append([])
            else:
                isint = t.dty in INT_TYS
                for v in vals:
                    r.append([cmp_atom('Eq', e, ('int', v), isint)])
                if is_other:
                    r.append([cmp_atom('Ne', e, ('int', v), isint) for v, b in t.targets])
            r = dnf_simplify(r)
            for c in r:
                for a in c:
                    self.atom_origin.setdefault(a, set()).add(p)
                    self.atom_edge.setdefault(a, set()).add((p, s))
        self._edge[k] = r
        return r

    # ---- phi expansion: a multi-definition local that is not loop carried is replaced by its definitions,
    #      each under the path condition of the defining block
    def phi_defs(self, local, use_block=None):
        ds = self.ctx.full_defs(local)
        if len(ds) < 2 or len(ds) > 6 or self.ctx.is_arg(local):
            return None
        blocks = [d.bb for _, d in ds]
        if len(set(blocks)) != len(blocks):
            return None
        cfg = self.cfg
        # not loop carried: no definition block may be reachable from another definition block
        for b in blocks:
            r = self._forward_dag(b)
            if any(o in r for o in blocks if o != b):
                return None
        out = []
        for kind, d in ds:
            if kind == 'stmt':
                v = self.ctx.expr_rvalue(d.rv)
            else:
                v = self.ctx.expr_call(d)
            if contains_var(v, local):
                return None
            out.append((d.bb, v))
        return out

    def _tuple_field_phi(self, e):
        """e is (the negation of) component k of a local tuple that is built whole in several blocks of one acyclic region (a match whose arms each yield a tuple):
        [(block, component expression, negated)] -- None when the local is an argument, loop carried, partially assigned, or not built from tuple aggregates only"""
        neg = False
        while e[0] == 'un' and e[1] == 'Not':
            neg = not neg
            e = e[2]
        if e[0] == 'fld' and e[1][0] == 'var' and isinstance(e[1][1], int) and len(e[2]) == 1 and str(e[2][0]).isdigit():
            L, k = e[1][1], int(e[2][0])
        else:
            return None
        if self.ctx.is_arg(L) or self.ctx.partial_defs_of_field(L, str(k)):
            return None
        ds = self.ctx.full_defs(L)
        if len(ds) < 2 or len(ds) > 6:
            return None
        if any(kind != 'stmt' or d.rv.k != 'agg' or d.rv.j.get('ak') != 'tuple' or k >= len(d.rv.ops) for kind, d in ds):
            return None
        blocks = [d.bb for _, d in ds]
        if len(set(blocks)) != len(blocks) or (self._in_progress & set(blocks)):
            return None
        for b in blocks:
            r = self._forward_dag(b)
            if any(o in r for o in blocks if o != b):
                return None
        out = []
        for _, d in ds:
            val = self.ctx.expr_operand(d.rv.ops[k])
            if val == e:
                return None
            out.append((d.bb, val, neg))
        return out

    def _forward_dag(self, b):
        """blocks reachable from b without taking a back edge (within one loop iteration)"""
        seen = set()
        st = [b]
        while st:
            x = st.pop()
            for s2 in self.cfg.succ[x]:
                if (x, s2) in self._back or s2 in seen:
                    continue
                seen.add(s2)
                st.append(s2)
        return seen

    def cond_dnf(self, e, pol, _depth=0):
        ph = first_phi(e)
        if ph is not None and _depth < 3:
            r = []
            for dnf_t, val in ph[1]:
                sub = self.cond_dnf(subst_phi(e, ph, val), pol, _depth + 1)
                r.extend(dnf_and([list(c) for c in dnf_t], sub))
            return r
        cl = first_call(e)
        if cl is not None and _depth < 3:
            ph2 = self.ctx.call_phi(cl)
            if ph2 is not None:
                r = []
                for dnf_t, val in ph2[1]:
                    sub = self.cond_dnf(subst_phi(e, cl, val), pol, _depth + 1)
                    r.extend(dnf_and([list(c) for c in dnf_t], sub))
                return r
        tf = self._tuple_field_phi(e) if _depth < 3 else None
        if tf is not None:
            # `let (flag, msg) = match k { A => (c1, ..), B => (c2, ..) }; if flag`: the flag is the component of whichever tuple the path built
            r = []
            for b, val, neg in tf:
                sub = self.cond_dnf(val, pol != neg, _depth + 1)
                r.extend(dnf_and(self.guard(b), sub))
            return r
        v = first_var(e)
        if v is not None and _depth < 3:
            pd = self.phi_defs(v)
            if pd is not None and not (self._in_progress & {b for b, _ in pd}):
                r = []
                for b, val in pd:
                    g = self.guard(b)
                    sub = self.cond_dnf(subst_var(e, v, val), pol, _depth + 1)
                    r.extend(dnf_and(g, sub))
                return r
        return atoms_of_cond(e, pol, self.ctx)

    def variant_names(self, ty):
        if ty is None:
            return None
        base = strip_generics(ty.lstrip('&').replace('mut ', '').strip())
        seg = last_seg(base)
        if seg in BUILTIN_VARIANTS:
            return BUILTIN_VARIANTS[seg]
        a = self.ctx.world.adt(base) or self.ctx.world.adt(seg)
        if a is not None and a['is_enum']:
            return [v['name'] for v in a['variants']]
        return None

    def paths_cond(self, d, b):
        """DNF of the condition to get from block d (a dominator of b) to block b, over the acyclic region between
        them (back edges removed), computed backwards with memoisation"""
        cfg = self.cfg
        if d == b:
            return [[]]
        can_reach = {b}
        st = [b]
        while st:
            x = st.pop()
            if x == d:
                continue
            for p in cfg.pred[x]:
                if (p, x) in self._back:
                    continue
                if p not in can_reach:
                    can_reach.add(p)
                    st.append(p)
        memo = {b: [[]]}
        trunc = [False]

        def cond(x):
            if x in memo:
                return memo[x]
            memo[x] = []   # cycle guard (should not happen: back edges removed)
            out = []
            for s2 in cfg.succ[x]:
                if s2 not in can_reach or (x, s2) in self._back:
                    continue
                if s2 == d:
                    continue
                rest = cond(s2)
                if not rest:
                    continue
                ec = self.edge_cond(x, s2)
                out.extend(dnf_and(ec, rest))
            out = dnf_simplify(out)
            if len(out) > self.MAX_PATHS:
                trunc[0] = True
                common = set(out[0])
                for c in out[1:]:
                    common &= set(c)
                out = [sorted(common, key=repr)]
            memo[x] = out
            return out
        import sys
        old = sys.getrecursionlimit()
        sys.setrecursionlimit(max(old, 10000))
        try:
            r = cond(d)
        finally:
            sys.setrecursionlimit(old)
        if trunc[0]:
            self.truncated.add(b)
        return r

    def guard(self, b):
        if b in self._guard:
            return self._guard[b]
        if b in self._in_progress:
            return [[]]
        self._in_progress.add(b)
        try:
            return self._guard_uncached(b)
        finally:
            self._in_progress.discard(b)

    def _guard_uncached(self, b):
        cfg = self.cfg
        chain = []
        x = b
        while x is not None and x != 0:
            d = cfg.idom(x)
            if d is None:
                break
            chain.append((d, x))
            x = d
        g = [[]]
        for d, x in reversed(chain):
            seg = self.paths_cond(d, x)
            if x in self.truncated:
                self.truncated.add(b)
            g = dnf_simplify(dnf_and(g, seg))
            if len(g) > 48:
                self.truncated.add(b)
                # keep only what is common to all disjuncts (weaker, still a consequence of the guard)
                common = set(g[0])
                for c in g[1:]:
                    common &= set(c)
                g = [sorted(common, key=repr)]
        self._guard[b] = g
        return g

    # ---- stability: an atom that mentions a multi-definition local is only usable at block b if the local is not
    #      redefined between the branch that established the atom and b
    def loops(self):
        if self._loops is None:
            ls = []
            for (n, h) in self._back:
                body = {h, n}
                st = [n]
                while st:
                    x = st.pop()
                    if x == h:
                        continue
                    for p2 in self.cfg.pred[x]:
                        if p2 not in body:
                            body.add(p2)
                            st.append(p2)
                ls.append((h, body))
            # natural loops with the same header are one loop
            merged = {}
            for h, body in ls:
                merged.setdefault(h, set()).update(body)
            self._loops = list(merged.values())
            self._loop_by_header = merged
        return self._loops

    def loop_by_header(self):
        self.loops()
        return self._loop_by_header

    def atom_stable_at(self, a, b):
        import re
        locs = set()
        for k2 in _atom_keys(a):
            for m in re.finditer(r'#(\d+)', k2):
                locs.add(int(m.group(1)))
        if not locs:
            return True
        origins = self.atom_origin.get(a)
        if not origins:
            return False
        for L in locs:
            dblocks = {d.bb for _, d in self.ctx.defs(L)}
            for p in origins:
                fw = self._forward_dag(p)
                for D in dblocks:
                    if D not in fw:
                        continue
                    if D == b or b in self._forward_dag(D):
                        return False
                    for body in self.loops():
                        if D in body and b in body and p not in body:
                            return False
        return True

    # ---- assertion-derived atoms: established by a branch whose other side cannot return (assert!/panic!/unreachable)
    def _diverges(self, blk):
        r = self.cfg.reachable(blk)
        return not (set(self.cfg.returns) & r)

    def assertion_atom(self, a):
        edges = self.atom_edge.get(a)
        if not edges:
            return False
        for (p, s_) in edges:
            others = [s2 for s2 in self.cfg.succ[p] if s2 != s_]
            # the atom restates an assertion iff every way of NOT taking this edge ends in a panic
            if not others or not all(self._diverges(s2) for s2 in others):
                return False
        return True

    def essential_guard(self, b, drop_iteration=True):
        """the path condition of b without atoms that only restate an assertion and (optionally) without `iterator yielded Some/None` atoms"""
        g = self.guard(b)
        out = []
        for c in g:
            cc = []
            for a in c:
                if self.assertion_atom(a):
                    continue
                if drop_iteration and a[0] == 'is' and a[2] in ('Some', 'None') and ('iter' in a[1] or '[*]' in a[1] or 'next(' in a[1]):
                    continue
                cc.append(a)
            out.append(cc)
        return dnf_simplify(out)

    def stable_guard(self, b):
        g = self.guard(b)
        return dnf_simplify([[a for a in c if self.atom_stable_at(a, b)] for c in g])

    def dominating_atoms(self, b):
        """atoms that hold on every path to b (intersection over disjuncts)"""
        g = self.guard(b)
        if not g:
            return []
        common = set(g[0])
        for c in g[1:]:
            common &= set(c)
        return sorted(common, key=repr)


def first_var(e):
    t = e[0]
    if t == 'var':
        return e[1]
    if t == 'bin':
        return first_var(e[2]) or first_var(e[3])
    if t == 'un':
        return first_var(e[2])
    if t in ('min', 'max'):
        for a in e[1]:
            v = first_var(a)
            if v is not None:
                return v
    return None


def contains_var(e, local):
    t = e[0]
    if t == 'var':
        return e[1] == local
    if t == 'bin':
        return contains_var(e[2], local) or contains_var(e[3], local)
    if t == 'un':
        return contains_var(e[2], local)
    if t == 'call':
        return any(contains_var(a, local) for a in e[2])
    if t in ('min', 'max', 'phi'):
        return any(contains_var(a, local) for a in e[1])
    if t == 'agg':
        return any(contains_var(v, local) for _, v in e[2])
    if t in ('discr', 'fld'):
        return contains_var(e[1], local)
    return False


def subst_var(e, local, val):
    t = e[0]
    if t == 'var':
        return val if e[1] == local else e
    if t == 'bin':
        return ('bin', e[1], subst_var(e[2], local, val), subst_var(e[3], local, val), e[4])
    if t == 'un':
        return ('un', e[1], subst_var(e[2], local, val))
    if t in ('min', 'max'):
        return (t, tuple(subst_var(a, local, val) for a in e[1]))
    return e


def _atom_keys(a):
    t = a[0]
    if t in ('lin', 'ne'):
        return [k2 for k2, _ in a[1]]
    if t == 'relz':
        return [k2 for k2, _ in a[2]]
    if t in ('bool', 'is'):
        return [a[1]]
    return []


def first_phi(e):
    t = e[0]
    if t == 'phi':
        return e
    if t == 'bin':
        return first_phi(e[2]) or first_phi(e[3])
    if t == 'un':
        return first_phi(e[2])
    if t in ('min', 'max'):
        for a in e[1]:
            v = first_phi(a)
            if v is not None:
                return v
    return None


def subst_phi(e, ph, val):
    if e is ph or e == ph:
        return val
    t = e[0]
    if t == 'bin':
        return ('bin', e[1], subst_phi(e[2], ph, val), subst_phi(e[3], ph, val), e[4])
    if t == 'un':
        return ('un', e[1], subst_phi(e[2], ph, val))
    if t in ('min', 'max'):
        return (t, tuple(subst_phi(a, ph, val) for a in e[1]))
    return e


def first_call(e):
    """first ('call', ...) subterm in an arithmetic/comparison context"""
    t = e[0]
    if t == 'call' and isinstance(e[1], str) and e[1].startswith('ggrs::'):
        return e
    if t == 'bin':
        return first_call(e[2]) or first_call(e[3])
    if t == 'un':
        return first_call(e[2])
    if t in ('min', 'max'):
        for a in e[1]:
            v = first_call(a)
            if v is not None:
                return v
    return None
