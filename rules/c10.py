"""C10 -- surviving peers agree on the cut-off of a dropped player (the plumbing; agreement itself is not decided)."""
from .lib import *
from .cfg import cfg_of, callee_matches
from .sem import key, dnf_str
from . import c01, c03

LEVEL = 'other'
EXPLANATION = ('Static rule checking of the plumbing without which agreement is impossible: every input packet carries the sender\'s '
               'connection status vector, the receiver merges it monotonically (or / max) for every player, the adoption step runs before '
               'every simulation and is a commutative reduction over the running endpoints, the pending disconnect frame takes part in the '
               'rollback, and the adopted cut-off must reach the field the input lookup reads. Agreement of the survivors over all splits of '
               'the dying peer\'s last packets is NOT decided.')
NOT_DECIDED = ['agreement of all survivors under every split of the dying peer\'s last packets (distributed history property)']
ASSUMPTIONS = c01.ASSUMPTIONS

P2P = c01.P2P
UDP = c01.UDP
SL = c01.SL


def o1(W, ob):
    s = W.fn(UDP + '::send_pending_output')
    cx = W.ctx(s)
    ci = [t for t in s.calls() if last_seg(t.callee.best) in ('clone_into', 'clone_from', 'to_vec', 'clone', 'extend_from_slice')
          and len(t.args) >= 2 and t.args[1].is_place() and 'peer_connect_status' in cx.ap_carry(t.args[1].place).s(s)]
    ob.require_count(len(ci), 1, 'copy of the connection statuses into the packet')
    for t in ci:
        a = key(cx.expr_operand(t.args[0]))
        g = W.guard(s, t.bb)
        q = sites(W, s, UDP + '::queue_message')
        ob.check(a == 'arg2' and bool(q) and cfg_of(s).path_avoiding(q, [t.bb]) is None, 'send_pending_output|gossip-out',
                 'every input packet carries the connect_status vector it was given', 'the packet\'s peer_connect_status is copied from `%s` or a packet can be queued without it' % a,
                 where(s, t.line))
    n = 0
    for f, t in W.calls_to(UDP + '::send_input') + W.calls_to(UDP + '::poll') + W.calls_to(UDP + '::send_pending_output'):
        cxx = W.ctx(f)
        a = key(cxx.expr_operand(t.args[-1]))
        if 'P2PSession' in f.path:
            n += 1
            ob.check(a == 'self.local_connect_status', '%s|passes-local-status|%s' % (short(f.path), last_seg(t.callee.best)),
                     '%s hands the session\'s local_connect_status to %s' % (short(f.path), last_seg(t.callee.best)),
                     '%s passes `%s` as connection status to %s' % (short(f.path), a, last_seg(t.callee.best)), where(f, t.line))
        elif 'UdpProtocol' in f.path:
            ob.check(a == 'arg2' or a == 'arg3', '%s|forwards-status' % short(f.path), '%s forwards the status vector it was given' % short(f.path),
                     '%s passes `%s`' % (short(f.path), a), where(f, t.line))
    ob.require_count(n, 4, 'session call sites passing local_connect_status to endpoints')


def o2(W, ob):
    f = W.fn(UDP + '::on_input')
    cx = W.ctx(f)
    G = W.guards(f)
    std = [w for w in stores_in(W, f, 'disconnected') if 'self.peer_connect_status' in w['ap'].s(f)]
    stl = [w for w in stores_in(W, f, 'last_frame') if 'self.peer_connect_status' in w['ap'].s(f)]
    ob.require_count(len(std), 1, 'merge of the disconnected flag')
    ob.require_count(len(stl), 1, 'merge of last_frame')
    # the pairwise spelling: `self.peer_connect_status.iter_mut().zip(body.peer_connect_status.iter())` -- both elements of the pair come out of one Zip, and
    # the provenance analysis names them after its first component; the zip of exactly these two vectors is recognised instead
    def _iter_of(t, what):
        return last_seg(t.callee.best) in ('iter', 'iter_mut', 'into_iter') and t.args and t.args[0].is_place() and cx.ap_carry(t.args[0].place).s(f, generic=True) == what
    zipped = any(last_seg(t.callee.best) == 'zip' for t in f.calls()) and any(_iter_of(t, 'self.peer_connect_status') for t in f.calls()) and \
        any(_iter_of(t, 'arg2.peer_connect_status') for t in f.calls())
    for w in stl:
        v = cx.expr_rvalue(w['site'].rv)
        ks = sorted(key(a) for a in v[1]) if v[0] == 'max' else []
        ok = v[0] == 'max' and len(ks) == 2 and any(k.startswith('arg2.peer_connect_status[') and k.endswith('.last_frame') for k in ks) and \
            any(k.startswith('self.peer_connect_status[') and k.endswith('.last_frame') for k in ks)
        if not ok and zipped and v[0] == 'max' and len(ks) == 2:
            ok = all(k.endswith('.last_frame') and 'peer_connect_status[' in k for k in ks)
        ob.check(ok, 'on_input|merge-last_frame-max', 'the peer\'s view of last_frame is merged with max',
                 'peer_connect_status[i].last_frame := %s (expected max(own, received))' % key(v), where(f, w['line']))
    for w in std:
        v = cx.expr_rvalue(w['site'].rv)
        ok = False
        desc = key(v)
        if v[0] == 'var':
            pd = G.phi_defs(v[1])
            if pd:
                vals = [(key(x), G.guard(b)) for b, x in pd]
                desc = '; '.join('%s when %s' % (k, dnf_str(g)[-80:]) for k, g in vals)
                one = [g for k, g in vals if k == '1']
                oth = [k for k, g in vals if k != '1']
                ok = len(one) == 1 and len(oth) == 1 and \
                    every_disjunct_has(one[0], lambda a: a[0] == 'bool' and a[2] is True and a[1].endswith('.disconnected') and
                                       (a[1].startswith('arg2.peer_connect_status[') or a[1].startswith('self.peer_connect_status['))) and \
                    oth[0].endswith('.disconnected') and (oth[0].startswith('self.peer_connect_status[') or oth[0].startswith('arg2.peer_connect_status['))
        elif v[0] == 'bin' and v[1] == 'BitOr':
            ok = True
        ob.check(ok, 'on_input|merge-disconnected-or', 'the disconnected flag is merged with or (never cleared)',
                 'peer_connect_status[i].disconnected := %s (expected received || own)' % desc, where(f, w['line']))
    for w in std + stl:
        g = G.guard(w['bb'])
        ob.check(guard_has_bool(g, 'arg2.disconnect_requested', False), 'on_input|merge-only-without-disconnect-request|%s' % w['ap'].last_field(),
                 'statuses are merged only from packets that do not request a disconnect', 'merge guard: ' + dnf_str(g)[:200], where(f, w['line']))
        # all entries: the loop runs over 0..len(self.peer_connect_status)
        from . import panics
        idxop = None
        for e in w['site'].place.proj:
            pass
    rng = [s for s in f.stmts() if s.k == 'assign' and s.rv.k == 'agg' and s.rv.j.get('ak') == 'adt' and s.rv.j['adt'].endswith('ops::Range')]
    okr = any(key(cx.expr_operand(dict(zip(s.rv.j['fields'], s.rv.ops))['end'])) == 'len(self.peer_connect_status)' and
              dict(zip(s.rv.j['fields'], s.rv.ops))['start'].const_int() == 0 for s in rng)
    okr = okr or zipped     # a zip of the two vectors (equal length behind the shape check) visits every entry
    ob.check(okr, 'on_input|merge-all-players', 'the merge covers every player entry', 'the status merge does not iterate over 0..peer_connect_status.len()', where(f))


def o3(W, ob):
    f = W.fn(P2P + '::advance_frame_after_poll')
    for adv in (P2P + '::advance_lockstep_frame', P2P + '::advance_rollback_frame'):
        must_precede(W, ob, f, P2P + '::update_player_disconnects', adv, 'O3', first_mode='direct',
                     what='peers\' views of disconnects are adopted before %s' % adv.split('::')[-1])
    u = W.fn(P2P + '::update_player_disconnects')
    cx = W.ctx(u)
    G = W.guards(u)
    accs = {}
    for l in range(len(u.locals)):
        nm = u.local_name(l)
        if nm in ('queue_connected', 'queue_min_confirmed'):
            accs[nm] = l
    if len(accs) != 2:
        # renamed: the two named locals with several definitions one of which is the neutral element of the reduction (`true` for &&, i32::MAX for min)
        accs = {}
        for l in range(u.argc + 1, len(u.locals)):
            if not u.local_name(l):
                continue
            dl = cx.full_defs(l)
            if len(dl) < 2:
                continue
            inits = [key(cx.expr_rvalue(d.rv)) for k, d in dl if k == 'stmt']
            ty = u.local_ty(l) or ''
            if ty == 'bool' and '1' in inits:
                accs.setdefault('queue_connected', l)
            if ty == 'i32' and any(x in ('2147483647', 'i32::MAX', 'MAX') or x.endswith('::MAX') for x in inits):
                accs.setdefault('queue_min_confirmed', l)
    adopted = []
    qc = '#%d' % accs['queue_connected'] if 'queue_connected' in accs else 'queue_connected'
    qm = '#%d' % accs['queue_min_confirmed'] if 'queue_min_confirmed' in accs else 'queue_min_confirmed'
    calls = [t for t in u.calls() if callee_matches(t.callee, P2P + '::disconnect_player_at_frame')]
    ob.require_count(len(calls), 1, 'adoption call in update_player_disconnects')
    for t in calls:
        g = G.guard(t.bb)
        # !queue_connected & (local_connected | local_min > queue_min)
        okq = every_disjunct_has(g, lambda a: a[0] == 'bool' and ('queue_connected' in a[1] or a[1].endswith(qc)) and a[2] is False)
        oka = bool(g) and all(any(a[0] == 'bool' and a[1].endswith('.disconnected') and 'local_connect_status' in a[1] and a[2] is False for a in c) or
                              any(a[0] == 'lin' and any('queue_min_confirmed' in k or k.endswith(qm) for k, _ in a[1]) and any('local_connect_status' in k and k.endswith('.last_frame') for k, _ in a[1]) for a in c)
                              for c in g)
        # condition => guard: both alternatives must be able to trigger the adoption
        alt_connected = any(any(a[0] == 'bool' and a[1].endswith('.disconnected') and 'local_connect_status' in a[1] and a[2] is False for a in c) for c in g)
        alt_later = any(any(a[0] == 'lin' and any('queue_min_confirmed' in k or k.endswith(qm) for k, _ in a[1]) and any('local_connect_status' in k and k.endswith('.last_frame') for k, _ in a[1]) for a in c) and
                        not any(a[0] == 'bool' and a[1].endswith('.disconnected') and 'local_connect_status' in a[1] and a[2] is False for a in c) for c in g)
        oka = oka and alt_connected and alt_later
        ob.check(okq and oka, 'update_player_disconnects|adoption-condition',
                 'a player some peer reports as disconnected is disconnected locally if still connected here or cut off later here',
                 'adoption guard: ' + dnf_str(g)[:300], where(u, t.line))
        a2e = cx.expr_operand(t.args[2])
        a2 = key(a2e)
        adopted.append((t, a2e, a2))
    # the reductions: queue_connected &&= connected ; queue_min = min(queue_min, ...) over running endpoints
    for t, a2e, a2 in adopted:
        is_min = 'queue_min_confirmed' in a2 or (a2e[0] == 'var' and a2e[1] == accs.get('queue_min_confirmed'))
        ob.check(is_min, 'update_player_disconnects|adopts-min', 'the adopted cut-off is the minimum over the peers\' views',
                 'disconnect_player_at_frame receives `%s`' % a2, where(u, t.line))
    ob.check(len(accs) == 2, 'update_player_disconnects|accumulators', 'reduction accumulators found', 'reduction accumulators not found', where(u))
    if 'queue_min_confirmed' in accs:
        ds = cx.full_defs(accs['queue_min_confirmed'])
        mins = 0
        for k, d in ds:
            e = cx.expr_rvalue(d.rv) if k == 'stmt' else cx.expr_call(d)
            if e[0] == 'min':
                mins += 1
            elif not (e[0] in ('int', 'cst')):
                ob.fail('update_player_disconnects|min-reduction', 'queue_min_confirmed is updated with `%s`, not with min' % key(e), where(u))
        ob.check(mins == 2, 'update_player_disconnects|min-reduction-count', 'the cut-off is a min over running endpoints and the local view',
                 'expected two min-updates of queue_min_confirmed, found %d' % mins, where(u))
    run = [t for t in u.calls() if callee_matches(t.callee, 'UdpProtocol::is_running')]
    pcs = [t for t in u.calls() if callee_matches(t.callee, 'UdpProtocol::peer_connect_status')]
    ob.check(len(run) == 1 and len(pcs) == 1 and guard_has_is(G.guard(pcs[0].bb), key(cx.expr_operand(run[0].args[0])) + '.state', 'Running') or
             (len(run) == 1 and len(pcs) == 1 and every_disjunct_has(G.guard(pcs[0].bb), lambda a: (a[0] == 'is' and a[2] == 'Running' and a[3]) or (a[0] == 'bool' and 'is_running' in a[1] and a[2]))),
             'update_player_disconnects|running-endpoints-only', 'only running endpoints\' views are consulted', 'views of non-running endpoints are consulted', where(u))


def o4(W, ob):
    d = W.fn(P2P + '::disconnect_player_at_frame')
    cx = W.ctx(d)
    st = [w for w in stores_in(W, d, 'last_frame') if 'local_connect_status' in w['ap'].s(d)]
    ok = any('arg3' in key(cx.expr_rvalue(w['site'].rv)) for w in st)
    ob.check(ok, 'disconnect_player_at_frame|adopted-cutoff-not-stored',
             'the adopted cut-off is stored into local_connect_status[h].last_frame (the field synchronized_inputs/confirmed_inputs read)',
             'the `last_frame` handed to disconnect_player_at_frame flows only into disconnect_frame: local_connect_status[h].last_frame keeps '
             'this peer\'s own (possibly larger) value, so survivors with different views use different cut-offs, the adoption re-triggers on '
             'every later call and the rollback target eventually leaves the window (panic on a survivor)', where(d))
    # the lookup side reads the cut-off from that field only (C03.O2)


from . import helpers

from . import initial

from . import mustcall

from . import vocab


def _c07_o3(W, ob):
    from . import c07
    return c07.o3(W, ob)


def _c07_o1(W, ob):
    from . import c07 as _m
    return _m.o1(W, ob)


from . import inventory


def _c12_o7(W, ob):
    from . import c12 as _m
    return _m.o7(W, ob)


OBLIGATIONS = [
    ('C10.O1', 'gossip out', 'every Input packet carries the connect_status it was given; the session passes local_connect_status at every '
     'send_input/poll call.', o1),
    ('C10.O2', 'gossip in, monotone', 'on_input merges disconnected by or and last_frame by max for every player entry, only from packets that do not '
     'request a disconnect.', o2),
    ('C10.O3', 'adoption before every simulation', 'update_player_disconnects precedes both advance paths; it min/and-reduces over running endpoints '
     'and adopts under `local_connected | local_min > queue_min`.', o3),
    ('C10.O4', 'the adopted cut-off reaches the lookup', 'the last_frame handed to disconnect_player_at_frame is stored to local_connect_status[h].last_frame.', o4),
    ('C10.O5', 'the pending disconnect frame takes part in the rollback (= C01.O7)', 'see C01.O7', c01.o7),
    ('C10.O6', 'same cut-off predicate everywhere (= C03.O2)', 'see C03.O2', c03.o2),
    ('C10.O9', 'every survivor resimulates from the cut-off it adopts (= C07.O3)', 'a survivor that learns of the drop when it stands k >= 1 predicted frames past the cut-off must schedule the resimulation from cut-off + 1 for EVERY such k (also k = 1), and an earlier pending frame is only ever lowered: otherwise that survivor keeps a predicted input where the others use the Disconnected default; see C07.O3', _c07_o3),
    ('C10.O7', 'a peer is dropped by the timeout rule only (= C07.O1)', 'survivors that drop a live peer at different moments disagree on its cut-off: Disconnected is raised under last_recv_time + disconnect_timeout < now and nothing else; see C07.O1', _c07_o1),
    ('C10.O8', 'a dropped peer is reported once and its endpoint says nothing further (= C12.O7)', 'the cut-off of a dropped player is adopted once: the endpoint is stopped on Disconnected and every emission site of the endpoint (poll, handle_message, the resend-queue cap in send_input) requires the Running state, so no second Disconnected re-enters disconnect_player_at_frame with a stale frame; see C12.O7', _c12_o7),
    ('C10.H', 'helpers the rules above rely on', 'the bodies of the helpers named by this property\'s rules compute what the rules assume (endpoint_getters); see rules/helpers.py', helpers.bundle('endpoint_getters')),
    ('C10.I', 'initial state', 'every constructor gives the fields this property\'s rules interpret (NULL_FRAME = none / nothing yet, 0 = first frame, latches open, typestate start) the value listed in tables/initial_state.json; every field compared with NULL_FRAME anywhere is listed; see rules/initial.py', initial.rule_for('C10')),
    ('C10.M', 'must-call floor', 'the calls listed for this property in tables/must_call.json are made on every path from the entry of their function to a normal return (interprocedural must-call): a new early return, fast path or extra condition in front of one of them is reported; see rules/mustcall.py', mustcall.rule_for('C10')),
    ('C10.V', 'no unreviewed condition in the pinned helpers', 'for each helper whose body this property\'s rules pin (tables/condition_terms.json), the terms its path conditions are built from (fields, parameters, call results -- no constants, operators or local names) are a subset of the reviewed vocabulary: one more `if` in front of a pinned result (a lock that may time out, "only while an endpoint is running") is reported; see rules/vocab.py', vocab.rule_for('C10')),
    ('C10.S', 'state inventory', 'every field of the structs this property\'s rules read (tables/state.json) is known, and is written only by its reviewed writers (or helpers only they call): a new field is new state across calls -- a cache, a flag, a stored deadline -- that nothing has shown to stay in step; a new writer is a second place that resets, re-arms or moves something; see rules/inventory.py', inventory.state_rule_for('C10')),
    ('C10.K', 'call inventory', 'every reviewed call of a function that writes state (tables/call_edges.json, callers in the structs this property\'s rules read) is still made, directly or through helpers: a call deleted as redundant is reported; likewise the arguments of logging / debug-only macros change no state, no unreviewed call of a state-writing function appears (tables/call_edges_all.json), the types of the locals a loop carries from one iteration to the next (tables/carried.json) and, per function and field, how reads and writes of the field are ordered (tables/orders.json: a snapshot taken before instead of after an update) are as reviewed; see rules/inventory.py', inventory.call_rule_for('C10')),
    ('C10.A', 'expression inventory', 'every arithmetic expression handed to a call or stored in a field, and what every closure given to an iterator adaptor / collection method returns, is one of the reviewed expressions of its function (tables/expressions.json; linear / guard normal forms, no local names): a changed literal, operator, operand order, factor, predicate or sort key is reported; see rules/inventory.py', inventory.expr_rule_for('C10')),
    ('C10.Z', inventory.CONST_TITLE, inventory.CONST_TEXT, inventory.const_rule_for('C10')),
]
