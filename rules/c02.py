"""C02 -- the request list of every advance_frame call is executable and frame-consistent (structural part)."""
from .lib import *
from .cfg import cfg_of, callee_matches
from .sem import key, dnf_str
from .facts import Place
from . import c01

LEVEL = 'other'
EXPLANATION = ('Static rule checking: single constructors of Save/LoadGameState with frame = cell = counter, writers of '
               'the frame counter, resimulation loop bound, save-before-simulate in every mode, frame-0 save, SyncTest '
               'and spectator siblings. Cell freshness and the window invariant over histories are NOT decided.')
NOT_DECIDED = ['that the loaded cell still holds the state saved on the current timeline', 'that every load lies inside '
               'the prediction window (run-time assertions of load_frame; inductive invariant over calls)']
ASSUMPTIONS = c01.ASSUMPTIONS

P2P = c01.P2P
SL = c01.SL
ST = 'sessions::sync_test_session::SyncTestSession'
SP = 'sessions::p2p_spectator_session::SpectatorSession'


def o1(W, ob):
    for variant, host, counter_expect in (('SaveGameState', SL + '::save_current_state', 'self.current_frame'),
                                          ('LoadGameState', SL + '::load_frame', 'arg2')):
        cons = W.constructions('GgrsRequest', variant)
        ob.require_count(len(cons), 1, '%s construction sites' % variant)
        for f, s in cons:
            if not match_path(f.path, host):
                ob.fail('%s|constructor|%s' % (variant, short(f.path)),
                        '%s is constructed in %s; its only reviewed constructor is %s' % (variant, short(f.path), host),
                        where(f, s.line))
                continue
            cx = W.ctx(f)
            fields = dict(zip(s.rv.j['fields'], s.rv.ops))
            fr = key(cx.expr_operand(fields['frame']))
            cell_src = trace_back(W, f, fields['cell'])
            cell_ok = False
            cell_arg = '?'
            if cell_src and cell_src[0] == 'call' and callee_matches(cell_src[1].callee, 'SavedStates::get_cell'):
                cell_arg = key(cx.expr_operand(cell_src[1].args[1]))
                cell_ok = cell_arg == counter_expect
            ob.check(fr == counter_expect and cell_ok, '%s|frame-cell' % variant,
                     '%s names frame `%s` and the cell of that same frame' % (variant, counter_expect),
                     '%s: frame=`%s`, cell=get_cell(`%s`); both must be `%s`' % (variant, fr, cell_arg, counter_expect),
                     where(f, s.line))
    # last_saved_frame is set on the save path; the counter on the load path
    f = W.fn(SL + '::save_current_state')
    ex, _ = W.writes_to_field('last_saved_frame')
    st = [w for w in ex if w['fn'] is f and w['kind'] == 'store']
    good = st and all(key(W.ctx(f).expr_rvalue(w['site'].rv)) == 'self.current_frame' and W.guard(f, w['bb']) == [[]]
                      for w in st)
    ob.check(bool(good), 'save_current_state|last_saved', 'save_current_state records last_saved_frame = current_frame',
             'save_current_state does not unconditionally record last_saved_frame = current_frame', where(f))
    lf = W.fn(SL + '::load_frame')
    ex, _ = W.writes_to_field('current_frame')
    st = [w for w in ex if w['fn'] is lf and w['kind'] == 'store']
    good = len(st) == 1 and key(W.ctx(lf).expr_rvalue(st[0]['site'].rv)) == 'arg2'
    ob.check(bool(good), 'load_frame|counter', 'load_frame sets the frame counter to the loaded frame',
             'load_frame does not set current_frame to the frame it loads', where(lf))
    if st:
        g = W.guard(lf, st[0]['bb'])
        past = every_disjunct_has(g, lambda a: match_lin(a, [(exact('arg2'), 1), (exact('self.current_frame'), -1)], hi=-1))
        window = every_disjunct_has(g, lambda a: match_lin(a, [(exact('arg2'), 1), (exact('self.current_frame'), -1),
                                                               (exact('self.max_prediction'), 1)], lo=0))
        cellchk = every_disjunct_has(g, lambda a: a[0] == 'lin' and a[2] == a[3] == 0 and any('.frame' in k for k, _ in a[1]))
        ob.check(past and window and cellchk, 'load_frame|asserts',
                 'load_frame asserts: past frame, inside the window, cell tagged with that frame',
                 'load_frame lost an assertion: past=%s window=%s cell-frame=%s' % (past, window, cellchk), where(lf))


def o2(W, ob):
    n = only_writers(W, ob, 'current_frame', 'SyncLayer', [SL + '::advance_frame', SL + '::load_frame'], 'O2',
                     kinds=('store',))
    ob.require_count(n, 2, 'stores to SyncLayer.current_frame')
    f = W.fn(SL + '::advance_frame')
    ex, _ = W.writes_to_field('current_frame')
    for w in ex:
        if w['fn'] is f and w['kind'] == 'store':
            v = key(W.ctx(f).expr_rvalue(w['site'].rv))
            ob.check(v == '(self.current_frame Add 1)' and W.guard(f, w['bb']) == [[]], 'advance_frame|plus-one',
                     'advance_frame steps the counter by exactly one', 'advance_frame stores `%s`' % v, where(f, w['line']))
    # constructor value
    cons = [(fn2, s) for fn2, s in W.constructions('SyncLayer') if match_path(fn2.path, SL + '::new')]
    ob.require_count(len(cons), 1, 'SyncLayer constructor')
    for fn2, s in cons:
        fields = dict(zip(s.rv.j['fields'], s.rv.ops))
        v = fields['current_frame'].const_int()
        ob.check(v == 0, 'SyncLayer::new|frame0', 'a new sync layer starts at frame 0', 'SyncLayer::new starts at %s' % v,
                 where(fn2, s.line))
    n2 = only_writers(W, ob, 'current_frame', 'SpectatorSession', [SP + '::advance_frame'], 'O2', kinds=('store',))


def o4(W, ob):
    """resimulate back to the pre-rollback frame: loop bound = current - frame_to_load taken before the load,
    exit asserted equal"""
    for name in (P2P + '::adjust_gamestate', ST + '::adjust_gamestate'):
        f = W.fn(name)
        cx = W.ctx(f)
        cfg = cfg_of(f)
        loads = sites(W, f, SL + '::load_frame')
        # the range driving the loop
        rng = [s for s in f.stmts() if s.k == 'assign' and s.rv.k == 'agg' and s.rv.j.get('ak') == 'adt'
               and s.rv.j['adt'].endswith('Range') and not [m for m in s.macros if not m.startswith('desugar:')]]
        ob.require_count(len(rng), 1, 'resimulation loop range in %s' % short(f.path))
        for s in rng:
            fields = dict(zip(s.rv.j['fields'], s.rv.ops))
            lo = cx.expr_operand(fields['start'])
            hi_src = trace_back(W, f, fields['end'])
            ok = lo == ('int', 0)
            desc = key(cx.expr_operand(fields['end']))
            hi_ok = False
            if hi_src and hi_src[0] in ('stmt', 'place'):
                # `count` is a checked subtraction computed before the load
                e = cx.expr_operand(fields['end'])
                if e[0] == 'bin' and e[1] == 'Sub':
                    a, b = key(e[2]), key(e[3])
                    hi_ok = 'current_frame' in a
                    desc = '%s - %s' % (a, b)
            # where is count computed? its defining statement must precede the load
            e = cx.expr_operand(fields['end'])
            ob.check(ok and e[0] == 'bin' and e[1] == 'Sub' and 'current_frame' in key(e[2]),
                     '%s|loop-bound' % short(f.path),
                     'the resimulation loop runs current_frame - frame_to_load times',
                     'resimulation loop bound is `%s..%s`, expected 0..(current_frame - frame_to_load)' % (key(lo), desc),
                     where(f, s.line))
        # the frame the subtraction reads must be captured before load_frame
        cur_calls = [t for t in f.calls() if callee_matches(t.callee, SL + '::current_frame') and not t.macros]
        first_cur = [t for t in cur_calls if cfg.path_avoiding([t.bb], loads) is not None]
        ob.check(bool(first_cur), '%s|capture-before-load' % short(f.path),
                 'the pre-rollback frame is captured before load_frame',
                 'no read of current_frame precedes load_frame: the loop bound would use the frame after the load',
                 where(f))
        # exit assertion: current_frame() == captured frame
        rets = cfg.returns
        okx = False
        for rb in rets:
            g = W.guard(f, rb)
            if every_disjunct_has(g, lambda a: a[0] == 'lin' and a[2] == a[3] == 0 and len(a[1]) <= 2 and
                                  sum(1 for k, _ in a[1] if 'current_frame' in k) >= 1 and
                                  any('agg' in k or 'tuple{' in k for k, _ in a[1]) or
                                  (a[0] == 'lin' and a[2] == a[3] == 0 and all('current_frame' in k for k, _ in a[1]) and len(a[1]) >= 1)):
                okx = True
        ob.check(okx, '%s|exit-assert' % short(f.path), 'on exit the frame counter is asserted to be back where it was',
                 'the exit of the resimulation loop is not protected by the equality assertion on current_frame', where(f))


def o6(W, ob):
    """a save precedes every simulation of a frame that can be rolled back to"""
    h = W.fn(P2P + '::handle_rollback_and_save')
    cfg = cfg_of(h)
    # non-sparse: every return path of handle_rollback_and_save passes save_current_state
    saves = sites(W, h, SL + '::save_current_state')
    sparse_calls = sites(W, h, P2P + '::check_last_saved_state')
    G = W.guards(h)
    bad = None
    for rb in cfg.returns:
        p = cfg.path_avoiding([rb], saves + sparse_calls)
        if p is not None:
            bad = p
    ob.check(bad is None, 'handle_rollback_and_save|save-or-sparse',
             'every call of handle_rollback_and_save saves the current frame (sparse: runs check_last_saved_state)',
             'a path through handle_rollback_and_save neither saves the current frame nor runs the sparse-saving check',
             where(h), witness=path_str(h, bad) if bad else None)
    for sb in saves:
        g = G.guard(sb)
        ob.check(g == [[('bool', 'self.sparse_saving', False)]], 'handle_rollback_and_save|save-guard',
                 'the per-call save depends only on the saving mode',
                 'the per-call save of the current frame is additionally conditioned: %s (a frame whose state changed '
                 'by a rollback may then keep a stale cell)' % dnf_str(g), where(h, h.blocks[sb].term.line))
    for sb in sparse_calls:
        g = G.guard(sb)
        ob.check(g == [[('bool', 'self.sparse_saving', True)]], 'handle_rollback_and_save|sparse-guard',
                 'the sparse check depends only on the saving mode', 'the sparse-saving check is conditioned: ' + dnf_str(g),
                 where(h, h.blocks[sb].term.line))
    # the save follows the rollback (so the saved state is the corrected one)
    adj = sites(W, h, P2P + '::adjust_gamestate')
    for sb in saves + sparse_calls:
        reach = cfg.reachable_after(sb)
        ob.check(not (set(adj) & reach), 'handle_rollback_and_save|save-after-rollback',
                 'the save comes after the rollback step', 'adjust_gamestate can run after the per-call save',
                 where(h, h.blocks[sb].term.line))
    # the last-saved frame handed to the sparse check is read after the rollback (which may save and so move it)
    from .world import Effects
    E = Effects(W)
    for t in [t for t in h.calls() if callee_matches(t.callee, P2P + '::check_last_saved_state')]:
        src = trace_back(W, h, t.args[1], strict=True)
        ok_src = bool(src) and src[0] == 'call' and callee_matches(src[1].callee, SL + '::last_saved_frame')
        stale = None
        if ok_src:
            stale = stale_between(W, h, src[1].bb, t.bb, 'self.sync_layer.last_saved_frame', E)
        ob.check(ok_src and stale is None, 'handle_rollback_and_save|fresh-last-saved',
                 'check_last_saved_state receives last_saved_frame() as it is after the rollback step',
                 'check_last_saved_state receives a last-saved frame that %s' % (
                     ('was read before `%s`, which may move last_saved_frame (a stale value triggers a second rollback from the wrong frame)' % stale) if stale else 'is not SyncLayer::last_saved_frame()'),
                 where(h, t.line))
    rb_ = W.fn(P2P + '::advance_rollback_frame')
    must_precede(W, ob, rb_, P2P + '::handle_rollback_and_save', SL + '::synchronized_inputs', 'O6', first_mode='direct',
                 what='handle_rollback_and_save (save) precedes the new-frame simulation')
    # resimulation loop: every iteration except the first saves before stepping (non-sparse); sparse: at min_confirmed
    for name, sparse_aware in ((P2P + '::adjust_gamestate', True), (ST + '::adjust_gamestate', False)):
        f = W.fn(name)
        G = W.guards(f)
        sv = sites(W, f, SL + '::save_current_state')
        ob.require_count(len(sv), 2 if sparse_aware else 1, 'save sites in %s' % short(f.path))
        nons = []
        for sb in sv:
            g = G.guard(sb)
            is_sparse = any(('bool', 'self.sparse_saving', True) in c for c in g)
            if is_sparse:
                ok = every_disjunct_has(g, lambda a: match_lin(a, [(exact('arg3'), 1), (exact('self.sync_layer.current_frame'), -1)], eq=0))
                ob.check(ok, '%s|sparse-save' % short(f.path), 'sparse resimulation saves exactly the confirmed frame',
                         'sparse resimulation save is not tied to current_frame == min_confirmed: ' + dnf_str(g)[:300],
                         where(f, f.blocks[sb].term.line))
            else:
                nons.append(sb)
                # guard: i >= 1 and nothing stronger on i
                ok1 = every_disjunct_has(g, lambda a: a[0] == 'lin' and len(a[1]) == 1 and 'iter' in a[1][0][0] and a[2] == 1 and a[3] is None)
                # "whenever": nothing else may condition the save (iteration / saving-mode / the assertions made before the loop excepted)
                def allowed(a):
                    if a[0] == 'is' or a == ('bool', 'self.sparse_saving', False):
                        return True
                    if a[0] == 'lin' and len(a[1]) == 1 and 'iter' in a[1][0][0]:
                        return True
                    if a[0] == 'lin' and a[2] == a[3] == 0 and any('tuple{' in k for k, _ in a[1]):
                        return True   # assert_eq!(current_frame(), frame_to_load) before the loop
                    if a[0] == 'lin' and all(k in ('arg2', 'self.sync_layer.last_saved_frame') for k, _ in a[1]):
                        return True   # assert!(frame_to_load <= first_incorrect)
                    return False
                extra = [a for c in g for a in c if not allowed(a)]
                ok1 = ok1 and not extra
                ob.check(ok1, '%s|resim-save' % short(f.path),
                         'every resimulated frame except the one just loaded is saved before it is stepped',
                         'the resimulation save is not guarded by exactly `i >= 1`: ' + dnf_str(g)[:300],
                         where(f, f.blocks[sb].term.line))
        # save precedes the step inside the loop body
        adv = sites(W, f, SL + '::advance_frame')
        cfgf = cfg_of(f)
        for sb in sv:
            ob.check(any(a in cfgf.reachable_after(sb) for a in adv) and not any(sb in cfgf.reachable_after(a) and not cfgf.dominates(sb, a) and False for a in adv),
                     '%s|save-before-step' % short(f.path), 'the save precedes the step of the same iteration',
                     'a resimulation save is not followed by the frame step', where(f, f.blocks[sb].term.line))
            # the step must not precede the save within one iteration: the save block is not reachable from the step
            # without passing the loop header (next())
            hdr = [t.bb for t in f.calls() if last_seg(t.callee.best) == 'next']
            for a in adv:
                p = cfgf.path_from_avoiding(a, hdr, ends=[sb])
                ob.check(p is None, '%s|step-then-save' % short(f.path), 'no save after the step within an iteration',
                         'a save follows the frame step inside one iteration (it would save the wrong frame number)',
                         where(f, f.blocks[sb].term.line))
    # sparse: check_last_saved_state re-establishes current - last_saved < max_prediction
    c = W.fn(P2P + '::check_last_saved_state')
    G = W.guards(c)
    body = sites(W, c, SL + '::save_current_state') + sites(W, c, P2P + '::adjust_gamestate')
    ob.require_count(len(body), 2, 'save / rollback sites in check_last_saved_state')
    for sb in body:
        g = G.guard(sb)
        # trigger must be implied by  current - last_saved >= max_prediction  (i.e. not stricter than that)
        trig = every_disjunct_has(g, lambda a: match_lin(a, [(exact('self.sync_layer.current_frame'), 1), (exact('arg2'), -1),
                                                             (exact('self.max_prediction'), -1)], lo=0))
        too_strict = every_disjunct_has(g, lambda a: match_lin(a, [(exact('self.sync_layer.current_frame'), 1), (exact('arg2'), -1),
                                                                   (exact('self.max_prediction'), -1)], lo=1))
        ob.check(trig and not too_strict, 'check_last_saved_state|trigger',
                 'the last saved state is refreshed as soon as current - last_saved reaches max_prediction',
                 'sparse-saving trigger is not `current - last_saved >= max_prediction`: ' + dnf_str(g)[:300],
                 where(c, c.blocks[sb].term.line))


def o7(W, ob):
    f = W.fn(P2P + '::advance_frame_after_poll')
    G = W.guards(f)
    cfg = cfg_of(f)
    saves = sites(W, f, SL + '::save_current_state')
    ob.require_count(len(saves), 1, 'frame-0 save site')
    rb = sites(W, f, P2P + '::advance_rollback_frame')
    ob.require_count(len(rb), 1, 'advance_rollback_frame call')
    for sb in saves:
        g = G.guard(sb)
        # condition => guard: the save must happen whenever current_frame == 0 and rollback mode
        extra = [a for c in g for a in c if not (
            match_lin(a, [(exact('self.sync_layer.current_frame'), 1)], eq=0) or
            match_lin(a, [(exact('self.max_prediction'), 1)], neq=0) or match_lin(a, [(exact('self.max_prediction'), 1)], lo=1)
            or a == ('is', 'self.state', 'Running', True) or (a[0] == 'is' and 'iter' in a[1])
            or (a[0] == 'is' and a[1] == 'self.desync_detection'))]
        has0 = every_disjunct_has(g, lambda a: match_lin(a, [(exact('self.sync_layer.current_frame'), 1)], eq=0))
        ob.check(has0 and not extra, 'advance_frame_after_poll|frame0-save',
                 'frame 0 is saved before its first simulation whenever the session is in rollback mode',
                 'the frame-0 save is missing or additionally conditioned: ' + dnf_str(g)[:300], where(f, f.blocks[sb].term.line))
        for r in rb:
            ob.check(r in cfg.reachable_after(sb), 'advance_frame_after_poll|frame0-save-order',
                     'the frame-0 save precedes the rollback advance', 'the frame-0 save does not precede advance_rollback_frame',
                     where(f, f.blocks[sb].term.line))
    if not saves:
        ob.fail('advance_frame_after_poll|frame0-save-missing', 'no save of frame 0 before the first simulation', where(f))


def o8(W, ob):
    st = W.fn(ST + '::advance_frame')
    G = W.guards(st)
    cfg = cfg_of(st)
    sv = sites(W, st, SL + '::save_current_state')
    fetch = sites(W, st, SL + '::synchronized_inputs')
    ob.require_count(len(sv), 1, 'save site in SyncTestSession::advance_frame')
    ob.require_count(len(fetch), 1, 'fetch site in SyncTestSession::advance_frame')
    for sb in sv:
        g = G.guard(sb)
        ok = every_disjunct_has(g, lambda a: match_lin(a, [(exact('self.check_distance'), 1)], lo=1)
                                or match_lin(a, [(exact('self.check_distance'), 1)], neq=0))
        only_cd = all(all(('check_distance' in repr(a)) or a[0] == 'is' or 'local_inputs' in repr(a) or 'num_players' in repr(a)
                          or 'current_frame' in repr(a) for a in c) for c in g)
        ob.check(ok, 'SyncTestSession::advance_frame|save', 'SyncTest saves the current frame when check_distance > 0',
                 'SyncTest save guard: ' + dnf_str(g)[:200], where(st, st.blocks[sb].term.line))
        steps = sites(W, st, SL + '::advance_frame') + [s.bb for f2, s in W.constructions('GgrsRequest', 'AdvanceFrame') if f2 is st]
        for fb in steps:
            ob.check(fb in cfg.reachable_after(sb) and sb not in cfg.reachable_after(fb),
                     'SyncTestSession::advance_frame|save-before-step', 'the save precedes the step of that frame and its AdvanceFrame request',
                     'SyncTest saves after stepping the frame / after queuing its AdvanceFrame request', where(st, st.blocks[sb].term.line))
    sp = W.fn(SP + '::advance_frame')
    cfgs = cfg_of(sp)
    ex, _ = W.writes_to_field('current_frame')
    inc = [w for w in ex if w['fn'] is sp and w['kind'] == 'store']
    fetchs = sites(W, sp, SP + '::inputs_at_frame')
    ob.require_count(len(inc), 1, 'spectator frame increment')
    ob.require_count(len(fetchs), 1, 'spectator input fetch')
    for w in inc:
        g = W.guard(sp, w['bb'])
        ok = every_disjunct_has(g, lambda a: a[0] == 'is' and 'inputs_at_frame(' in a[1] and a[2] in ('Continue', 'Ok') and a[3])
        v = key(W.ctx(sp).expr_rvalue(w['site'].rv))
        ob.check(ok and v == '(self.current_frame Add 1)', 'SpectatorSession::advance_frame|step-after-fetch',
                 'the spectator steps its frame by one only after the inputs of that frame were obtained',
                 'spectator frame step is not conditioned on a successful inputs_at_frame: %s (value %s)' % (dnf_str(g)[:200], v),
                 where(sp, w['line']))
    for t in sp.calls():
        if callee_matches(t.callee, SP + '::inputs_at_frame'):
            v = key(W.ctx(sp).expr_operand(t.args[1]))
            ob.check(v == '(self.current_frame Add 1)', 'SpectatorSession::advance_frame|fetch-frame',
                     'the spectator fetches frame current + 1', 'the spectator fetches frame `%s`' % v, where(sp, t.line))


from . import helpers

from . import initial

from . import wiring

from . import mustcall

from . import vocab


def _c16_o2(W, ob):
    from . import c16 as _m
    return _m.o2(W, ob)


from . import inventory

OBLIGATIONS = [
    ('C02.O1', 'single constructors', 'SaveGameState / LoadGameState are built only in save_current_state / load_frame '
     'with frame, cell and counter agreeing; load_frame keeps its three assertions.', o1),
    ('C02.O2', 'frame counter writers', 'SyncLayer.current_frame is written only by new (0), advance_frame (+1) and '
     'load_frame; the spectator counter only by its advance_frame.', o2),
    ('C02.O3', 'gap-free AdvanceFrame run (= C01.O3)', 'see C01.O3', c01.o3),
    ('C02.O4', 'resimulate back', 'The resimulation loop runs current - frame_to_load times (captured before the load) and '
     'its exit is protected by the equality assertion on the frame counter.', o4),
    ('C02.O6', 'save before every simulated frame', 'Non-sparse: every call saves the current frame after the rollback '
     'step, unconditionally; every resimulated frame but the first is saved before stepping. Sparse: save at the '
     'confirmed frame; check_last_saved_state triggers at current - last_saved >= max_prediction.', o6),
    ('C02.O7', 'frame-0 save', 'In rollback mode the first simulation of frame 0 is preceded by a save of frame 0.', o7),
    ('C02.O8', 'SyncTest and spectator siblings', 'SyncTest saves (check_distance > 0) before fetching and stepping; the '
     'spectator steps only after inputs_at_frame succeeded, fetching frame current+1.', o8),
    ('C02.O9', 'a failing call drops no half-executed request list (= C16.O2)', 'no error exit of the advance path is reachable after the sync layer was rolled back / saved: the requests that go with those effects would be lost and the game would stay on a discarded timeline; see C16.O2', _c16_o2),
    ('C02.O10', 'the load goes back to the earliest wrong frame (= C01.O7)', 'a LoadGameState names a frame whose cell holds a state of the current timeline only if the rollback starts at the EARLIEST frame any queue (or the pending disconnect) reports as wrong: from a later one the loaded state was simulated with an input already known to be mispredicted, and reset_prediction then forgets the earlier report.  check_simulation_consistency is a NULL-aware min-reduction; see C01.O7', c01.o7),
    ('C02.H', 'helpers the rules above rely on', 'the bodies of the helpers named by this property\'s rules compute what the rules assume (get_cell, saved_state_by_frame, cell_accessors); see rules/helpers.py', helpers.bundle('get_cell', 'saved_state_by_frame', 'cell_accessors')),
    ('C02.I', 'initial state', 'every constructor gives the fields this property\'s rules interpret (NULL_FRAME = none / nothing yet, 0 = first frame, latches open, typestate start) the value listed in tables/initial_state.json; every field compared with NULL_FRAME anywhere is listed; see rules/initial.py', initial.rule_for('C02')),
    ('C02.W', 'configuration wiring', 'no crossed wires at call sites, in struct literals and in plain getters (last_saved_frame / last_confirmed_frame / current_frame are three same-typed fields with three getters); see rules/wiring.py', wiring.rule),
    ('C02.M', 'must-call floor', 'the calls listed for this property in tables/must_call.json are made on every path from the entry of their function to a normal return (interprocedural must-call): a new early return, fast path or extra condition in front of one of them is reported; see rules/mustcall.py', mustcall.rule_for('C02')),
    ('C02.V', 'no unreviewed condition in the pinned helpers', 'for each helper whose body this property\'s rules pin (tables/condition_terms.json), the terms its path conditions are built from (fields, parameters, call results -- no constants, operators or local names) are a subset of the reviewed vocabulary: one more `if` in front of a pinned result (a lock that may time out, "only while an endpoint is running") is reported; see rules/vocab.py', vocab.rule_for('C02')),
    ('C02.S', 'state inventory', 'every field of the structs this property\'s rules read (tables/state.json) is known, and is written only by its reviewed writers (or helpers only they call): a new field is new state across calls -- a cache, a flag, a stored deadline -- that nothing has shown to stay in step; a new writer is a second place that resets, re-arms or moves something; see rules/inventory.py', inventory.state_rule_for('C02')),
    ('C02.E', 'error-exit inventory', 'every (function, GgrsError variant) pair constructed in the crate is listed in tables/error_exits.json: a call that can fail in a new way -- typically after effects whose requests are then dropped -- is reported; see rules/inventory.py', inventory.error_rule),
    ('C02.K', 'call inventory', 'every reviewed call of a function that writes state (tables/call_edges.json, callers in the structs this property\'s rules read) is still made, directly or through helpers: a call deleted as redundant is reported; likewise the arguments of logging / debug-only macros change no state, no unreviewed call of a state-writing function appears (tables/call_edges_all.json), the types of the locals a loop carries from one iteration to the next (tables/carried.json) and, per function and field, how reads and writes of the field are ordered (tables/orders.json: a snapshot taken before instead of after an update) are as reviewed; see rules/inventory.py', inventory.call_rule_for('C02')),
    ('C02.A', 'expression inventory', 'every arithmetic expression handed to a call or stored in a field, and what every closure given to an iterator adaptor / collection method returns, is one of the reviewed expressions of its function (tables/expressions.json; linear / guard normal forms, no local names): a changed literal, operator, operand order, factor, predicate or sort key is reported; see rules/inventory.py', inventory.expr_rule_for('C02')),
    ('C02.P', 'trait-impl inventory', 'each (type, trait) pair among PartialEq / Eq / Hash / Ord / Clone / Default / From / Deref / InputPredictor is derived or hand-written as listed in tables/impls.json: a derive replaced by a hand-written impl (equality by address only, a hash that ignores a field) changes which map keys collide and which inputs match with every call site unchanged; see rules/inventory.py', inventory.impl_rule),
    ('C02.Z', inventory.CONST_TITLE, inventory.CONST_TEXT, inventory.const_rule_for('C02')),
]
