"""C14 -- the codec round-trips and decodes total (structural part)."""
from .lib import *
from .cfg import cfg_of, callee_matches
from .sem import key, dnf_str, Guards
from . import c01, panics

LEVEL = 'other'
EXPLANATION = ('Static rule checking: totality of compression::decode (panic-capable-site inventory over its call-graph closure: '
               'every site discharged by a stable dominating guard, no review entries, every external callee in the reviewed totality '
               'table), agreement of the writer (delta_encode) and the reader (delta_decode) on the 2-byte little-endian length prefix, '
               'XOR against a base that both reset to the plain input on every iteration, layer order, and a constant cap on the decoded '
               'length before allocation. Round-trip equality over all (reference, sequence) pairs is NOT decided.')
NOT_DECIDED = ['round-trip equality for all (reference, input sequence) pairs (value level)']
ASSUMPTIONS = c01.ASSUMPTIONS + ['tables/std_total.json: the listed external callees are total']

COMP = 'network::compression'


GROWTH = ('resize', 'extend_from_slice', 'push', 'extend', 'reserve', 'with_capacity', 'from_elem', 'append')


def o1(W, ob):
    d = W.fn(COMP + '::decode')
    std, reviewed, invs = panics.load_tables()
    fns = panics.closure_fns(W, [d])
    inv = panics.inventory(W, fns)
    ob.require_count(len(inv), 4, 'panic-capable sites in the closure of decode')
    ob.require_count(len(fns), 3, 'functions in the closure of decode')
    for s in inv:
        k = panics.site_key(W, s)
        how, why = panics.discharge(W, s)
        ob.check(how is not None, 'decode|open-panic-site|%s|%s|%s' % k, '%s %s %s discharged by %s: %s' % (k[0], k[1], k[2], how, (why or '')[:160]),
                 'open panic-capable site in the closure of decode: %s in %s (%s) -- %s' % (k[1], k[0], k[2], why), panics.where_(s))
    ext = panics.external_callees(W, fns)
    for p, uses in sorted(ext.items()):
        f, t = uses[0]
        ob.check(p in std['total'] or p in std['site'] or panics.external_default_total(t.callee), 'decode|unreviewed-external|%s' % p, 'external callee %s is reviewed / a total std function' % p,
                 'decode reaches `%s`, which is not in the reviewed totality table: any byte string must yield Ok or Err' % p,
                 '%s:%d (%s)' % (f.file, t.line, panics.short_fn(f)))
    # shifts: `x << n` with n >= the width of x panics with overflow checks on and is masked (wraps) without -- wrong either way.  Every shift in the closure has an
    # amount that a dominating guard (or a constant) shows to be below the width of the shifted value.
    from .sem import cmp_atom, dnf_implies_atom
    ns = 0
    for f in fns:
        cx = W.ctx(f)
        G = W.guards(f)
        for b in f.blocks:
            t = b.term
            if b.cleanup or t.k != 'assert' or t.msg.get('kind') != 'Overflow' or t.msg.get('op') not in ('Shl', 'Shr'):
                continue
            ns += 1
            c = cx.expr_operand(t.cond)
            ok, why = False, 'condition `%s` not understood' % key(c)[:80]
            if c[0] == 'bin' and c[1] == 'Lt' and c[3][0] == 'int':
                amount, width = c[2], c[3][1]
                if amount[0] == 'int':
                    ok = 0 <= amount[1] < width
                    why = 'constant shift %d, width %d' % (amount[1], width)
                else:
                    g = G.stable_guard(b.id)
                    ok = bool(g) and dnf_implies_atom(g, cmp_atom('Lt', amount, ('int', width), True))
                    why = 'shift amount `%s`, width %d, guard %s' % (key(amount)[:40], width, dnf_str(g)[:160])
            ob.check(ok, 'decode|shift-width|%s' % panics.short_fn(f), '%s: shift amount below the width of the shifted value (%s)' % (panics.short_fn(f), why),
                     'a shift in %s can reach the width of the shifted value (%s): panic with overflow checks, silently wrapped without -- e.g. an accumulator narrowed '
                     'while the guard on the shift amount stayed' % (panics.short_fn(f), why), where(f, t.line))
    if W.fx.overflow_checks if hasattr(W.fx, 'overflow_checks') else True:
        ob.require_count(ns, 2, 'shifts in the closure of decode')
    # unsigned subtractions: `a - b` with b > a panics with overflow checks on and wraps to a huge value without (a size guard that then lets everything through).
    # Every one in the closure has a subtrahend that a dominating guard bounds by the minuend, or is `cap - buffer.len()` for the decoded buffer, whose length the
    # growth rule (O3) keeps at or below the cap.  `cap - <length read from the packet>` is not: the packet chooses that value.
    from .facts import Operand
    nsub = 0
    for f in fns:
        cx = W.ctx(f)
        G = W.guards(f)
        grow = set()
        for t in f.calls():
            if last_seg(t.callee.best) in GROWTH and t.args and t.args[0].is_place():
                grow.add(cx.ap_carry(t.args[0].place).s(f))
        for b in f.blocks:
            t = b.term
            if b.cleanup or t.k != 'assert' or t.msg.get('kind') != 'Overflow' or t.msg.get('op') != 'Sub':
                continue
            nsub += 1
            ea, eb = cx.expr_operand(Operand(t.msg['a'])), cx.expr_operand(Operand(t.msg['b']))
            g = G.stable_guard(b.id)
            ok = bool(g) and dnf_implies_atom(g, cmp_atom('Le', eb, ea, True))
            why = 'guard %s' % dnf_str(g)[:160]
            if not ok and ea[0] in ('int', 'cst') and ea[-1] == W.const('MAX_DECODED_LEN') and Operand(t.msg['b']).is_place():
                l = Operand(t.msg['b']).place.local
                src = [c for c in f.calls() if last_seg(c.callee.best) == 'len' and not c.dest.proj and c.dest.local == l and c.args and c.args[0].is_place()]
                if len(src) == 1 and cx.ap_carry(src[0].args[0].place).s(f) in grow:
                    ok, why = True, 'the subtrahend is the length of the decoded buffer, which O3 keeps <= the cap'
            ob.check(ok, 'decode|unsigned-sub|%s|%s' % (panics.short_fn(f), key(ea)[:40]), '%s: `%s - %s` cannot underflow (%s)' % (panics.short_fn(f), key(ea)[:40], key(eb)[:40], why),
                     '%s: the unsigned subtraction `%s - %s` can underflow -- the subtrahend is not bounded by a dominating guard and is not the length of the capped buffer '
                     '(e.g. the operands of the size guard swapped, so that a length taken from the packet is subtracted from the cap): panic with overflow checks, a wrapped '
                     'bound that admits any size without' % (panics.short_fn(f), key(ea)[:40], key(eb)[:60]), where(f, t.line))
    ob.info('%d unsigned subtraction(s) in the closure of decode' % nsub)
    # every `?`/return of the closure yields a Result: no unwrap on the decode path (covered by the inventory); loops terminate:
    # each loop consumes input: the slice iterator / pos advance is checked below (O2)


def _base_local(W, f, var_name='base'):
    """the delta base of the codec loops: the local called `base`, or -- whatever it is called -- the only byte-buffer local (Vec<u8> / &[u8]) that is defined both in front
    of the per-input loop and inside it"""
    for l in range(len(f.locals)):
        if f.local_name(l) == var_name:
            return l
    cx = W.ctx(f)
    G = W.guards(f)
    loops = G.loops()
    if not loops:
        return None
    body = max(loops, key=len)
    cand = []
    for l in range(f.argc + 1, len(f.locals)):
        ty = f.local_ty(l) or ''
        if not (('Vec<u8>' in ty) or ty in ('&[u8]', '&mut [u8]')) or not f.local_name(l):
            continue
        dl = [d.bb for k, d in cx.full_defs(l)]
        if any(b in body for b in dl) and any(b not in body for b in dl):
            cand.append(l)
    return cand[0] if len(cand) == 1 else None


def loop_updates(W, f, var_name):
    """for the single `for` loop over the inputs in f: do all paths of an iteration assign `var_name`?"""
    cx = W.ctx(f)
    cfg = cfg_of(f)
    G = W.guards(f)
    var = _base_local(W, f, var_name)
    if var is None:
        return None, 'no local named %s' % var_name
    defs = [d.bb for k, d in cx.full_defs(var)]
    loops = G.loops()
    if not loops:
        return None, 'no loop'
    # outermost loop = the largest body
    header, body = max(G.loop_by_header().items(), key=lambda kv: len(kv[1]))
    latches = [n for (n, h) in G._back if h == header]
    inside = [b for b in defs if b in body]
    if not inside:
        return False, 'no assignment of `%s` inside the loop' % var_name
    # every path header -> latch (within the body) passes an assignment, unless it leaves the function
    for latch in latches:
        if latch in inside:
            continue
        p = cfg.path_avoiding([latch], inside, start=header)
        if p is not None and all(x in body for x in p):
            return False, 'an iteration can complete without assigning `%s`: %s' % (var_name, ' -> '.join('bb%d' % x for x in p))
    return True, ''


def o2(W, ob):
    enc = W.fn(COMP + '::delta_encode')
    dec = W.fn(COMP + '::delta_decode')
    cxe, cxd = W.ctx(enc), W.ctx(dec)
    # length prefix: writer
    tl = [t for t in enc.calls() if last_seg(t.callee.best) == 'to_le_bytes']
    ob.require_count(len(tl), 1, 'to_le_bytes in delta_encode')
    for t in tl:
        ty = t.arg_tys[0] if t.arg_tys else '?'
        a = key(cxe.expr_operand(t.args[0]))
        ob.check(ty == 'u16' and a.startswith('len('), 'delta_encode|length-prefix', 'the writer emits the input length as 2 little-endian bytes (u16)',
                 'delta_encode writes `%s` as %s::to_le_bytes' % (a, ty), where(enc, t.line))
    fl = [t for t in dec.calls() if last_seg(t.callee.best) == 'from_le_bytes']
    ob.require_count(len(fl), 1, 'from_le_bytes in delta_decode')
    for t in fl:
        ty = t.arg_tys[0] if t.arg_tys else '?'
        a = cxd.expr_operand(t.args[0])
        ks = key(a)
        ok = ty == '[u8; 2]' and a[0] == 'agg' and len(a[2]) == 2
        if ok:
            i0, i1 = key(a[2][0][1]), key(a[2][1][1])
            ok = i0.startswith('arg2[') and i1.startswith('arg2[') and 'Add 1' in i1
        ob.check(ok, 'delta_decode|length-prefix', 'the reader takes the length from 2 consecutive little-endian bytes',
                 'delta_decode reads the length as %s::from_le_bytes(%s)' % (ty, ks[:100]), where(dec, t.line))
    # pos advances by 2 and by len
    # the read cursor, whatever it is called: the usize local of delta_decode with several definitions one of which adds the 2 prefix bytes to the local itself
    pos = None
    for l in range(dec.argc + 1, len(dec.locals)):
        if (dec.local_ty(l) or '') != 'usize':
            continue
        ds_ = cxd.full_defs(l)
        if len(ds_) < 2:
            continue
        for k_, d_ in ds_:
            if k_ == 'stmt' and d_.rv.k == 'bin' and d_.rv.op in ('Add', 'AddWithOverflow', 'AddUnchecked') and d_.rv.a.is_place() and d_.rv.a.place.local == l and d_.rv.b.const_int() == 2:
                pos = l
            # with overflow checks the sum goes through a (value, flag) temporary: `_t = AddWithOverflow(pos, 2); assert; pos = move (_t.0)`
            if k_ == 'stmt' and d_.rv.k == 'use' and d_.rv.a.is_place() and d_.rv.a.place.proj:
                src_l = d_.rv.a.place.local
                for k2, d2 in cxd.full_defs(src_l):
                    if k2 == 'stmt' and d2.rv.k == 'bin' and d2.rv.a.is_place() and d2.rv.a.place.local == l and d2.rv.b.const_int() == 2:
                        pos = l
    adv = []
    if pos is not None:
        for k, d in cxd.full_defs(pos):
            e = cxd.expr_rvalue(d.rv) if k == 'stmt' else cxd.expr_call(d)
            adv.append(key(e))
    ob.check(any(a.endswith('Add 2)') for a in adv) and len(adv) == 3, 'delta_decode|advance', 'the reader advances by the 2 prefix bytes and by the payload length',
             'pos is updated as %s' % adv, where(dec))
    # XOR against base over zip(base, input) in both
    for f, cx, nm in ((enc, cxe, 'delta_encode'), (dec, cxd, 'delta_decode')):
        z = [t for t in f.calls() if last_seg(t.callee.best) == 'zip']
        x = [t for t in f.calls() if last_seg(t.callee.best) in ('bitxor', 'bitxor_assign')]
        okz = False
        for t in z:
            ks = sorted(key(cx.expr_operand(a)) for a in t.args)
            bl2 = _base_local(W, f)
            okz = any('base' in k for k in ks) or (bl2 is not None and any(k.endswith('#%d' % bl2) or ('#%d)' % bl2) in k or ('#%d,' % bl2) in k or ('#%d[' % bl2) in k for k in ks))
        ob.check(len(z) == 1 and len(x) == 1 and okz, '%s|xor-zip-base' % nm, '%s XORs the input with the base element-wise' % nm,
                 '%s: zip sites=%d xor sites=%d zip-with-base=%s' % (nm, len(z), len(x), okz), where(f))
    # both reset the base to the plain (decoded) input in every iteration
    for f, nm in ((enc, 'delta_encode'), (dec, 'delta_decode')):
        ok, why = loop_updates(W, f, 'base')
        ob.check(bool(ok), '%s|base-reset-every-iteration' % nm, '%s resets the base to the plain input on every iteration' % nm,
                 '%s: %s -- writer and reader would use different bases for the next input' % (nm, why), where(f))
    # the value the base is set to: encode -> the input item; decode -> the very buffer that is pushed to the output
    def base_sources(f, cx):
        bl_ = _base_local(W, f)
        base = [bl_] if bl_ is not None else []
        out = []
        if base:
            G = W.guards(f)
            body = max(G.loops(), key=len) if G.loops() else set()
            for k, d in cx.full_defs(base[0]):
                if d.bb in body:
                    op = d.rv.a if k == 'stmt' else None
                    src = trace_back(W, f, op, strict=True) if op is not None else ('call', d)
                    out.append(src)
        return out
    se = base_sources(enc, cxe)
    ok = bool(se) and all(x and x[0] == 'call' and last_seg(x[1].callee.best) == 'to_vec' and
                          key(cxe.expr_operand(x[1].args[0])).startswith('arg2[') for x in se)
    ob.check(ok, 'delta_encode|base-value', 'the writer\'s next base is the plain input it just encoded',
             'delta_encode sets the base from %s' % [repr(x)[:80] for x in se], where(enc))
    sd = base_sources(dec, cxd)
    pushes = [t for t in dec.calls() if last_seg(t.callee.best) == 'push']
    ok = False
    if sd and len(pushes) == 1 and all(x and x[0] == 'call' and last_seg(x[1].callee.best) == 'clone' for x in sd):
        pl = trace_back(W, dec, pushes[0].args[1], strict=True)
        for x in sd:
            cl = trace_back(W, dec, x[1].args[0], strict=True)
            ok = bool(pl) and bool(cl) and pl[0] == cl[0] == 'call' and pl[1] is cl[1] or \
                (bool(pl) and bool(cl) and pl[0] == 'place' and cl[0] == 'place' and pl[1].local == cl[1].local)
    ob.check(ok, 'delta_decode|base-value', 'the reader\'s next base is the decoded input it outputs',
             'delta_decode does not set the base to the decoded buffer it pushes to the output', where(dec))
    # the tail beyond the base is copied as is (encode); decode copies the whole slice first
    # layer order
    e = W.fn(COMP + '::encode')
    d = W.fn(COMP + '::decode')
    re_ = [t for t in e.calls() if callee_matches(t.callee, 'bitfield_rle::encode')]
    ok = False
    for t in re_:
        src = trace_back(W, e, t.args[0])
        ok = bool(src) and src[0] == 'call' and callee_matches(src[1].callee, COMP + '::delta_encode')
    ob.check(ok and len(re_) == 1, 'encode|layer-order', 'encode = RLE(delta(inputs))', 'encode does not apply delta encoding and then the run-length layer', where(e))
    dd = [t for t in d.calls() if callee_matches(t.callee, COMP + '::delta_decode')]
    ok = False
    for t in dd:
        src = trace_back(W, d, t.args[1], through={'branch'})
        ok = bool(src) and src[0] == 'call' and callee_matches(src[1].callee, COMP + '::rle_decode')
        r0 = key(W.ctx(d).expr_operand(t.args[0]))
        ok = ok and r0 == 'arg1'
    ob.check(ok and len(dd) == 1, 'decode|layer-order', 'decode = delta^-1(RLE^-1(bytes)) against the same reference',
             'decode does not undo the run-length layer first and then the delta layer against the reference', where(d))
    for t in [t for t in e.calls() if callee_matches(t.callee, COMP + '::delta_encode')]:
        r0 = key(W.ctx(e).expr_operand(t.args[0]))
        ob.check(r0 == 'arg1', 'encode|reference', 'encode deltas against the reference', 'delta_encode receives `%s` as reference' % r0, where(e, t.line))
        r1 = key(W.ctx(e).expr_operand(t.args[1]))
        ob.check(r1 == 'arg2', 'encode|whole-sequence', 'encode hands the whole input sequence to the delta layer',
                 'delta_encode receives `%s`, not the input sequence as given (inputs are dropped or reordered before encoding)' % r1[:120], where(e, t.line))
    # no adaptor that drops, repeats or reorders elements anywhere in the codec
    LOSSY = {'take', 'skip', 'step_by', 'filter', 'filter_map', 'take_while', 'skip_while', 'rev', 'chain', 'cycle', 'dedup', 'truncate', 'nth', 'last',
             'map_while', 'skip_last', 'split_off', 'drain', 'retain', 'pop', 'remove', 'swap_remove', 'clear', 'sort', 'sort_unstable', 'reverse'}
    for nm in ('encode', 'delta_encode', 'decode', 'delta_decode'):
        f = W.fn(COMP + '::' + nm)
        bad = [t for g in [f] + W.closures_of(f) for t in g.calls() if last_seg(t.callee.best) in LOSSY]
        ob.check(not bad, '%s|no-lossy-adaptor' % nm, '%s applies no element-dropping or reordering operation' % nm,
                 '%s calls %s: elements of the sequence are dropped, repeated or reordered' % (nm, sorted({last_seg(t.callee.best) for t in bad})),
                 where(f, bad[0].line if bad else None))
    # the writer's loop runs over exactly the sequence it was given
    nx = [t for t in enc.calls() if last_seg(t.callee.best) == 'next']
    outer = [t for t in nx if key(cxe.expr_operand(t.args[0])) in ('arg2', 'IntoIterator::into_iter(arg2)', 'into_iter(arg2)')]
    ob.check(len(outer) == 1, 'delta_encode|iterates-input', 'delta_encode\'s outer loop pulls from the sequence it was given',
             'delta_encode has %d `next` call(s) on its input sequence' % len(outer), where(enc))


def o3(W, ob):
    r = W.fn(COMP + '::rle_decode')
    G = W.guards(r)
    cx = W.ctx(r)
    cap = W.const('MAX_DECODED_LEN')
    ob.check(0 < cap <= 129 * (65535 + 2), 'MAX_DECODED_LEN', 'the decoded-length cap is %d bytes (<= 129 inputs of 65535 bytes with their prefixes)' % cap,
             'MAX_DECODED_LEN = %d exceeds what a legitimate packet can contain' % cap, None)
    grow = [t for t in r.calls() if last_seg(t.callee.best) in ('resize', 'extend_from_slice', 'push', 'extend', 'reserve', 'with_capacity', 'from_elem', 'append')]
    ob.require_count(len(grow), 2, 'growth sites of the decoded buffer')
    for t in grow:
        g = G.stable_guard(t.bb)
        ok = every_disjunct_has(g, lambda a: a[0] == 'lin' and a[3] is not None and a[3] <= cap and any('len(' in k for k, _ in a[1]) and len(a[1]) == 2
                                or (a[0] == 'lin' and a[2] is not None and -a[2] <= cap and a[3] is None and any('len(' in k for k, _ in a[1]) and len(a[1]) == 2))
        ob.check(ok, 'rle_decode|cap-before-grow|%s' % last_seg(t.callee.best), 'growth by %s happens only after the new total length was compared with MAX_DECODED_LEN' % last_seg(t.callee.best),
                 'the decoded buffer grows (%s) without a dominating comparison of the new length with the cap: %s' % (last_seg(t.callee.best), dnf_str(g)[:300]),
                 where(r, t.line))
    # the delta layer allocates at most what it was given
    d = W.fn(COMP + '::delta_decode')
    alloc = [t for t in d.calls() if last_seg(t.callee.best) in ('with_capacity', 'resize', 'from_elem', 'reserve', 'repeat')]
    ob.check(not alloc, 'delta_decode|no-sized-allocation', 'delta_decode allocates only copies of slices of its input', 'delta_decode allocates by a computed size', where(d))


def _mask_atom(a):
    """(mask, is_set) for a guard atom that tests one bit of the run header: (v & m) != 0 / == 0 / == m, ((v >> s) & 1) == 1 / != 0 / == 0"""
    import re
    if a[0] not in ('lin', 'ne') or len(a[1]) != 1 or a[1][0][1] not in (1, -1):
        return None
    k, c = a[1][0]
    m = re.match(r'^\((\S+) BitAnd (\d+)\)$', k)
    m2 = re.match(r'^\(\((\S+) Shr (\d+)\) BitAnd 1\)$', k)
    if m:
        mask = int(m.group(2))
    elif m2:
        mask = 1 << int(m2.group(2))
    else:
        return None
    top = mask if m else 1
    if a[0] == 'ne':
        v = a[2] * c
        if v == 0:
            return (mask, True)
        if v == top:
            return (mask, False)
        return None
    lo, hi = a[2], a[3]
    if c == -1:
        lo, hi = (None if hi is None else -hi), (None if lo is None else -lo)
    if lo == hi == 0:
        return (mask, False)
    if lo == hi == top:
        return (mask, True)
    if lo is not None and lo >= 1 and (hi is None or hi >= top):
        return (mask, True)
    return None


def _bit_conditions(g):
    """the header-bit tests every disjunct of a guard contains: set of (mask, is_set)"""
    out = None
    for c in g:
        s = set(x for x in (_mask_atom(a) for a in c) if x)
        out = s if out is None else out & s
    return out or set()


def o4(W, ob):
    """the run-length layer: ggrs reads with its own total decoder what the dependency bitfield_rle writes"""
    import re
    wc = W.fn('bitfield_rle::write_contiguous')
    wn = W.fn('bitfield_rle::write_noncontiguous')

    def header_ops(f):
        cx, G = W.ctx(f), W.guards(f)
        enc = [t for t in f.calls() if callee_matches(t.callee, 'varinteger::encode')]
        if len(enc) != 1 or not enc[0].args[0].is_place():
            raise AnchorMissing('%s: the one varint::encode call' % f.path)
        ops = []
        loc = enc[0].args[0].place.local
        for _ in range(4):   # through by-value copies into the argument temporary
            ds = list(cx.full_defs(loc))
            if len(ds) == 1 and ds[0][0] == 'stmt' and ds[0][1].rv.k == 'use' and ds[0][1].rv.a.is_place() and not ds[0][1].rv.a.place.proj:
                loc = ds[0][1].rv.a.place.local
            else:
                break
        for k, d in cx.full_defs(loc):
            if k != 'stmt':
                continue
            e = cx.expr_rvalue(d.rv)
            if e[0] == 'bin' and e[1] in ('Shl', 'Add', 'BitOr') and e[3][0] == 'int':
                ops.append((e[1], int(e[3][1]), G.guard(d.bb)))
        return ops
    oc, on = header_ops(wc), header_ops(wn)
    shl_run = [v for o, v, g in oc if o == 'Shl']
    flags = [(v, g) for o, v, g in oc if o in ('Add', 'BitOr')]
    shl_lit = [v for o, v, g in on if o == 'Shl']
    lit_flags = [v for o, v, g in on if o in ('Add', 'BitOr')]
    uncond = [v for v, g in flags if g == [[]]]
    cond = [(v, g) for v, g in flags if g != [[]]]
    ok_w = len(shl_run) == 1 and len(shl_lit) == 1 and len(uncond) == 1 and len(cond) == 1 and not lit_flags
    ones_byte = None
    if ok_w:
        g = cond[0][1]
        if len(g) == 1 and len(g[0]) == 1 and g[0][0][0] == 'lin' and g[0][0][2] == g[0][0][3] and len(g[0][0][1]) == 1:
            ones_byte = g[0][0][2] * g[0][0][1][0][1]
    ob.check(ok_w and ones_byte is not None, 'bitfield_rle|writer-table', 'writer (bitfield_rle %s): run header = len << %s | %s, | %s when the byte is %s; literal header = len << %s'
             % ('as locked', shl_run, uncond, [v for v, _ in cond], ones_byte, shl_lit),
             'the header layout written by bitfield_rle could not be read from its MIR: %s / %s' % ([(o, v) for o, v, _ in oc], [(o, v) for o, v, _ in on]), where(wc))
    if not (ok_w and ones_byte is not None):
        return
    run_flag, ones_flag = uncond[0], cond[0][0]
    # the writer only makes runs of 0x00 and of the `ones` byte
    # reader
    r = W.fn(COMP + '::rle_decode')
    cx, G = W.ctx(r), W.guards(r)
    rs = [t for t in r.calls() if last_seg(t.callee.best) == 'resize']
    ex = [t for t in r.calls() if last_seg(t.callee.best) == 'extend_from_slice']
    if len(rs) != 1 or len(ex) != 1:
        raise AnchorMissing('rle_decode: one resize (run) and one extend_from_slice (literal)')
    bc_run = _bit_conditions(G.guard(rs[0].bb))
    bc_lit = _bit_conditions(G.guard(ex[0].bb))
    ob.check((run_flag, True) in bc_run and (run_flag, False) in bc_lit, 'rle_decode|run-flag', 'the reader takes a header with bit %d set as a run, clear as literal bytes' % run_flag,
             'rle_decode does not tell runs from literals by header bit %d as bitfield_rle writes it (run under %s, literal under %s)' % (run_flag, sorted(bc_run), sorted(bc_lit)), where(r, rs[0].line))
    # length shifts: the count that reaches resize / get(..len) is value >> shl under the respective flag
    shifts = {}
    for l in range(len(r.locals)):
        for k, d in cx.full_defs(l):
            if k != 'stmt':
                continue
            e = cx.expr_rvalue(d.rv)
            if e[0] == 'bin' and e[1] == 'Shr' and e[3][0] == 'int':
                # a shift that only feeds a bit test ((v >> s) & 1) is not the length
                uses = [s2 for s2 in r.stmts() if s2.k == 'assign' and any(o.is_place() and o.place.local == l for o in s2.rv.operands())]
                if uses and all(u.rv.k == 'bin' and u.rv.op == 'BitAnd' for u in uses):
                    continue
                bc = _bit_conditions(G.guard(d.bb))
                for m, st in bc:
                    if m == run_flag:
                        shifts.setdefault(st, set()).add(int(e[3][1]))
    ob.check(shifts.get(True) == {shl_run[0]} and shifts.get(False) == {shl_lit[0]}, 'rle_decode|length-shift',
             'the reader takes the length as header >> %d for a run and header >> %d for literal bytes' % (shl_run[0], shl_lit[0]),
             'rle_decode shifts the header by %s (run) / %s (literal); the writer shifted by %d / %d' % (sorted(shifts.get(True, [])), sorted(shifts.get(False, [])), shl_run[0], shl_lit[0]), where(r))
    # fill byte
    fill = rs[0].args[2]
    alts = []
    if fill.is_place():
        loc = fill.place.local
        for _ in range(4):
            ds = list(cx.full_defs(loc))
            if len(ds) == 1 and ds[0][0] == 'stmt' and ds[0][1].rv.k == 'use' and ds[0][1].rv.a.is_place() and not ds[0][1].rv.a.place.proj:
                loc = ds[0][1].rv.a.place.local
            else:
                break
        pd = G.phi_defs(loc)
        if pd:
            alts = [(key(v), _bit_conditions(G.guard(b))) for b, v in pd]
        else:
            defs = [(k, d) for k, d in cx.full_defs(loc) if k == 'stmt']
            alts = [(key(cx.expr_rvalue(d.rv)), _bit_conditions(G.guard(d.bb))) for k, d in defs]
    else:
        alts = [(key(cx.expr_operand(fill)), set())]
    ok = len(alts) == 2 and any(v == str(ones_byte) and (ones_flag, True) in bc for v, bc in alts) and any(v == '0' and (ones_flag, False) in bc for v, bc in alts)
    ob.check(ok, 'rle_decode|fill-byte', 'a run is filled with %d when header bit %d is set and with 0 otherwise' % (ones_byte, ones_flag),
             'rle_decode fills a run with %s; bitfield_rle sets header bit %d for runs of byte %d and clears it for runs of 0' % (alts, ones_flag, ones_byte), where(r, rs[0].line))
    # the count handed to resize is the run length on top of the current length
    a1 = key(cx.expr_operand(rs[0].args[1]))
    ob.check(a1.startswith('(len(') and ' Add ' in a1, 'rle_decode|run-length', 'a run appends `len` bytes (resize to current length + len)',
             'rle_decode resizes to `%s`' % a1[:120], where(r, rs[0].line))
    def _const_value(x):
        if x[0] == 'int':
            return int(x[1])
        if x[0] == 'cst' and len(x) > 2 and isinstance(x[2], int):
            return x[2]
        return None
    # varint: seven bits per byte, continuation on bit 7 -- agreement with varinteger::encode
    ve = W.fn('varinteger::encode_with_offset')
    cxe = W.ctx(ve)
    consts_w = set()
    for s_ in ve.stmts():
        if s_.k == 'assign' and s_.rv.k == 'bin':
            e = cxe.expr_rvalue(s_.rv)
            if e[0] == 'bin' and e[3][0] == 'int' and e[1] in ('BitAnd', 'BitOr', 'Shr', 'Ge', 'Gt'):
                consts_w.add((e[1], int(e[3][1])))
    consts_r = set()
    for s_ in r.stmts():
        if s_.k == 'assign' and s_.rv.k == 'bin':
            e = cx.expr_rvalue(s_.rv)
            cv = _const_value(e[3]) if e[0] == 'bin' else None      # a literal or a named constant (`const VARINT_PAYLOAD_MASK: u8 = 127`)
            if cv in (127, 128, 7):
                consts_r.add((e[1].replace('WithOverflow', '').replace('Unchecked', ''), cv))
    w_ok = ('Shr', 7) in consts_w and ('BitOr', 128) in consts_w and (('Gt', 127) in consts_w or ('Ge', 128) in consts_w)
    r_ok = {('BitAnd', 127), ('BitAnd', 128), ('Add', 7)} <= consts_r
    ob.check(w_ok and r_ok, 'rle_decode|varint', 'varint groups: 7 bits per byte, least significant first, bit 7 = continuation, on both sides',
             'varint layout differs: writer constants %s, reader constants %s' % (sorted(consts_w), sorted(consts_r)), where(r))


SCALARS = {'u8', 'u16', 'u32', 'u64', 'u128', 'usize', 'i8', 'i16', 'i32', 'i64', 'i128', 'isize', 'bool', 'char'}


def o5(W, ob):
    """record-local state: the codec loops handle one record (one varint-prefixed token, one length-prefixed input) per iteration; the only
    things that may survive from one record to the next are the buffers / iterators and a position in the input"""
    import re
    from . import liveness
    from .facts import Operand
    n = 0
    for nm in ('rle_decode', 'delta_decode', 'delta_encode'):
        f = W.fn(COMP + '::' + nm)
        cx = W.ctx(f)
        loops = W.guards(f).loop_by_header()
        outer = [(h, body) for h, body in loops.items() if not any(h2 != h and h in b2 for h2, b2 in loops.items())]
        ob.check(len(outer) >= 1, '%s|record-loop' % nm, '%s has a record loop' % nm, '%s has no loop: cannot establish the record-local-state rule' % nm, where(f))
        # expressions used as positions into a sequence
        pos_keys = []
        for b in f.blocks:
            if b.cleanup:
                continue
            t = b.term
            if t.k == 'assert' and t.msg['kind'] == 'BoundsCheck':
                pos_keys.append(key(cx.expr_operand(Operand(t.msg['index']))))
            elif t.k == 'call' and t.callee.indirect is None and last_seg(t.callee.best) in ('index', 'index_mut', 'get', 'get_mut', 'split_at', 'nth') and len(t.args) >= 2:
                pos_keys.append(key(cx.expr_operand(t.args[1])))
        for h, body in outer:
            for l in liveness.carried(f, h, body):
                ty = f.local_ty(l) or ''
                name = f.local_name(l) or ('_%d' % l)
                if ty not in SCALARS:
                    n += 1
                    ob.ok('%s: `%s` (%s) is carried from record to record (buffer / iterator / reference input)' % (nm, name, ty[:50]), where(f, f.blocks[h].term.line))
                    continue
                is_pos = any(re.search(r'(?:^|[^A-Za-z0-9_])\w*#%d(?![0-9])' % l, k) for k in pos_keys)
                n += 1
                if not is_pos:
                    ctl, use = liveness.control_only(f, l)
                    if ctl:
                        ob.ok('%s: the scalar `%s` carried from record to record only feeds comparisons and its own update (a budget / counter)' % (nm, name), where(f, f.blocks[h].term.line))
                        continue
                ob.check(is_pos, '%s|carried-scalar|%s' % (nm, name), '%s: the scalar `%s` carried from record to record is a position in the input' % (nm, name),
                         '%s: the scalar `%s` (%s) keeps its value from one record to the next and is not a position in the input: the decoding of a record '
                         'depends on the records before it (initialise it inside the record loop)' % (nm, name, ty), where(f, f.blocks[h].term.line))
    ob.require_count(n, 7, 'values carried between records in the codec loops')


from . import casts

from . import mustcall

from . import vocab


from . import inventory

OBLIGATIONS = [
    ('C14.O1', 'totality of decode', 'no open panic-capable site and no unreviewed external callee in the call-graph closure of '
     'compression::decode; every site is discharged by analysis (no review entries): every byte string yields Ok or Err.', o1),
    ('C14.O2', 'writer/reader agreement', 'delta_encode writes a u16 little-endian length, delta_decode reads 2 bytes and advances by 2 + len; '
     'both XOR over zip(base, input) and reset the base to the plain input on every iteration; encode = RLE(delta), decode = delta^-1(RLE^-1) '
     'against the same reference.', o2),
    ('C14.O3', 'allocation bound', 'every growth of the RLE-decoded buffer is dominated by a comparison of the new length with the constant '
     'MAX_DECODED_LEN; delta_decode makes no sized allocation.', o3),
    ('C14.O4', 'run-length layer: reader table = writer table', 'the header layout bitfield_rle writes (read from the dependency\'s typed MIR: run = len << 2 | 1, '
     '| 2 for runs of 0xFF; literal = len << 1; varint groups of 7 bits) is the one rle_decode reads: same flag bits, same shifts, fill byte 0xFF/0x00 '
     'under the same bit, run appended to the current length.', o4, {'deps': True}),
    ('C14.O5', 'record-local state', 'each codec loop (rle_decode, delta_decode, delta_encode) handles one record per iteration; loop-carried-state analysis (liveness at the loop header) shows that only buffers, iterators, the reference input and a position in the input survive from one record to the next (a scalar that feeds nothing but comparisons and its own update -- a budget -- is allowed): no scalar accumulator (varint shift, value, flag) leaks into the next record.', o5),
    ('C14.C', 'lossy integer casts', 'every sign-changing cast (signed -> unsigned; NULL_FRAME is -1) and every narrowing cast to < 32 bits or from 128 bits in the crate is in range by a dominating guard, by the shape of its operand, or listed with a reason in tables/casts.json; see rules/casts.py', casts.rule),
    ('C14.M', 'must-call floor', 'the calls listed for this property in tables/must_call.json are made on every path from the entry of their function to a normal return (interprocedural must-call): a new early return, fast path or extra condition in front of one of them is reported; see rules/mustcall.py', mustcall.rule_for('C14')),
    ('C14.V', 'no unreviewed condition in the pinned helpers', 'for each helper whose body this property\'s rules pin (tables/condition_terms.json), the terms its path conditions are built from (fields, parameters, call results -- no constants, operators or local names) are a subset of the reviewed vocabulary: one more `if` in front of a pinned result (a lock that may time out, "only while an endpoint is running") is reported; see rules/vocab.py', vocab.rule_for('C14')),
    ('C14.K', 'call inventory', 'every reviewed call of a function that writes state (tables/call_edges.json, callers in the structs this property\'s rules read) is still made, directly or through helpers: a call deleted as redundant is reported; likewise the arguments of logging / debug-only macros change no state, no unreviewed call of a state-writing function appears (tables/call_edges_all.json), the types of the locals a loop carries from one iteration to the next (tables/carried.json) and, per function and field, how reads and writes of the field are ordered (tables/orders.json: a snapshot taken before instead of after an update) are as reviewed; see rules/inventory.py', inventory.call_rule_for('C14')),
    ('C14.A', 'expression inventory', 'every arithmetic expression handed to a call or stored in a field, and what every closure given to an iterator adaptor / collection method returns, is one of the reviewed expressions of its function (tables/expressions.json; linear / guard normal forms, no local names): a changed literal, operator, operand order, factor, predicate or sort key is reported; see rules/inventory.py', inventory.expr_rule_for('C14')),
    ('C14.Z', inventory.CONST_TITLE, inventory.CONST_TEXT, inventory.const_rule_for('C14')),
]
