"""C14 -- the codec round-trips and decodes total (structural part)."""
from .lib import *
from .cfg import cfg_of, callee_matches
from .sem import key, dnf_str, Guards
from . import c01, panics

LEVEL = 'other'
EXPLANATION = ('Static rule checking: totality of compression::decode (panic-capable-site inventory over its call-graph closure: '
               'every site discharged by a stable dominating guard, no review entries, every external callee in the reviewed totality '
               'table), agreement of the writer (delta_encode) and the reader (delta_decode) on the 2-byte little-endian length prefix, '
               'XOR against a base that both reset to the plain input on every iteration, layer order, and a constant cap on the decoded '
               'length before allocation. Round-trip equality over all (reference, sequence) pairs is NOT decided.')
NOT_DECIDED = ['round-trip equality for all (reference, input sequence) pairs (value level)']
ASSUMPTIONS = c01.ASSUMPTIONS + ['tables/std_total.json: the listed external callees are total']

COMP = 'network::compression'


def o1(W, ob):
    d = W.fn(COMP + '::decode')
    std, reviewed, invs = panics.load_tables()
    fns = panics.closure_fns(W, [d])
    inv = panics.inventory(W, fns)
    ob.require_count(len(inv), 4, 'panic-capable sites in the closure of decode')
    ob.require_count(len(fns), 3, 'functions in the closure of decode')
    for s in inv:
        k = panics.site_key(W, s)
        how, why = panics.discharge(W, s)
        ob.check(how is not None, 'decode|open-panic-site|%s|%s|%s' % k, '%s %s %s discharged by %s: %s' % (k[0], k[1], k[2], how, (why or '')[:160]),
                 'open panic-capable site in the closure of decode: %s in %s (%s) -- %s' % (k[1], k[0], k[2], why), panics.where_(s))
    ext = panics.external_callees(W, fns)
    for p, uses in sorted(ext.items()):
        f, t = uses[0]
        ob.check(p in std['total'] or p in std['site'] or panics.external_default_total(t.callee), 'decode|unreviewed-external|%s' % p, 'external callee %s is reviewed / a total std function' % p,
                 'decode reaches `%s`, which is not in the reviewed totality table: any byte string must yield Ok or Err' % p,
                 '%s:%d (%s)' % (f.file, t.line, panics.short_fn(f)))
    # every `?`/return of the closure yields a Result: no unwrap on the decode path (covered by the inventory); loops terminate:
    # each loop consumes input: the slice iterator / pos advance is checked below (O2)


def loop_updates(W, f, var_name):
    """for the single `for` loop over the inputs in f: do all paths of an iteration assign `var_name`?"""
    cx = W.ctx(f)
    cfg = cfg_of(f)
    G = W.guards(f)
    var = None
    for l in range(len(f.locals)):
        if f.local_name(l) == var_name:
            var = l
    if var is None:
        return None, 'no local named %s' % var_name
    defs = [d.bb for k, d in cx.full_defs(var)]
    loops = G.loops()
    if not loops:
        return None, 'no loop'
    # outermost loop = the largest body
    header, body = max(G.loop_by_header().items(), key=lambda kv: len(kv[1]))
    latches = [n for (n, h) in G._back if h == header]
    inside = [b for b in defs if b in body]
    if not inside:
        return False, 'no assignment of `%s` inside the loop' % var_name
    # every path header -> latch (within the body) passes an assignment, unless it leaves the function
    for latch in latches:
        if latch in inside:
            continue
        p = cfg.path_avoiding([latch], inside, start=header)
        if p is not None and all(x in body for x in p):
            return False, 'an iteration can complete without assigning `%s`: %s' % (var_name, ' -> '.join('bb%d' % x for x in p))
    return True, ''


def o2(W, ob):
    enc = W.fn(COMP + '::delta_encode')
    dec = W.fn(COMP + '::delta_decode')
    cxe, cxd = W.ctx(enc), W.ctx(dec)
    # length prefix: writer
    tl = [t for t in enc.calls() if last_seg(t.callee.best) == 'to_le_bytes']
    ob.require_count(len(tl), 1, 'to_le_bytes in delta_encode')
    for t in tl:
        ty = t.arg_tys[0] if t.arg_tys else '?'
        a = key(cxe.expr_operand(t.args[0]))
        ob.check(ty == 'u16' and a.startswith('len('), 'delta_encode|length-prefix', 'the writer emits the input length as 2 little-endian bytes (u16)',
                 'delta_encode writes `%s` as %s::to_le_bytes' % (a, ty), where(enc, t.line))
    fl = [t for t in dec.calls() if last_seg(t.callee.best) == 'from_le_bytes']
    ob.require_count(len(fl), 1, 'from_le_bytes in delta_decode')
    for t in fl:
        ty = t.arg_tys[0] if t.arg_tys else '?'
        a = cxd.expr_operand(t.args[0])
        ks = key(a)
        ok = ty == '[u8; 2]' and a[0] == 'agg' and len(a[2]) == 2
        if ok:
            i0, i1 = key(a[2][0][1]), key(a[2][1][1])
            ok = i0.startswith('arg2[') and i1.startswith('arg2[') and 'Add 1' in i1
        ob.check(ok, 'delta_decode|length-prefix', 'the reader takes the length from 2 consecutive little-endian bytes',
                 'delta_decode reads the length as %s::from_le_bytes(%s)' % (ty, ks[:100]), where(dec, t.line))
    # pos advances by 2 and by len
    pos = None
    for l in range(len(dec.locals)):
        if dec.local_name(l) == 'pos':
            pos = l
    adv = []
    if pos is not None:
        for k, d in cxd.full_defs(pos):
            e = cxd.expr_rvalue(d.rv) if k == 'stmt' else cxd.expr_call(d)
            adv.append(key(e))
    ob.check(any(a.endswith('Add 2)') for a in adv) and len(adv) == 3, 'delta_decode|advance', 'the reader advances by the 2 prefix bytes and by the payload length',
             'pos is updated as %s' % adv, where(dec))
    # XOR against base over zip(base, input) in both
    for f, cx, nm in ((enc, cxe, 'delta_encode'), (dec, cxd, 'delta_decode')):
        z = [t for t in f.calls() if last_seg(t.callee.best) == 'zip']
        x = [t for t in f.calls() if last_seg(t.callee.best) in ('bitxor', 'bitxor_assign')]
        okz = False
        for t in z:
            ks = sorted(key(cx.expr_operand(a)) for a in t.args)
            okz = any('base' in k for k in ks)
        ob.check(len(z) == 1 and len(x) == 1 and okz, '%s|xor-zip-base' % nm, '%s XORs the input with the base element-wise' % nm,
                 '%s: zip sites=%d xor sites=%d zip-with-base=%s' % (nm, len(z), len(x), okz), where(f))
    # both reset the base to the plain (decoded) input in every iteration
    for f, nm in ((enc, 'delta_encode'), (dec, 'delta_decode')):
        ok, why = loop_updates(W, f, 'base')
        ob.check(bool(ok), '%s|base-reset-every-iteration' % nm, '%s resets the base to the plain input on every iteration' % nm,
                 '%s: %s -- writer and reader would use different bases for the next input' % (nm, why), where(f))
    # the value the base is set to: encode -> the input item; decode -> the very buffer that is pushed to the output
    def base_sources(f, cx):
        base = [l for l in range(len(f.locals)) if f.local_name(l) == 'base']
        out = []
        if base:
            G = W.guards(f)
            body = max(G.loops(), key=len) if G.loops() else set()
            for k, d in cx.full_defs(base[0]):
                if d.bb in body:
                    op = d.rv.a if k == 'stmt' else None
                    src = trace_back(W, f, op, strict=True) if op is not None else ('call', d)
                    out.append(src)
        return out
    se = base_sources(enc, cxe)
    ok = bool(se) and all(x and x[0] == 'call' and last_seg(x[1].callee.best) == 'to_vec' and
                          key(cxe.expr_operand(x[1].args[0])).startswith('arg2[') for x in se)
    ob.check(ok, 'delta_encode|base-value', 'the writer\'s next base is the plain input it just encoded',
             'delta_encode sets the base from %s' % [repr(x)[:80] for x in se], where(enc))
    sd = base_sources(dec, cxd)
    pushes = [t for t in dec.calls() if last_seg(t.callee.best) == 'push']
    ok = False
    if sd and len(pushes) == 1 and all(x and x[0] == 'call' and last_seg(x[1].callee.best) == 'clone' for x in sd):
        pl = trace_back(W, dec, pushes[0].args[1], strict=True)
        for x in sd:
            cl = trace_back(W, dec, x[1].args[0], strict=True)
            ok = bool(pl) and bool(cl) and pl[0] == cl[0] == 'call' and pl[1] is cl[1] or \
                (bool(pl) and bool(cl) and pl[0] == 'place' and cl[0] == 'place' and pl[1].local == cl[1].local)
    ob.check(ok, 'delta_decode|base-value', 'the reader\'s next base is the decoded input it outputs',
             'delta_decode does not set the base to the decoded buffer it pushes to the output', where(dec))
    # the tail beyond the base is copied as is (encode); decode copies the whole slice first
    # layer order
    e = W.fn(COMP + '::encode')
    d = W.fn(COMP + '::decode')
    re_ = [t for t in e.calls() if callee_matches(t.callee, 'bitfield_rle::encode')]
    ok = False
    for t in re_:
        src = trace_back(W, e, t.args[0])
        ok = bool(src) and src[0] == 'call' and callee_matches(src[1].callee, COMP + '::delta_encode')
    ob.check(ok and len(re_) == 1, 'encode|layer-order', 'encode = RLE(delta(inputs))', 'encode does not apply delta encoding and then the run-length layer', where(e))
    dd = [t for t in d.calls() if callee_matches(t.callee, COMP + '::delta_decode')]
    ok = False
    for t in dd:
        src = trace_back(W, d, t.args[1], through={'branch'})
        ok = bool(src) and src[0] == 'call' and callee_matches(src[1].callee, COMP + '::rle_decode')
        r0 = key(W.ctx(d).expr_operand(t.args[0]))
        ok = ok and r0 == 'arg1'
    ob.check(ok and len(dd) == 1, 'decode|layer-order', 'decode = delta^-1(RLE^-1(bytes)) against the same reference',
             'decode does not undo the run-length layer first and then the delta layer against the reference', where(d))
    for t in [t for t in e.calls() if callee_matches(t.callee, COMP + '::delta_encode')]:
        r0 = key(W.ctx(e).expr_operand(t.args[0]))
        ob.check(r0 == 'arg1', 'encode|reference', 'encode deltas against the reference', 'delta_encode receives `%s` as reference' % r0, where(e, t.line))


def o3(W, ob):
    r = W.fn(COMP + '::rle_decode')
    G = W.guards(r)
    cx = W.ctx(r)
    cap = W.const('MAX_DECODED_LEN')
    ob.check(0 < cap <= 129 * (65535 + 2), 'MAX_DECODED_LEN', 'the decoded-length cap is %d bytes (<= 129 inputs of 65535 bytes with their prefixes)' % cap,
             'MAX_DECODED_LEN = %d exceeds what a legitimate packet can contain' % cap, None)
    grow = [t for t in r.calls() if last_seg(t.callee.best) in ('resize', 'extend_from_slice', 'push', 'extend', 'reserve', 'with_capacity', 'from_elem', 'append')]
    ob.require_count(len(grow), 2, 'growth sites of the decoded buffer')
    for t in grow:
        g = G.stable_guard(t.bb)
        ok = every_disjunct_has(g, lambda a: a[0] == 'lin' and a[3] is not None and a[3] <= cap and any('len(' in k for k, _ in a[1]) and len(a[1]) == 2
                                or (a[0] == 'lin' and a[2] is not None and -a[2] <= cap and a[3] is None and any('len(' in k for k, _ in a[1]) and len(a[1]) == 2))
        ob.check(ok, 'rle_decode|cap-before-grow|%s' % last_seg(t.callee.best), 'growth by %s happens only after the new total length was compared with MAX_DECODED_LEN' % last_seg(t.callee.best),
                 'the decoded buffer grows (%s) without a dominating comparison of the new length with the cap: %s' % (last_seg(t.callee.best), dnf_str(g)[:300]),
                 where(r, t.line))
    # the delta layer allocates at most what it was given
    d = W.fn(COMP + '::delta_decode')
    alloc = [t for t in d.calls() if last_seg(t.callee.best) in ('with_capacity', 'resize', 'from_elem', 'reserve', 'repeat')]
    ob.check(not alloc, 'delta_decode|no-sized-allocation', 'delta_decode allocates only copies of slices of its input', 'delta_decode allocates by a computed size', where(d))


OBLIGATIONS = [
    ('C14.O1', 'totality of decode', 'no open panic-capable site and no unreviewed external callee in the call-graph closure of '
     'compression::decode; every site is discharged by analysis (no review entries): every byte string yields Ok or Err.', o1),
    ('C14.O2', 'writer/reader agreement', 'delta_encode writes a u16 little-endian length, delta_decode reads 2 bytes and advances by 2 + len; '
     'both XOR over zip(base, input) and reset the base to the plain input on every iteration; encode = RLE(delta), decode = delta^-1(RLE^-1) '
     'against the same reference.', o2),
    ('C14.O3', 'allocation bound', 'every growth of the RLE-decoded buffer is dominated by a comparison of the new length with the constant '
     'MAX_DECODED_LEN; delta_decode makes no sized allocation.', o3),
]
