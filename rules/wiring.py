"""Name-agreement ("wiring") rule.  Where a value travels under one name from a configuration field through a constructor parameter
into a struct field, the names say what it is: `disconnect_timeout` is stored in the builder, passed to the parameter `disconnect_timeout`
of UdpProtocol::new and kept in the field `disconnect_timeout`.  A site that passes `self.B` for parameter `A` although the callee also
has a parameter `B` of the same type (or stores parameter `B` in field `A` although the struct also has a field `B` of that type) has
crossed two wires.  Nothing else is flagged: transformations, renamings and parameters without a namesake are not this rule's business,
so it cannot fire on a behaviour-preserving edit unless that edit renames one of two same-typed namesakes into the other."""
from .lib import *
from .sem import key, last_seg
import re


def _last_field(e):
    """the field name an expression reads, when it is a plain field read (through casts / copies)"""
    k = key(e)
    import re
    m = re.match(r'^(self|arg\d+)((?:\.\w+)*)\.([A-Za-z_]\w*)$', k)
    if m:
        return m.group(3)
    return None


def call_sites(W):
    """(caller, term, callee fn, [(param name, param ty, arg expr)])"""
    out = []
    for f in W.fx.fn_list:
        if f.derived:
            continue
        cx = None
        for t in f.calls():
            tg = W.cg.targets(t.callee)
            if len(tg) != 1:
                continue
            g = tg[0]
            if g.argc != len(t.args):
                continue
            names = [g.local_name(i + 1) for i in range(g.argc)]
            if cx is None:
                cx = W.ctx(f)
            out.append((f, t, g, [(names[i], g.local_ty(i + 1), cx.expr_operand(t.args[i])) for i in range(g.argc)]))
    return out


def check_calls(W, ob, only_callee=None):
    n = 0
    for f, t, g, params in call_sites(W):
        if only_callee and not any(g.path.endswith(s) for s in only_callee):
            continue
        pn = {p: ty for p, ty, _ in params if p}
        for p, ty, e in params:
            if not p:
                continue
            fld = _last_field(e)
            if fld is None:
                continue
            n += 1
            if fld != p and fld in pn and pn[fld] == ty:
                ob.fail('%s|%s->%s|%s' % (short(f.path), fld, short(g.path), p),
                        '%s passes `%s` for parameter `%s` of %s, which has its own parameter `%s` of the same type (%s): two wires are crossed'
                        % (short(f.path), key(e), p, short(g.path), fld, ty), where(f, t.line))
            else:
                ob.ok('%s: `%s` -> parameter `%s` of %s' % (short(f.path), key(e), p, short(g.path)), where(f, t.line))
    return n


def check_constructions(W, ob):
    """struct literals in fns: field A := parameter B while the struct has a field B of the same type"""
    n = 0
    for f in W.fx.fn_list:
        if f.derived or f.kind == 'closure':
            continue
        pnames = {f.local_name(i + 1): i + 1 for i in range(f.argc) if f.local_name(i + 1)}
        if not pnames:
            continue
        cx = None
        for s in f.stmts():
            if s.k != 'assign' or s.rv.k != 'agg' or s.rv.j.get('ak') != 'adt' or not s.rv.j.get('fields'):
                continue
            fields = s.rv.j['fields']
            if cx is None:
                cx = W.ctx(f)
            for fld, op in zip(fields, s.rv.ops):
                e = cx.expr_operand(op)
                k = key(e)
                import re
                m = re.match(r'^arg(\d+)$', k)
                if not m:
                    continue
                idx = int(m.group(1))
                pname = f.local_name(idx)
                if not pname:
                    continue
                n += 1
                if pname != fld and pname in fields and fld in pnames and f.local_ty(idx) == f.local_ty(pnames[fld]):
                    ob.fail('%s|param %s->field %s' % (short(f.path), pname, fld),
                            '%s stores parameter `%s` in field `%s` although it has a parameter `%s` of the same type and the struct a field `%s`: two wires are crossed'
                            % (short(f.path), pname, fld, fld, pname), where(f, s.line))
                else:
                    ob.ok('%s: parameter `%s` -> field `%s`' % (short(f.path), pname, fld), where(f, s.line))
    return n


def check_getters(W, ob):
    """a getter `fn X(&self)` that returns the plain field `self..Y` (Y != X) although its struct has a field `X` of the same type"""
    import re
    from .facts import Place, strip_generics
    n = 0
    for f in W.fx.fn_list:
        if f.derived or f.kind not in ('fn', 'method') or f.argc != 1 or f.local_name(1) != 'self' or not f.self_ty:
            continue
        if not W.is_straight_line(f):
            continue
        r = key(W.ctx(f).expr_place(Place({'l': 0, 'p': []})))
        m = re.match(r'^self((?:\.\w+)*)\.([A-Za-z_]\w*)$', r)
        if not m:
            continue
        n += 1
        name, fld = f.path.split('::')[-1], m.group(2)
        crossed = False
        if fld != name and not m.group(1):
            a = W.adt(strip_generics(f.self_ty))
            if a is not None and a.get('variants'):
                fl = {x['name']: x.get('ty') for x in a['variants'][0]['fields']}
                crossed = name in fl and fld in fl and fl[name] == fl[fld]
        if crossed:
            ob.fail('getter|%s' % short(f.path), '%s() returns the field `%s` although the struct has a field `%s` of the same type: two wires are crossed' % (short(f.path), fld, name), where(f))
        else:
            ob.ok('%s() returns `%s`' % (short(f.path), r), where(f))
    return n


LOSSY = ('take', 'skip', 'step_by', 'filter', 'filter_map', 'take_while', 'skip_while', 'map_while', 'truncate', 'split_off', 'drain', 'retain',
         'dedup', 'pop', 'remove', 'swap_remove', 'clear', 'nth', 'last', 'first', 'split_at', 'split_first', 'split_last')
_LOSSY_RE = re.compile(r'(?:^|[^A-Za-z0-9_])(%s)\(' % '|'.join(LOSSY))
COLLECTION = ('Vec<', 'VecDeque<', 'HashMap<', 'HashSet<', 'BTreeMap<', 'BTreeSet<', '[', 'impl Iterator')


def is_collection(ty):
    return ty is not None and any(c in ty for c in COLLECTION)


def check_forwarded(W, ob):
    """a collection-typed parameter handed on to a same-named, same-typed parameter of the callee (or stored in the same-named field of a struct
    literal) arrives whole: the forwarding expression contains no element-dropping operation.  Transformations that keep every element (sort, map,
    a decoder) are not this rule's business."""
    n = 0
    for f, t, g, params in call_sites(W):
        own = {f.local_name(i + 1): (i + 1, f.local_ty(i + 1)) for i in range(f.argc) if f.local_name(i + 1)}
        for p, ty, e in params:
            if not p or p not in own or own[p][1] != ty or not is_collection(ty):
                continue
            k = key(e)
            src = 'arg%d' % own[p][0]
            if not re.search(r'(?:^|[^A-Za-z0-9_])%s(?:$|[^0-9])' % src, k):
                continue
            n += 1
            m = _LOSSY_RE.search(k)
            if m:
                ob.fail('forward|%s|%s->%s' % (short(f.path), p, short(g.path)),
                        '%s hands its parameter `%s` on to parameter `%s` of %s through `%s`: elements are dropped on the way (`%s`)'
                        % (short(f.path), p, p, short(g.path), m.group(1), k[:160]), where(f, t.line))
            else:
                ob.ok('%s forwards `%s` whole to %s' % (short(f.path), p, short(g.path)), where(f, t.line))
    for f in W.fx.fn_list:
        if f.derived or f.kind == 'closure':
            continue
        own = {f.local_name(i + 1): (i + 1, f.local_ty(i + 1)) for i in range(f.argc) if f.local_name(i + 1)}
        cx = None
        for s in f.stmts():
            if s.k != 'assign' or s.rv.k != 'agg' or s.rv.j.get('ak') != 'adt' or not s.rv.j.get('fields'):
                continue
            for fld, op in zip(s.rv.j['fields'], s.rv.ops):
                if fld not in own or not is_collection(own[fld][1]):
                    continue
                cx = cx or W.ctx(f)
                k = key(cx.expr_operand(op))
                src = 'arg%d' % own[fld][0]
                if not re.search(r'(?:^|[^A-Za-z0-9_])%s(?:$|[^0-9])' % src, k):
                    continue
                n += 1
                m = _LOSSY_RE.search(k)
                lossy_call = None
                if not m:
                    # in-place shrinking of the parameter before it is stored (handles.retain(..); Self { handles, .. })
                    for t in f.calls():
                        if t.callee.indirect is None and last_seg(t.callee.best) in LOSSY and t.args and \
                                re.search(r'(?:^|[^A-Za-z0-9_])%s(?:$|[^0-9])' % src, key(cx.expr_operand(t.args[0]))):
                            lossy_call = last_seg(t.callee.best)
                if m or lossy_call:
                    ob.fail('forward|%s|param %s->field' % (short(f.path), fld),
                            '%s stores its parameter `%s` in the field of that name after `%s`: elements are dropped on the way'
                            % (short(f.path), fld, m.group(1) if m else lossy_call), where(f, s.line))
                else:
                    ob.ok('%s stores `%s` whole' % (short(f.path), fld), where(f, s.line))
    return n


def check_setters(W, ob):
    """a builder setter `with_X(mut self, v)` stores a value that depends on its argument only: the configuration a chain of setter calls
    produces does not depend on the order of the calls (a value clamped against *another* field is clamped against whatever that field happened
    to hold at the time of the call)"""
    n = 0
    for f in W.fx.fn_list:
        if f.derived or f.kind != 'method' or 'SessionBuilder' not in f.path or not f.path.split('::')[-1].startswith('with_'):
            continue
        cx = W.ctx(f)
        for w in W.writes():
            if w['fn'] is not f or w['kind'] != 'store' or w['ap'].root[0] != 'arg':
                continue
            tgt = w['ap'].s(f)
            if not tgt.startswith('self.'):
                continue
            site = w['site']
            if not hasattr(site, 'rv'):
                continue
            v = key(cx.expr_rvalue(site.rv))
            n += 1
            if re.search(r'(?:^|[^A-Za-z0-9_])self\.', v):
                ob.fail('setter|%s|%s' % (short(f.path), tgt), '%s stores `%s := %s`: the stored value depends on another builder field, so the resulting configuration '
                        'depends on the order in which the setters are called' % (short(f.path), tgt, v[:120]), where(f, w['line']))
            else:
                ob.ok('%s stores `%s := %s`' % (short(f.path), tgt, v[:60]), where(f, w['line']))
    return n


def _param_roots(W, e, out):
    """configuration roots (argN, or self.F in a builder) an expression combines arithmetically; calls of crate functions are boundaries"""
    t = e[0]
    if t == 'ap':
        m = re.match(r'^(arg\d+|self\.\w+)', e[1])
        if m:
            out.add(m.group(1))
    elif t == 'bin':
        _param_roots(W, e[2], out)
        _param_roots(W, e[3], out)
    elif t == 'un':
        _param_roots(W, e[2], out)
    elif t in ('min', 'max'):
        for a in e[1]:
            _param_roots(W, a, out)
    elif t == 'call':
        seg = last_seg(e[1])
        if seg in ('min', 'max', 'clamp', 'saturating_sub', 'saturating_add', 'wrapping_sub', 'wrapping_add', 'checked_sub', 'checked_add', 'abs_diff', 'pow', 'rem_euclid',
                   'unwrap_or', 'unwrap_or_default', 'unwrap'):
            for a in e[2]:
                _param_roots(W, a, out)
    elif t == 'phi':
        pass
    return out


def check_mixing(W, ob):
    """constructors and the builder's start_* functions hand each configuration value on as it is: an expression given to a callee or stored in a
    field does not combine two DIFFERENT configuration parameters (`min(input_delay, max_prediction)`): a value the user configured would silently
    depend on another one.  (Deciding one value by a test on another -- sparse saving off in lockstep -- is control flow, checked where it matters.)"""
    n = 0
    for f in W.fx.fn_list:
        if f.derived or f.kind not in ('fn', 'method'):
            continue
        last = f.path.split('::')[-1]
        if not (last == 'new' or last.startswith('start_')) or 'tests' in f.path:
            continue
        cx = W.ctx(f)
        seen = set()

        def chk(e, what, line):
            nonlocal n
            roots = _param_roots(W, e, set())
            roots.discard('arg1') if last != 'new' else None
            n += 1
            k = (what, key(e)[:100])
            if len(roots) >= 2 and k not in seen:
                seen.add(k)
                ob.fail('mixing|%s|%s' % (short(f.path), what), '%s computes `%s` for %s from two different configuration values (%s): one configured value silently depends on another'
                        % (short(f.path), key(e)[:100], what, ', '.join(sorted(roots))), where(f, line))
        for t in f.calls():
            tg = W.cg.targets(t.callee)
            for i, a in enumerate(t.args):
                pn = tg[0].local_name(i + 1) if len(tg) == 1 and tg[0].argc == len(t.args) else None
                try:
                    chk(cx.expr_operand(a), 'parameter `%s` of %s' % (pn or i, short(t.callee.best or '?')), t.line)
                except Exception:
                    pass
        for st in f.stmts():
            if st.k == 'assign' and st.rv.k == 'agg' and st.rv.j.get('ak') == 'adt' and st.rv.j.get('fields'):
                for fld, op in zip(st.rv.j['fields'], st.rv.ops):
                    chk(cx.expr_operand(op), 'field `%s`' % fld, st.line)
    return n


DRAIN_LOSSY = ('take', 'skip', 'step_by', 'filter', 'filter_map', 'take_while', 'skip_while', 'map_while', 'nth', 'last', 'find', 'find_map', 'position', 'any', 'all')


def check_drains(W, ob):
    """a `Drain` removes its whole range when it is dropped, consumed or not: an adaptor that stops early or skips elements (`take`, `take_while`, `filter`, `find`, `any` ...)
    applied to a Drain -- the endpoint's event queue handed to the session by `poll`, a queue being flushed -- destroys what it does not yield"""
    n = 0
    for f in W.fx.fn_list:
        if f.derived:
            continue
        for t in f.calls():
            if t.callee.indirect is not None or not t.arg_tys or 'Drain<' not in t.arg_tys[0]:
                continue
            seg = last_seg(t.callee.best)
            n += 1
            if seg in DRAIN_LOSSY:
                ob.fail('drain|%s|%s' % (short(f.parent if f.kind == 'closure' and f.parent else f.path), seg),
                        '%s applies `%s` to a Drain: the elements it does not yield are removed from the queue all the same and are lost (events, inputs, messages that were '
                        'already acknowledged)' % (short(f.parent if f.kind == 'closure' and f.parent else f.path), seg), where(f, t.line))
            else:
                ob.ok('%s: Drain consumed by `%s`' % (short(f.path), seg), where(f, t.line))
    return n


def rule(W, ob):
    n7 = check_drains(W, ob)
    ob.require_count(n7, 3, 'uses of a Drain')
    n6 = check_mixing(W, ob)
    ob.require_count(n6, 60, 'values handed on by constructors')
    n5 = check_setters(W, ob)
    ob.require_count(n5, 10, 'builder setters')
    n4 = check_forwarded(W, ob)
    ob.require_count(n4, 8, 'collections forwarded under their own name')
    n1 = check_calls(W, ob)
    n2 = check_constructions(W, ob)
    n3 = check_getters(W, ob)
    ob.require_count(n3, 10, 'plain getters')
    ob.require_count(n1, 20, 'field-to-parameter wirings at call sites')
    ob.require_count(n2, 20, 'parameter-to-field wirings in struct literals')
