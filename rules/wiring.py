"""Name-agreement ("wiring") rule.  Where a value travels under one name from a configuration field through a constructor parameter
into a struct field, the names say what it is: `disconnect_timeout` is stored in the builder, passed to the parameter `disconnect_timeout`
of UdpProtocol::new and kept in the field `disconnect_timeout`.  A site that passes `self.B` for parameter `A` although the callee also
has a parameter `B` of the same type (or stores parameter `B` in field `A` although the struct also has a field `B` of that type) has
crossed two wires.  Nothing else is flagged: transformations, renamings and parameters without a namesake are not this rule's business,
so it cannot fire on a behaviour-preserving edit unless that edit renames one of two same-typed namesakes into the other."""
from .lib import *
from .sem import key


def _last_field(e):
    """the field name an expression reads, when it is a plain field read (through casts / copies)"""
    k = key(e)
    import re
    m = re.match(r'^(self|arg\d+)((?:\.\w+)*)\.([A-Za-z_]\w*)$', k)
    if m:
        return m.group(3)
    return None


def call_sites(W):
    """(caller, term, callee fn, [(param name, param ty, arg expr)])"""
    out = []
    for f in W.fx.fn_list:
        if f.derived:
            continue
        cx = None
        for t in f.calls():
            tg = W.cg.targets(t.callee)
            if len(tg) != 1:
                continue
            g = tg[0]
            if g.argc != len(t.args):
                continue
            names = [g.local_name(i + 1) for i in range(g.argc)]
            if cx is None:
                cx = W.ctx(f)
            out.append((f, t, g, [(names[i], g.local_ty(i + 1), cx.expr_operand(t.args[i])) for i in range(g.argc)]))
    return out


def check_calls(W, ob, only_callee=None):
    n = 0
    for f, t, g, params in call_sites(W):
        if only_callee and not any(g.path.endswith(s) for s in only_callee):
            continue
        pn = {p: ty for p, ty, _ in params if p}
        for p, ty, e in params:
            if not p:
                continue
            fld = _last_field(e)
            if fld is None:
                continue
            n += 1
            if fld != p and fld in pn and pn[fld] == ty:
                ob.fail('%s|%s->%s|%s' % (short(f.path), fld, short(g.path), p),
                        '%s passes `%s` for parameter `%s` of %s, which has its own parameter `%s` of the same type (%s): two wires are crossed'
                        % (short(f.path), key(e), p, short(g.path), fld, ty), where(f, t.line))
            else:
                ob.ok('%s: `%s` -> parameter `%s` of %s' % (short(f.path), key(e), p, short(g.path)), where(f, t.line))
    return n


def check_constructions(W, ob):
    """struct literals in fns: field A := parameter B while the struct has a field B of the same type"""
    n = 0
    for f in W.fx.fn_list:
        if f.derived or f.kind == 'closure':
            continue
        pnames = {f.local_name(i + 1): i + 1 for i in range(f.argc) if f.local_name(i + 1)}
        if not pnames:
            continue
        cx = None
        for s in f.stmts():
            if s.k != 'assign' or s.rv.k != 'agg' or s.rv.j.get('ak') != 'adt' or not s.rv.j.get('fields'):
                continue
            fields = s.rv.j['fields']
            if cx is None:
                cx = W.ctx(f)
            for fld, op in zip(fields, s.rv.ops):
                e = cx.expr_operand(op)
                k = key(e)
                import re
                m = re.match(r'^arg(\d+)$', k)
                if not m:
                    continue
                idx = int(m.group(1))
                pname = f.local_name(idx)
                if not pname:
                    continue
                n += 1
                if pname != fld and pname in fields and fld in pnames and f.local_ty(idx) == f.local_ty(pnames[fld]):
                    ob.fail('%s|param %s->field %s' % (short(f.path), pname, fld),
                            '%s stores parameter `%s` in field `%s` although it has a parameter `%s` of the same type and the struct a field `%s`: two wires are crossed'
                            % (short(f.path), pname, fld, fld, pname), where(f, s.line))
                else:
                    ob.ok('%s: parameter `%s` -> field `%s`' % (short(f.path), pname, fld), where(f, s.line))
    return n


def check_getters(W, ob):
    """a getter `fn X(&self)` that returns the plain field `self..Y` (Y != X) although its struct has a field `X` of the same type"""
    import re
    from .facts import Place, strip_generics
    n = 0
    for f in W.fx.fn_list:
        if f.derived or f.kind not in ('fn', 'method') or f.argc != 1 or f.local_name(1) != 'self' or not f.self_ty:
            continue
        if not W.is_straight_line(f):
            continue
        r = key(W.ctx(f).expr_place(Place({'l': 0, 'p': []})))
        m = re.match(r'^self((?:\.\w+)*)\.([A-Za-z_]\w*)$', r)
        if not m:
            continue
        n += 1
        name, fld = f.path.split('::')[-1], m.group(2)
        crossed = False
        if fld != name and not m.group(1):
            a = W.adt(strip_generics(f.self_ty))
            if a is not None and a.get('variants'):
                fl = {x['name']: x.get('ty') for x in a['variants'][0]['fields']}
                crossed = name in fl and fld in fl and fl[name] == fl[fld]
        if crossed:
            ob.fail('getter|%s' % short(f.path), '%s() returns the field `%s` although the struct has a field `%s` of the same type: two wires are crossed' % (short(f.path), fld, name), where(f))
        else:
            ob.ok('%s() returns `%s`' % (short(f.path), r), where(f))
    return n


def rule(W, ob):
    n1 = check_calls(W, ob)
    n2 = check_constructions(W, ob)
    n3 = check_getters(W, ob)
    ob.require_count(n3, 10, 'plain getters')
    ob.require_count(n1, 20, 'field-to-parameter wirings at call sites')
    ob.require_count(n2, 20, 'parameter-to-field wirings in struct literals')
