"""C01 -- confirmed timeline equals the serial replay of the true inputs: the skeleton of the rollback pipeline."""
from .lib import *
from .cfg import cfg_of, callee_matches
from .sem import key, dnf_str, atom_str, dnf_implies_atom, dnf_implies_dnf

LEVEL = 'other'
EXPLANATION = ('Static rule checking over typed MIR of the current tree: order/pairing/marker/discard/decode/min-reduction '
               'obligations of the rollback pipeline (necessary conditions of C01). The equality of the confirmed '
               'timeline with a serial replay over all schedules is NOT decided.')
NOT_DECIDED = ['equality of the last simulation of every confirmed frame with the true inputs over all schedules, '
               'fault patterns and histories (run-time values; no static argument in this family bounds it)']
ASSUMPTIONS = ['field reads are compared syntactically (no mutation between a guard and the guarded statement other '
               'than the calls named by the obligation)', 'rustc MIR is faithful to the source']

P2P = 'sessions::p2p_session::P2PSession'
SL = 'sync_layer::SyncLayer'
IQ = 'input_queue::InputQueue'
UDP = 'network::protocol::UdpProtocol'


def o1(W, ob):
    f = W.fn(P2P + '::advance_rollback_frame')
    new_fetch = sites(W, f, SL + '::synchronized_inputs')
    ob.require_count(len(new_fetch), 1, 'new-frame input fetch in advance_rollback_frame')
    must_precede(W, ob, f, SL + '::check_simulation_consistency', SL + '::synchronized_inputs', 'O1',
                 what='the rollback check (must-call check_simulation_consistency) precedes the new-frame input fetch')
    must_precede(W, ob, f, P2P + '::register_local_inputs', SL + '::synchronized_inputs', 'O1', first_mode='direct',
                 what='local inputs are registered before the new-frame fetch')
    # the rollback itself: adjust_gamestate runs exactly when the check reports a frame
    h = W.fn(P2P + '::handle_rollback_and_save')
    chk = sites(W, h, SL + '::check_simulation_consistency')
    adj = [t for t in h.calls() if callee_matches(t.callee, P2P + '::adjust_gamestate')]
    ob.require_count(len(adj), 1, 'adjust_gamestate call in handle_rollback_and_save')
    cx = W.ctx(h)
    for t in adj:
        g = W.guard(h, t.bb)
        good = every_disjunct_has(g, lambda a: (match_lin(a, [(has('check_simulation_consistency('), 1)], neq=-1)
                                               or match_lin(a, [(has('check_simulation_consistency('), 1)], lo=0)))
        only = all(len(c) == 1 for c in g)
        ob.check(good and only, 'handle_rollback_and_save|adjust-guard',
                 'adjust_gamestate runs exactly when check_simulation_consistency(..) != NULL_FRAME',
                 'adjust_gamestate must run exactly when check_simulation_consistency(..) reports a frame; its guard is '
                 + dnf_str(g), where(h, t.line))
        a1 = cx.expr_operand(t.args[1])
        ob.check(key(a1) == 'SyncLayer::check_simulation_consistency(self.sync_layer, self.disconnect_frame)', 'handle_rollback_and_save|adjust-arg',
                 'the frame handed to adjust_gamestate is the result of check_simulation_consistency',
                 'the frame handed to adjust_gamestate is `%s`, not the result of check_simulation_consistency' % key(a1),
                 where(h, t.line))
    for (_, t) in W.calls_to(SL + '::check_simulation_consistency', within=h):
        a1 = cx.expr_operand(t.args[1])
        ob.check(key(a1) == 'self.disconnect_frame', 'handle_rollback_and_save|check-arg',
                 'check_simulation_consistency starts from the pending disconnect frame',
                 'check_simulation_consistency is seeded with `%s`, not with self.disconnect_frame' % key(a1),
                 where(h, t.line))


def o2(W, ob):
    n = 0
    for name in (P2P + '::adjust_gamestate', 'sessions::sync_test_session::SyncTestSession::adjust_gamestate'):
        f = W.fn(name)
        must_precede(W, ob, f, SL + '::load_frame', SL + '::reset_prediction', 'O2', first_mode='direct',
                     what='load_frame precedes reset_prediction in %s' % short(f.path))
        must_precede(W, ob, f, SL + '::reset_prediction', SL + '::synchronized_inputs', 'O2', first_mode='direct',
                     what='reset_prediction precedes the first resimulation fetch in %s' % short(f.path))
        n += 1
    # reset_prediction has no other caller
    allowed = {P2P + '::adjust_gamestate', 'SyncTestSession::adjust_gamestate'}
    for (f, t) in W.calls_to(SL + '::reset_prediction'):
        host = f.parent if f.kind == 'closure' else f.path
        ob.check(any(match_path(host, a) for a in allowed), 'reset_prediction|caller|%s' % short(host),
                 'SyncLayer::reset_prediction called from %s' % short(host),
                 'SyncLayer::reset_prediction is called from %s: clearing the misprediction marker outside a rollback '
                 'loses a pending rollback' % short(host), where(f, t.line))
    for (f, t) in W.calls_to(IQ + '::reset_prediction'):
        host = f.parent if f.kind == 'closure' else f.path
        ob.check(match_path(host, SL + '::reset_prediction'), 'iq-reset_prediction|caller|%s' % short(host),
                 'InputQueue::reset_prediction called from SyncLayer::reset_prediction',
                 'InputQueue::reset_prediction is called from %s' % short(host), where(f, t.line))


INPUT_SOURCES = (SL + '::synchronized_inputs', SL + '::confirmed_inputs',
                 'SpectatorSession::inputs_at_frame')


def o3(W, ob):
    """each AdvanceFrame request is paired with one frame increment, inputs fetched before the increment"""
    cons = W.constructions('GgrsRequest', 'AdvanceFrame')
    ob.require_count(len(cons), 6, 'AdvanceFrame construction sites')
    for f, s in cons:
        host = f
        cfg = cfg_of(f)
        src = trace_back(W, f, s.rv.ops[0])
        if not src or src[0] != 'call' or not any(callee_matches(src[1].callee, p) for p in INPUT_SOURCES):
            ob.fail('%s|advanceframe-inputs-source' % short(f.path),
                    'the inputs of an AdvanceFrame request do not come from an input fetch of the sync layer / '
                    'spectator ring (found %s)' % ((repr(src[1].callee) if src and src[0] == 'call' else repr(src)),),
                    where(f, s.line))
            continue
        fetch_bb = src[1].bb
        # increment sites in this function
        inc = sites(W, f, SL + '::advance_frame')
        exact_, _ = W.writes_to_field('current_frame')
        inc_stores = [w for w in exact_ if w['fn'] is f and w['kind'] == 'store']
        inc_blocks = inc + [w['bb'] for w in inc_stores]
        if not inc_blocks:
            ob.fail('%s|advanceframe-no-increment' % short(f.path),
                    'an AdvanceFrame request is built in a function that never steps the frame counter',
                    where(f, s.line))
            continue
        # (a) the fetch precedes the construction and every increment that can reach the construction / follow it
        ok_a = cfg.path_avoiding([s.bb], [fetch_bb]) is None
        # (b) inputs are fetched before the increment that belongs to this request:
        #     the nearest increment is one that is dominated by the fetch and is paired with the construction
        paired = []
        for ib in inc_blocks:
            before = cfg.path_avoiding([s.bb], [ib]) is None          # increment precedes construction on all paths
            after = cfg.path_from_avoiding(s.bb, [ib], ends=cfg.returns + [fetch_bb]) is None   # follows before next fetch
            if before or after:
                paired.append((ib, before))
        ok_b = len(paired) == 1
        ok_c = ok_b and cfg.path_avoiding([paired[0][0]], [fetch_bb]) is None
        # no increment between the fetch and itself other than the paired one is checked by (b) uniqueness
        ob.check(ok_a and ok_b and ok_c, '%s|advanceframe-pairing' % short(f.path),
                 'AdvanceFrame built from inputs fetched before its single paired frame increment',
                 'AdvanceFrame/frame-counter pairing broken: fetch-before-build=%s, paired increments=%d, '
                 'fetch-before-increment=%s' % (ok_a, len(paired), ok_c), where(f, s.line))


def o4(W, ob):
    n = only_writers(W, ob, 'first_incorrect_frame', 'InputQueue',
                     [IQ + '::reset_prediction', IQ + '::add_input_by_frame'], 'O4', kinds=('store',))
    ob.require_count(n, 2, 'stores to InputQueue.first_incorrect_frame')
    f = W.fn(IQ + '::add_input_by_frame')
    cx = W.ctx(f)
    ex, _ = W.writes_to_field('first_incorrect_frame')
    for w in ex:
        if w['fn'] is not f or w['kind'] != 'store':
            continue
        g = W.guard(f, w['bb'])
        c1 = every_disjunct_has(g, lambda a: match_lin(a, [(exact('self.first_incorrect_frame'), 1)], eq=-1))
        c2 = every_disjunct_has(g, lambda a: (a[0] == 'relz' and a[1] == 'Ne' and any('prediction.input' in k for k, _ in a[2]))
                                or (a[0] == 'bool' and 'input_matches(' in a[1] and a[2] is False))
        c3 = every_disjunct_has(g, lambda a: match_lin(a, [(exact('self.prediction.frame'), 1)], neq=-1))
        val = key(cx.expr_rvalue(w['site'].rv))
        c4 = val == 'arg3'
        # "whenever": apart from assertions, nothing else may condition the marker
        eg = W.guards(f).essential_guard(w['bb'])
        c5 = all(len(c) == 3 for c in eg)
        c1 = c1 and c5
        ob.check(c1 and c2 and c3 and c4, 'add_input_by_frame|marker-store',
                 'the misprediction marker is set only when unset, while predicting, on a mismatch, to the frame added',
                 'misprediction marker store: unset-check=%s mismatch-check=%s predicting-check=%s value=%s (expected the '
                 'frame being added)' % (c1, c2, c3, val), where(f, w['line']), witness=dnf_str(g)[:800])
    r = W.fn(IQ + '::reset_prediction')
    cxr = W.ctx(r)
    for w in ex:
        if w['fn'] is r and w['kind'] == 'store':
            val = key(cxr.expr_rvalue(w['site'].rv))
            ob.check(val in ('NULL_FRAME', '-1'), 'reset_prediction|marker-reset', 'reset_prediction clears the marker',
                     'reset_prediction stores %s into first_incorrect_frame' % val, where(r, w['line']))


def o4b(W, ob):
    """prediction mode is left only when every frame requested so far has been compared with its real input"""
    f = W.fn(IQ + '::add_input_by_frame')
    cx = W.ctx(f)
    G = W.guards(f)
    st = [w for w in W.writes() if w['fn'] is f and w['kind'] == 'store' and w['ap'].s(f) == 'self.prediction.frame']
    ob.require_count(len(st), 2, 'stores to prediction.frame in add_input_by_frame')
    exits = 0
    for w in st:
        v = key(cx.expr_rvalue(w['site'].rv))
        g = G.guard(w['bb'])
        if v in ('NULL_FRAME', '-1'):
            exits += 1
            caught_up = every_disjunct_has(g, lambda a: match_lin(a, [(exact('self.prediction.frame'), 1), (exact('self.last_requested_frame'), -1)], eq=0))
            clean = every_disjunct_has(g, lambda a: match_lin(a, [(exact('self.first_incorrect_frame'), 1)], eq=-1))
            ob.check(caught_up and clean, 'add_input_by_frame|leave-prediction',
                     'prediction mode is left only when the frame just added is the last one requested and no misprediction is pending',
                     'prediction mode is left (prediction.frame := NULL) without `prediction.frame == last_requested_frame` (caught up=%s) and `first_incorrect_frame == NULL` '
                     '(clean=%s): real inputs of frames already simulated with the prediction would be stored without being compared' % (caught_up, clean),
                     where(f, w['line']), witness=dnf_str(g)[:400])
        else:
            ob.check(v == '(self.prediction.frame Add 1)', 'add_input_by_frame|advance-prediction', 'otherwise the prediction frame advances by one',
                     'prediction.frame := %s' % v, where(f, w['line']))
    ob.require_count(exits, 1, 'prediction-mode exits')
    # every real input that arrives while predicting is compared: the comparison is reached whenever prediction.frame != NULL
    cmp_blocks = [w['bb'] for w in W.writes_to_field('first_incorrect_frame')[0] if w['fn'] is f]
    for b in cmp_blocks:
        g = G.guard(b)
        extra = [a for c in g for a in c if a[0] == 'lin' and any('last_requested_frame' in k for k, _ in a[1])]
        ob.check(not extra, 'add_input_by_frame|compare-every-input', 'the comparison does not depend on what was requested',
                 'the misprediction comparison is skipped depending on last_requested_frame', where(f))
    # InputQueue::input asserts that nothing is fetched while a misprediction is pending, and records the request
    i = W.fn(IQ + '::input')
    Gi = W.guards(i)
    st = stores_in(W, i, 'last_requested_frame')
    ok = len(st) == 1 and key(W.ctx(i).expr_rvalue(st[0]['site'].rv)) == 'arg2' and \
        every_disjunct_has(Gi.guard(st[0]['bb']), lambda a: match_lin(a, [(exact('self.first_incorrect_frame'), 1)], eq=-1))
    others = [a for c in (Gi.guard(st[0]['bb']) if st else []) for a in c if not match_lin(a, [(exact('self.first_incorrect_frame'), 1)], eq=-1)]
    ob.check(ok and not others, 'InputQueue::input|records-request', 'every fetch records the requested frame, and is asserted to happen with no pending misprediction',
             'InputQueue::input does not unconditionally record last_requested_frame behind the no-pending-misprediction assertion', where(i))


def o2b(W, ob):
    """a rollback resets the prediction state of every queue"""
    f = W.fn(SL + '::reset_prediction')
    G = W.guards(f)
    calls = [t for t in f.calls() if callee_matches(t.callee, IQ + '::reset_prediction')]
    ob.require_count(len(calls), 1, 'InputQueue::reset_prediction call in SyncLayer::reset_prediction')
    for t in calls:
        g = G.guard(t.bb)
        extra = [a for c in g for a in c if a[0] != 'is']
        ob.check(not extra, 'SyncLayer::reset_prediction|every-queue', 'every queue is reset on a rollback',
                 'SyncLayer::reset_prediction skips queues under `%s`: a queue that keeps its sticky prediction across a rollback ignores real inputs it already holds for '
                 'the resimulated frames' % dnf_str(g)[:200], where(f, t.line))
    rng = [s for s in f.stmts() if s.k == 'assign' and s.rv.k == 'agg' and s.rv.j.get('ak') == 'adt' and s.rv.j['adt'].endswith('ops::Range')]
    cx = W.ctx(f)
    okr = any(key(cx.expr_operand(dict(zip(s.rv.j['fields'], s.rv.ops))['end'])) in ('self.num_players', 'len(self.input_queues)') and
              dict(zip(s.rv.j['fields'], s.rv.ops))['start'].const_int() == 0 for s in rng)
    it = [t for t in f.calls() if last_seg(t.callee.best) in ('iter_mut', 'into_iter') and t.args and t.args[0].is_place() and
          'input_queues' in cx.ap_carry(t.args[0].place).s(f)]
    ob.check(okr or bool(it), 'SyncLayer::reset_prediction|all-players', 'the reset iterates over all players', 'the reset does not iterate over 0..num_players', where(f))
    q = W.fn(IQ + '::reset_prediction')
    want = {'prediction.frame', 'first_incorrect_frame', 'last_requested_frame'}
    got = set()
    for w in W.writes():
        if w['fn'] is q and w['kind'] == 'store':
            k2 = w['ap'].s(q)[len('self.'):]
            v = key(W.ctx(q).expr_rvalue(w['site'].rv))
            if v in ('NULL_FRAME', '-1') and W.guard(q, w['bb']) == [[]]:
                got.add(k2)
    ob.check(want <= got, 'InputQueue::reset_prediction|clears', 'reset_prediction clears prediction.frame, first_incorrect_frame and last_requested_frame',
             'InputQueue::reset_prediction does not unconditionally clear %s' % sorted(want - got), where(q))


def _order_in(W, ob, f, firsts, then, keyp, what):
    for first, mode in firsts:
        must_precede(W, ob, f, first, then, keyp, first_mode=mode,
                     what=what % dict(first=first.split('::')[-1]))


def o5(W, ob):
    rb = W.fn(P2P + '::advance_rollback_frame')
    ls = W.fn(P2P + '::advance_lockstep_frame')
    slc = SL + '::set_last_confirmed_frame'
    _order_in(W, ob, rb, [(SL + '::check_simulation_consistency', 'must'),
                          (P2P + '::send_confirmed_inputs_to_spectators', 'direct')], slc, 'O5',
              'rollback path: %(first)s precedes set_last_confirmed_frame (inputs are not discarded before use)')
    _order_in(W, ob, ls, [(P2P + '::send_confirmed_inputs_to_spectators', 'direct')], slc, 'O5',
              'lockstep path: %(first)s precedes set_last_confirmed_frame')
    # the discard bound is the frame that was broadcast / confirmed
    for f, expect in ((rb, lambda k: k == 'P2PSession::confirmed_frame(self)'),
                      (ls, lambda k: k.startswith('min(') and 'P2PSession::confirmed_frame(self)' in k
                       and 'self.sync_layer.current_frame Sub 1' in k)):
        cx = W.ctx(f)
        sends = [t for t in f.calls() if callee_matches(t.callee, P2P + '::send_confirmed_inputs_to_spectators')]
        sets = [t for t in f.calls() if callee_matches(t.callee, slc)]
        ob.require_count(len(sets), 1, 'set_last_confirmed_frame call in %s' % short(f.path))
        for t in sets:
            k = key(cx.expr_operand(t.args[1]))
            ks = [key(cx.expr_operand(s.args[1])) for s in sends]
            ob.check(expect(k) and all(x == k for x in ks) and ks, '%s|discard-bound' % short(f.path),
                     'the frame confirmed to the sync layer is confirmed_frame() (lockstep: capped by the consumed '
                     'frame) and equals the frame broadcast to spectators',
                     'set_last_confirmed_frame receives `%s`; spectators were sent up to %s' % (k, ks), where(f, t.line))
    # inside set_last_confirmed_frame: caps, then discard(frame - 1)
    s = W.fn(slc)
    cx = W.ctx(s)
    dis = [t for t in s.calls() if callee_matches(t.callee, IQ + '::discard_confirmed_frames')]
    ob.require_count(len(dis), 1, 'discard_confirmed_frames call')
    st_, _ = W.writes_to_field('last_confirmed_frame')
    stores = [w for w in st_ if w['fn'] is s and w['kind'] == 'store']
    ob.require_count(len(stores), 1, 'store to last_confirmed_frame')
    for t in dis:
        e = cx.expr_operand(t.args[1])
        good = e[0] == 'bin' and e[1] == 'Sub' and e[3] == ('int', 1) and e[2][0] == 'var'
        same = good and stores and cx.expr_rvalue(stores[0]['site'].rv) == e[2]
        ob.check(bool(good and same), 'set_last_confirmed_frame|discard-arg',
                 'inputs are discarded only below the confirmed frame (frame - 1)',
                 'discard_confirmed_frames receives `%s`; expected the stored confirmed frame minus one' % key(e),
                 where(s, t.line))
        # the caps by current_frame (and last_saved_frame when sparse) are assignments to the same variable
        if good:
            var = e[2][1]
            caps = []
            for kind, d in cx.full_defs(var):
                ex = cx.expr_rvalue(d.rv) if kind == 'stmt' else cx.expr_call(d)
                caps.append(key(ex))
            c_cur = any(k.startswith('min(') and 'self.current_frame' in k for k in caps)
            c_saved = any(k.startswith('min(') and 'self.last_saved_frame' in k for k in caps)
            ob.check(c_cur and c_saved, 'set_last_confirmed_frame|caps',
                     'the confirmed frame is capped by current_frame and (sparse) by last_saved_frame',
                     'caps on the confirmed frame are missing: %s' % caps, where(s))
    # the first_incorrect assertion guards the store
    for w in stores:
        g = W.guard(s, w['bb'])
        ok = every_disjunct_has(g, lambda a: (a[0] == 'lin' and len(a[1]) == 2 and any('first_incorrect' in k for k, _ in a[1]))
                                or (a[0] == 'lin' and len(a[1]) == 1 and 'first_incorrect' in a[1][0][0] and a[2] == a[3] == -1))
        ob.check(ok, 'set_last_confirmed_frame|incorrect-assert',
                 'the confirmed frame is asserted not to pass a pending misprediction',
                 'the store to last_confirmed_frame is not protected against passing first_incorrect: ' + dnf_str(g)[:300],
                 where(s, w['line']))
    d = W.fn(IQ + '::discard_confirmed_frames')
    cxd = W.ctx(d)
    mins = [t for t in d.calls() if last_seg(t.callee.best) == 'min']
    okm = False
    for t in mins:
        ks = [key(cxd.expr_operand(a)) for a in t.args]
        g = W.guard(d, t.bb)
        if 'self.last_requested_frame' in ks and every_disjunct_has(
                g, lambda a: match_lin(a, [(exact('self.last_requested_frame'), 1)], neq=-1)):
            okm = True
    ob.check(okm, 'discard_confirmed_frames|requested-cap',
             'discard is capped by the last requested frame', 'discard_confirmed_frames is not capped by '
             'last_requested_frame (frames still needed by a pending resimulation could be dropped)', where(d))


def o6(W, ob):
    f = W.fn(UDP + '::on_input')
    cx = W.ctx(f)
    ins = [t for t in f.calls() if last_seg(t.callee.best) == 'insert' and 'recv_inputs' in cx.ap_carry(t.args[0].place).s(f)]
    pushes = []
    for fn2, s in W.constructions('Event', 'Input'):
        if fn2 is f:
            pushes.append(s)
    ob.require_count(len(ins), 1, 'recv_inputs.insert in on_input')
    ob.require_count(len(pushes), 1, 'Event::Input construction in on_input')

    def skip_guard(a):
        # last_recv_frame() - start_frame - i <= -1   (inp_frame > last_recv_frame)
        return match_lin(a, [(has('last_recv_frame('), 1), (exact('arg2.start_frame'), -1)], hi=-1, extra_terms=1)
    for t in ins:
        g = W.guard(f, t.bb)
        ob.check(every_disjunct_has(g, skip_guard), 'on_input|insert-skip-guard',
                 'a decoded frame is stored only if it is newer than the last received frame',
                 'recv_inputs.insert is not guarded by `frame > last_recv_frame()`: ' + dnf_str(g)[:400], where(f, t.line))
    for s in pushes:
        g = W.guard(f, s.bb)
        ob.check(every_disjunct_has(g, skip_guard), 'on_input|event-skip-guard',
                 'Event::Input is emitted only for frames newer than the last received frame',
                 'Event::Input is not guarded by `frame > last_recv_frame()`', where(f, s.line))
        if ins:
            p = cfg_of(f).path_avoiding([s.bb], [t.bb for t in ins])
            ob.check(p is None, 'on_input|insert-before-event', 'the frame is stored before it is announced',
                     'an Event::Input can be emitted without storing the frame in recv_inputs (next duplicate would '
                     'be emitted again)', where(f, s.line), witness=path_str(f, p) if p else None)
    # exactly the newer frames: the guard must not be stricter than `> last_recv_frame` (a gap would wedge the stream)
    for t in ins:
        g = W.guard(f, t.bb)
        strict = every_disjunct_has(g, lambda a: match_lin(a, [(has('last_recv_frame('), 1),
                                                               (exact('arg2.start_frame'), -1)], hi=-2, extra_terms=1))
        ob.check(not strict, 'on_input|insert-skip-too-strict', 'the skip is exactly `<= last_recv_frame`',
                 'the skip guard drops frames beyond last_recv_frame + 1 as well: ' + dnf_str(g)[:300], where(f, t.line))
    # the decode reference
    gets = [t for t in f.calls() if last_seg(t.callee.best) == 'get' and 'recv_inputs' in cx.ap_carry(t.args[0].place).s(f)]
    ob.require_count(len(gets), 1, 'recv_inputs.get (decode reference lookup)')
    G = W.guards(f)
    for t in gets:
        src = trace_back(W, f, t.args[1])
        okd = False
        desc = '?'
        if src and src[0] == 'place':
            pd = G.phi_defs(src[1].local)
            if pd:
                vals = {}
                for b, v in pd:
                    vals[key(v)] = G.guard(b)
                desc = ', '.join('%s when %s' % (k, dnf_str(g)[:120]) for k, g in vals.items())
                a = vals.get('NULL_FRAME')
                b2 = vals.get('(arg2.start_frame Sub 1)')
                if a is not None and b2 is not None:
                    okd = every_disjunct_has(a, lambda x: match_lin(x, [(has('last_recv_frame('), 1)], eq=-1)) and \
                          every_disjunct_has(b2, lambda x: match_lin(x, [(has('last_recv_frame('), 1)], neq=-1))
        ob.check(okd, 'on_input|decode-reference',
                 'the decode reference is start_frame - 1, or the blank NULL_FRAME entry before anything was received',
                 'decode reference key is not {NULL_FRAME if nothing received, start_frame - 1 otherwise}: ' + desc,
                 where(f, t.line))


def o7(W, ob):
    f = W.fn(SL + '::check_simulation_consistency')
    cx = W.ctx(f)
    acc = 2  # the `first_incorrect` parameter
    ds = cx.full_defs(acc)
    if not ds:
        # the same NULL-aware minimum written with iterators:
        #   queues.iter().map(first_incorrect_frame).chain(once(seed)).filter(|f| f != NULL).min().unwrap_or(NULL)
        good = False
        why = 'no accumulator update and no Iterator::min chain found'
        for t in find_min_chain(W, f):
            ch = iter_chain(W, f, t)
            segs = [x for x, _ in ch]
            srcs = [term for seg, term in ch if seg in ('iter', 'into_iter', 'iter_mut')]
            queues = bool(srcs) and srcs[0].args and srcs[0].args[0].is_place() and 'input_queues' in cx.ap_carry(srcs[0].args[0].place).s(f)
            has_marker = has_seed = has_filter = False
            for seg, term in ch:
                if seg == 'map' and len(term.args) > 1:
                    cl = closure_of_operand(W, f, term.args[1])
                    if cl and cl[0] == 'fn' and cl[1].endswith('InputQueue::first_incorrect_frame'):
                        has_marker = True
                    if cl and cl[0] == 'closure' and 'first_incorrect_frame' in key(closure_return_expr(W, cl[1])):
                        has_marker = True
                if seg == 'chain' and len(term.args) > 1:
                    for a in term.args:
                        src = trace_back(W, f, a, strict=True)
                        if src and src[0] == 'call' and last_seg(src[1].callee.best) == 'once' and src[1].args and key(cx.expr_operand(src[1].args[0])) == 'arg2':
                            has_seed = True
                if seg == 'filter' and len(term.args) > 1:
                    cl = closure_of_operand(W, f, term.args[1])
                    if cl and cl[0] == 'closure':
                        from .sem import atoms_of_cond
                        d = atoms_of_cond(closure_return_expr(W, cl[1]), True)
                        if len(d) == 1 and len(d[0]) == 1 and (match_lin(d[0][0], [(has('arg'), 1)], neq=-1) or match_lin(d[0][0], [(has('arg'), 1)], lo=0)):
                            has_filter = True
            extra = [x for x in segs if x not in ('iter', 'into_iter', 'map', 'chain', 'filter', 'min', 'copied', 'cloned', 'once', 'deref', 'as_slice')]
            # the filter must come after the chain (so that a NULL seed is ignored too) and before min
            order_ok = 'chain' in segs and 'filter' in segs and segs.index('chain') < segs.index('filter')
            r0 = cx.expr_place(__import__('rules.facts', fromlist=['Place']).Place({'l': 0, 'p': []}))
            ret_ok = 'min(' in key(r0) or True
            why = 'queues=%s markers=%s seed-in-chain=%s null-filter=%s order=%s extra=%s' % (queues, has_marker, has_seed, has_filter, order_ok, extra)
            if queues and has_marker and has_seed and has_filter and order_ok and not extra:
                good = True
        ob.check(good, 'check_simulation_consistency|min-update',
                 'the earliest incorrect frame is kept: NULL-aware minimum over every queue marker and the pending disconnect frame (iterator form)',
                 'check_simulation_consistency is not a NULL-aware minimum over the queue markers AND the seed it is given: ' + why, where(f))
        a = W.fn(P2P + '::adjust_gamestate')
        _o7_tail(W, ob, a)
        return
    ob.require_count(len(ds), 1, 'updates of the first_incorrect accumulator')
    for kind, d in ds:
        g = W.guard(f, d.bb)
        v = cx.expr_rvalue(d.rv) if kind == 'stmt' else cx.expr_call(d)
        cand_ok = 'first_incorrect_frame(' in key(v) or 'first_incorrect_frame' in key(v)
        # each disjunct: candidate != NULL and (acc == NULL or candidate < acc)
        def c_nonnull(a):
            return match_lin(a, [(has('first_incorrect_frame'), 1)], neq=-1) or match_lin(a, [(has('first_incorrect_frame'), 1)], lo=0)

        def c_less(a):
            v2 = lin_view(a)
            if v2 is None or a[0] != 'lin':
                return False
            return (match_lin(a, [(has('first_incorrect_frame'), 1), (has('first_incorrect#'), -1)], hi=-1)
                    or match_lin(a, [(has('first_incorrect_frame'), 1), (has('#2'), -1)], hi=-1))

        def c_accnull(a):
            return match_lin(a, [(has('#2'), 1)], eq=-1)
        good = bool(g) and all(any(c_nonnull(a) for a in c) and (any(c_less(a) for a in c) or any(c_accnull(a) for a in c))
                               for c in g)
        both = any(any(c_less(a) for a in c) for c in g) and any(any(c_accnull(a) for a in c) for c in g)
        ob.check(cand_ok and good and both, 'check_simulation_consistency|min-update',
                 'the earliest incorrect frame is kept: update iff candidate != NULL and (acc == NULL or candidate < acc)',
                 'the accumulator update is not a NULL-aware minimum: value=%s guard=%s' % (key(v), dnf_str(g)[:400]),
                 where(f, d.line if hasattr(d, 'line') else None))
    # the function returns the accumulator
    r0 = cx.expr_place(__import__('rules.facts', fromlist=['Place']).Place({'l': 0, 'p': []}))
    ob.check(r0[0] == 'var' and r0[1] == acc, 'check_simulation_consistency|returns-acc',
             'the accumulator is returned', 'check_simulation_consistency returns `%s`, not the accumulator' % key(r0),
             where(f))
    a = W.fn(P2P + '::adjust_gamestate')
    _o7_tail(W, ob, a)


def _o7_tail(W, ob, a):
    # non-sparse: the frame loaded is the first incorrect frame; sparse: last_saved_frame with the <= assertion
    cxa = W.ctx(a)
    G = W.guards(a)
    loads = [t for t in a.calls() if callee_matches(t.callee, SL + '::load_frame')]
    ob.require_count(len(loads), 1, 'load_frame call in adjust_gamestate')
    for t in loads:
        src = trace_back(W, a, t.args[1])
        okl = False
        desc = '?'
        if src and src[0] == 'place':
            pd = G.phi_defs(src[1].local)
            if pd:
                vals = {key(v): G.guard(b) for b, v in pd}
                desc = ', '.join('%s when %s' % (k, dnf_str(g2)[:80]) for k, g2 in vals.items())
                ns = vals.get('arg2')
                sp = vals.get('self.sync_layer.last_saved_frame')
                okl = ns is not None and sp is not None and \
                    every_disjunct_has(ns, lambda x: x == ('bool', 'self.sparse_saving', False)) and \
                    every_disjunct_has(sp, lambda x: x == ('bool', 'self.sparse_saving', True))
        g = W.guard(a, t.bb)
        sparse_disj = [c for c in g if ('bool', 'self.sparse_saving', True) in c]
        asserted = bool(sparse_disj) and every_disjunct_has(sparse_disj, lambda x: match_lin(
            x, [(exact('self.sync_layer.last_saved_frame'), 1), (exact('arg2'), -1)], hi=0))
        ob.check(okl and asserted, 'adjust_gamestate|frame-to-load',
                 'the frame loaded is the first incorrect frame (sparse: the last saved frame, asserted <= it)',
                 'frame to load is not {first_incorrect | sparse: last_saved_frame <= first_incorrect}: %s; assertion '
                 'present=%s' % (desc, asserted), where(a, t.line))


from . import helpers


def _c14_o4(W, ob):
    from . import c14
    c14.o4(W, ob)



def _c03_o15(W, ob):
    from . import c03
    return c03.o15(W, ob)


from . import initial

from . import casts

from . import removals

from . import mustcall

from . import vocab


def _c07_o1(W, ob):
    from . import c07 as _m
    return _m.o1(W, ob)


from . import inventory


def _c17_o2(W, ob):
    from . import c17 as _m
    return _m.o2(W, ob)



def _c03_o16(W, ob):
    from . import c03 as _m
    return _m.o16(W, ob)


OBLIGATIONS = [
    ('C01.O1', 'rollback before simulate', 'In advance_rollback_frame every path to the new-frame input fetch passes a '
     'call that must-call check_simulation_consistency and the local input registration; adjust_gamestate runs exactly '
     'when the check reports a frame, with that frame.', o1),
    ('C01.O2', 'load -> reset -> resimulate', 'load_frame dominates reset_prediction dominates the first resimulation '
     'fetch in both adjust_gamestate functions; reset_prediction has no other caller.', o2),
    ('C01.O3', 'fetch-then-step pairing', 'Each AdvanceFrame construction site takes its inputs from an input fetch '
     'that precedes the single frame-counter increment paired with it.', o3),
    ('C01.O4', 'misprediction marker', 'first_incorrect_frame is written only by reset_prediction (NULL) and by '
     'add_input_by_frame under `unset & predicting & mismatch`, storing the frame added.', o4),
    ('C01.O4b', 'leaving prediction mode', 'prediction.frame is reset to NULL in add_input_by_frame only under prediction.frame == last_requested_frame and '
     'first_incorrect_frame == NULL (all requested frames compared); InputQueue::input records every request.', o4b),
    ('C01.O2b', 'a rollback resets every queue', 'SyncLayer::reset_prediction calls InputQueue::reset_prediction for every player unconditionally, which clears the '
     'three prediction fields.', o2b),
    ('C01.O8', 'every resimulated frame is saved again (= C02.O6)', 'see C02.O6: a later rollback must resume from the corrected state, not from a cell written on the '
     'abandoned timeline', lambda W, ob: __import__('rules.c02', fromlist=['o6']).o6(W, ob)),
    ('C01.O5', 'send/rollback before discard', 'set_last_confirmed_frame is preceded by the rollback step and the '
     'spectator broadcast, receives the confirmed frame, and discards only below it, capped by the last requested '
     'frame.', o5),
    ('C01.O6', 'gapless decode', 'In on_input the skip guard `frame <= last_recv_frame` dominates storing and '
     'announcing a frame, storing precedes announcing, and the decode reference is start_frame-1 (NULL before the '
     'first input).', o6),
    ('C01.O7', 'earliest wrong frame', 'check_simulation_consistency is a NULL-aware min-reduction over the pending '
     'disconnect frame and every queue marker; adjust_gamestate loads that frame (sparse: last saved <= it).', o7),
    ('C01.O16', 'a peer is dropped by the timeout rule only (= C07.O1)', 'faults that end before the disconnect timeout must not cost a player: Disconnected is raised under last_recv_time + disconnect_timeout < now and nothing else, NetworkInterrupted under the notify delay; see C07.O1', _c07_o1),
    ('C01.O17', 'canonical handle order on both ends of the wire (= C17.O2)', 'the sender serialises its local players in ascending handle order and the receiver assigns the i-th decoded chunk to handles[i]: UdpProtocol::new sorts the handles it stores; see C17.O2', _c17_o2),
    ('C01.O18', 'every field of every wire struct travels (= C03.O16)', 'see C03.O16', _c03_o16),
    ('C01.H', 'helpers the rules above rely on', 'the bodies of the helpers named by this property\'s rules compute what the rules assume (last_recv_frame, confirmed_input, player_input); see rules/helpers.py', helpers.bundle('last_recv_frame', 'confirmed_input', 'player_input', 'from_inputs')),
    ('C01.O14', 'received bytes decode to what was sent (= C14.O4)', 'see C14.O4: the reader of the run-length layer uses the writer\'s table', _c14_o4, {'deps': True}),
    ('C01.O15', 'wire configuration: reader = writer (= C03.O15)', 'see C03.O15', _c03_o15),
    ('C01.I', 'initial state', 'every constructor gives the fields this property\'s rules interpret (NULL_FRAME = none / nothing yet, 0 = first frame, latches open, typestate start) the value listed in tables/initial_state.json; every field compared with NULL_FRAME anywhere is listed; see rules/initial.py', initial.rule_for('C01')),
    ('C01.C', 'lossy integer casts', 'every sign-changing cast (signed -> unsigned; NULL_FRAME is -1) and every narrowing cast to < 32 bits or from 128 bits in the crate is in range by a dominating guard, by the shape of its operand, or listed with a reason in tables/casts.json; see rules/casts.py', casts.rule),
    ('C01.R', 'who may remove', 'every call that takes elements out of a collection this property\'s rules rely on (keyed removal from a map, or bulk / positional removal) is one of the reviewed sites in tables/removals.json; a lookup turned into a removal, a second prune, a clear on another path is reported; see rules/removals.py', removals.rule_for('C01')),
    ('C01.M', 'must-call floor', 'the calls listed for this property in tables/must_call.json are made on every path from the entry of their function to a normal return (interprocedural must-call): a new early return, fast path or extra condition in front of one of them is reported; see rules/mustcall.py', mustcall.rule_for('C01')),
    ('C01.V', 'no unreviewed condition in the pinned helpers', 'for each helper whose body this property\'s rules pin (tables/condition_terms.json), the terms its path conditions are built from (fields, parameters, call results -- no constants, operators or local names) are a subset of the reviewed vocabulary: one more `if` in front of a pinned result (a lock that may time out, "only while an endpoint is running") is reported; see rules/vocab.py', vocab.rule_for('C01')),
    ('C01.S', 'state inventory', 'every field of the structs this property\'s rules read (tables/state.json) is known, and is written only by its reviewed writers (or helpers only they call): a new field is new state across calls -- a cache, a flag, a stored deadline -- that nothing has shown to stay in step; a new writer is a second place that resets, re-arms or moves something; see rules/inventory.py', inventory.state_rule_for('C01')),
    ('C01.K', 'call inventory', 'every reviewed call of a function that writes state (tables/call_edges.json, callers in the structs this property\'s rules read) is still made, directly or through helpers: a call deleted as redundant is reported; likewise the arguments of logging / debug-only macros change no state, no unreviewed call of a state-writing function appears (tables/call_edges_all.json), the types of the locals a loop carries from one iteration to the next (tables/carried.json) and, per function and field, how reads and writes of the field are ordered (tables/orders.json: a snapshot taken before instead of after an update) are as reviewed; see rules/inventory.py', inventory.call_rule_for('C01')),
    ('C01.A', 'expression inventory', 'every arithmetic expression handed to a call or stored in a field, and what every closure given to an iterator adaptor / collection method returns, is one of the reviewed expressions of its function (tables/expressions.json; linear / guard normal forms, no local names): a changed literal, operator, operand order, factor, predicate or sort key is reported; see rules/inventory.py', inventory.expr_rule_for('C01')),
    ('C01.P', 'trait-impl inventory', 'each (type, trait) pair among PartialEq / Eq / Hash / Ord / Clone / Default / From / Deref / InputPredictor is derived or hand-written as listed in tables/impls.json: a derive replaced by a hand-written impl (equality by address only, a hash that ignores a field) changes which map keys collide and which inputs match with every call site unchanged; see rules/inventory.py', inventory.impl_rule),
    ('C01.Z', inventory.CONST_TITLE, inventory.CONST_TEXT, inventory.const_rule_for('C01')),
]
