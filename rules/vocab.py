"""Condition vocabulary of the pinned helpers.  The rules of most properties name small functions (queue lookups, cut-off tests, ack helpers, the codec
stages) and pin what they compute.  What such a pin cannot say is "and nothing else conditions it": one more `if` in front of the pinned result -- a
timed lock that may give up, "hold the first frame back until an endpoint is running" -- leaves every pinned fact in place.  This rule closes the list:
for each function in tables/condition_terms.json the set of *leaves* its path conditions (and those of its closures) draw on -- access paths rooted at
self or a parameter, crate-local functions, and external functions that are an information source of their own (locks, clocks, zero-argument calls);
never constants, operators, local names, or pure library adaptors such as unwrap_or / min / len / is_empty -- must be a subset of the reviewed
vocabulary recorded there.  A new leaf is a new kind of condition and is reported as unreviewed; changed bounds on known leaves are the business of
the specific rules.  (The converse -- a reviewed leaf that disappeared -- is NOT reported: rewriting a guarded accumulator as an iterator
chain moves its conditions into library adaptors, and three neutral edits showed that as a false alarm.)"""
import json
import os
import re

from .lib import *
from .sem import key

VERIF = os.path.dirname(os.path.dirname(os.path.abspath(__file__)))


def table():
    with open(os.path.join(VERIF, 'tables', 'condition_terms.json')) as f:
        return json.load(f)['functions']


def norm(k):
    k = re.sub(r'\b\w*#\d+', 'v', k)      # locals (named or not) -> v
    k = re.sub(r'@bb\d+', '', k)
    return k


def terms_of_atom(a):
    t = a[0]
    if t in ('lin', 'ne'):
        return [norm(k) for k, _ in a[1]]
    if t == 'relz':
        return [norm(k) for k, _ in a[2]]
    if t in ('bool', 'is'):
        return [norm(a[1])]
    return [norm(repr(a))]


SOURCES = {'try_lock', 'try_lock_for', 'try_lock_until', 'lock', 'try_read', 'try_write', 'read', 'write', 'elapsed', 'now', 'duration_since', 'recv', 'try_recv', 'var', 'random',
           'load', 'swap', 'compare_exchange', 'fetch_add', 'is_poisoned', 'thread_rng', 'gen', 'id', 'current'}
_AP = re.compile(r'(?<![A-Za-z0-9_])(self|arg\d+)((?:\.[A-Za-z_]\w*)|(?:\[\*\]))*')
_CALL = re.compile(r'((?:<[^()]*?>::)?(?:[A-Za-z_]\w*::)*[A-Za-z_]\w*)\(')


def _local_names(W):
    c = getattr(W, '_vocab_local', None)
    if c is None:
        c = set()
        for f in W.fns():
            segs = f.path.split('::')
            c.add('::'.join(segs[-2:]))
            c.add(segs[-1])
        W._vocab_local = c
    return c


def leaves_of_term(W, t):
    """what a condition term draws on: access paths rooted at self / a parameter, crate-local functions, and external functions that are a source of
    information of their own (locks, clocks, zero-argument calls).  Pure library adaptors applied to those (`unwrap_or`, `min`, `len`, `is_empty`, iterator
    chains) add nothing: `len(self.q) == 0` and `is_empty(self.q)` have the same leaves."""
    out = set()
    for m in _AP.finditer(t):
        out.add(m.group(0))
    loc = _local_names(W)
    for m in _CALL.finditer(t):
        name = m.group(1)
        seg = name.split('::')[-1]
        rest = t[m.end():]
        if name in loc or ('::'.join(name.split('::')[-2:]) in loc and '::' in name):
            out.add(name + '()')
        elif seg in SOURCES or rest.startswith(')'):
            out.add(name + '()')
    for m in re.finditer(r'closure ([\w:<> {}#]+)', t):
        pass
    return out


def vocabulary(W, f):
    out = set()
    for g_ in [f] + W.closures_of(f):
        G = W.guards(g_)
        cfg = cfg_of(g_)
        for b in g_.blocks:
            if b.cleanup or b.id not in cfg.reach:
                continue
            for c in G.guard(b.id):
                for a in c:
                    for t in terms_of_atom(a):
                        out |= leaves_of_term(W, t)
    return out


def rule_for(pid):
    def rule(W, ob):
        n = 0
        for e in table():
            if pid not in e['props']:
                continue
            f = W.fn(e['fn'])
            n += 1
            voc = vocabulary(W, f)
            new = sorted(voc - set(e['terms']))
            ob.check(not new, 'condition|%s' % short(f.path), '%s: its %d condition term(s) are all reviewed' % (short(f.path), len(voc)),
                     '%s is now also conditioned on %s: a kind of condition that was not there when its body was reviewed -- what the rules assume about this helper '
                     '(%s) may no longer hold on every call' % (short(f.path), '; '.join('`%s`' % x[:90] for x in new[:4]), e.get('pins', 'see rules/helpers.py')), where(f))
        ob.require_count(n, 1, 'pinned helpers of %s' % pid)
    return rule
