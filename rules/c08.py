"""C08 -- malformed or foreign packets are discarded without panic or effect (structural part)."""
from .lib import *
from .cfg import cfg_of, callee_matches
from .sem import key, dnf_str
from . import c01, panics

LEVEL = 'other'
EXPLANATION = ('Static rule checking: the Shutdown/magic filters dominate every handler, only handshake messages are handled '
               'before the remote is authenticated, an input packet is validated before any of its fields is used (also before '
               'the ack is applied), decoder rejections emit nothing, and the panic-capable-site inventory over the call-graph '
               'closure of handle_message has no open site (guard / range / modulo / non-empty / struct-invariant discharge, a '
               'short reviewed table, reviewed external callees). "Valid traffic is processed correctly afterwards" is NOT decided.')
NOT_DECIDED = ['valid traffic continues to be processed correctly afterwards', 'arithmetic overflow of i32 frame counters (inventoried, not claimed)']
ASSUMPTIONS = c01.ASSUMPTIONS + ['tables/std_total.json: the listed external callees are total', 'tables/panic_sites.json: the listed sites are safe for the stated reason']

UDP = c01.UDP
P2P = c01.P2P
SP = 'sessions::p2p_spectator_session::SpectatorSession'
HANDLERS = ['on_sync_request', 'on_sync_reply', 'on_input', 'on_input_ack', 'on_quality_report', 'on_quality_reply', 'on_checksum_report']
HANDSHAKE = ('on_sync_request', 'on_sync_reply')


def magic_ok(conj):
    unknown = any(match_lin(a, [(exact('self.remote_magic'), 1)], eq=0) for a in conj)
    same = any(match_lin(a, [(exact('arg2.header.magic'), 1), (exact('self.remote_magic'), -1)], eq=0) for a in conj)
    return unknown or same


def o1(W, ob):
    f = W.fn(UDP + '::handle_message')
    G = W.guards(f)
    n = 0
    for h in HANDLERS:
        for b in sites(W, f, UDP + '::' + h):
            n += 1
            g = G.guard(b)
            ok = bool(g) and guard_has_is(g, 'self.state', 'Shutdown', False) and all(magic_ok(c) for c in g)
            ob.check(ok, 'handle_message|filters|%s' % h, '%s is reached only past the Shutdown and magic filters' % h,
                     '%s is dispatched without the Shutdown/magic filter: %s' % (h, dnf_str(g)[:300]), where(f, f.blocks[b].term.line))
    ob.require_count(n, 7, 'handler dispatch sites in handle_message')
    for w in stores_in(W, f, 'last_recv_time'):
        g = G.guard(w['bb'])
        ok = bool(g) and guard_has_is(g, 'self.state', 'Shutdown', False) and all(magic_ok(c) for c in g)
        ob.check(ok, 'handle_message|last_recv_time', 'only filtered packets refresh last_recv_time',
                 'last_recv_time is refreshed by unfiltered packets: ' + dnf_str(g)[:300], where(f, w['line']))
    # address filter in both sessions
    for name in (P2P + '::poll_remote_clients', SP + '::poll_remote_clients'):
        pf = W.fn(name)
        Gp = W.guards(pf)
        hs = sites(W, pf, UDP + '::handle_message')
        ob.require_count(len(hs), 2 if 'P2P' in name else 1, 'handle_message call sites in %s' % short(pf.path))
        for b in hs:
            g = Gp.guard(b)
            ok = every_disjunct_has(g, lambda a: (a[0] == 'is' and a[2] == 'Some' and a[3] and ('remotes[' in a[1] or 'spectators[' in a[1]))
                                    or (a[0] == 'bool' and 'is_handling_message(' in a[1] and a[2] is True)
                                    or (a[0] in ('relz',) and 'peer_addr' in repr(a)))
            ob.check(ok, '%s|address-filter' % short(pf.path), 'a message reaches an endpoint only through a lookup of its source address',
                     'handle_message is called without an address lookup in %s: %s' % (short(pf.path), dnf_str(g)[:200]), where(pf, pf.blocks[b].term.line))
    ihm = W.fn(UDP + '::is_handling_message')
    e = W.ctx(ihm).expr_place(__import__('rules.facts', fromlist=['Place']).Place({'l': 0, 'p': []}))
    ob.check(e[0] == 'bin' and e[1] == 'Eq' and 'peer_addr' in key(e), 'is_handling_message|compares-address', 'is_handling_message compares the peer address',
             'is_handling_message returns `%s`' % key(e), where(ihm))


def authenticated(conj):
    st = (any(a == ('is', 'self.state', 'Initializing', False) for a in conj) and any(a == ('is', 'self.state', 'Synchronizing', False) for a in conj)) \
        or any(a[0] == 'is' and a[1] == 'self.state' and a[3] and a[2] in ('Running', 'Disconnected') for a in conj)
    mg = any(match_lin(a, [(exact('arg2.header.magic'), 1), (exact('self.remote_magic'), -1)], eq=0) for a in conj) and \
        any(match_lin(a, [(exact('self.remote_magic'), 1)], neq=0) for a in conj)
    return st or mg


def o1b(W, ob):
    f = W.fn(UDP + '::handle_message')
    G = W.guards(f)
    n = 0
    for h in HANDLERS:
        if h in HANDSHAKE:
            continue
        for b in sites(W, f, UDP + '::' + h):
            n += 1
            g = G.guard(b)
            ok = bool(g) and all(authenticated(c) for c in g)
            ob.check(ok, 'handle_message|handshake-only|%s' % h, '%s is handled only once the remote is authenticated' % h,
                     '%s is dispatched while the remote is still unknown (state Initializing/Synchronizing and remote_magic == 0): a packet '
                     'with another session\'s magic would be processed; guard: %s' % (h, dnf_str(g)[:300]), where(f, f.blocks[b].term.line))
    ob.require_count(n, 5, 'non-handshake handler dispatch sites')
    # NetworkResumed likewise
    for s in event_constructions(W, f, 'Event'):
        g = G.guard(s.bb)
        ob.check(bool(g) and all(authenticated(c) for c in g), 'handle_message|event-authenticated|%s' % s.rv.j['variant'],
                 'Event::%s is emitted only for an authenticated remote' % s.rv.j['variant'], 'Event::%s can be triggered by an unauthenticated packet' % s.rv.j['variant'],
                 where(f, s.line))


def shape_ok(conj):
    start = any(match_lin(a, [(exact('arg2.start_frame'), 1)], lo=0) for a in conj)
    dr = ('bool', 'arg2.disconnect_requested', True) in conj
    ln = any(match_lin(a, [(exact('len(arg2.peer_connect_status)'), 1), (exact('self.num_players'), -1)], eq=0) for a in conj)
    return start and (dr or ln)


def o2(W, ob):
    f = W.fn(UDP + '::on_input')
    G = W.guards(f)
    cx = W.ctx(f)
    uses = []
    for pat in (UDP + '::pop_pending_output', 'compression::decode', UDP + '::send_input_ack', UDP + '::last_recv_frame'):
        for b in sites(W, f, pat):
            uses.append((pat.split('::')[-1], b, f.blocks[b].term.line))
    for w in W.writes():
        if w['fn'] is f and w['kind'] == 'store':
            uses.append(('store ' + w['ap'].s(f, generic=True), w['bb'], w['line']))
    for t in f.calls():
        if last_seg(t.callee.best) in ('push_back', 'insert', 'retain') and t.args and t.args[0].is_place() and \
                cx.ap_carry(t.args[0].place).root[0] == 'arg':
            uses.append((last_seg(t.callee.best), t.bb, t.line))
    ob.require_count(len(uses), 12, 'effects and uses in on_input')
    bad = []
    for nm, b, ln in uses:
        g = G.guard(b)
        if not (g and all(shape_ok(c) for c in g)):
            bad.append((nm, ln, g))
    for nm, ln, g in bad:
        ob.fail('on_input|use-before-validation|%s' % nm, '`%s` in on_input happens before the packet passed both shape checks (status count, '
                'start_frame >= 0): a rejected packet would still have an effect; guard: %s' % (nm, dnf_str(g)[:200]), where(f, ln))
    if not bad:
        ob.ok('all %d effects/uses in on_input are dominated by both shape checks' % len(uses), where(f))
    # reads of body.peer_connect_status[..] only when the packet does not request a disconnect
    reads = [t for t in f.calls() if last_seg(t.callee.best) == 'index' and t.args and t.args[0].is_place() and
             cx.ap_carry(t.args[0].place).s(f, generic=True) == 'arg2.peer_connect_status']
    # ... the same read spelled on a slice (`statuses[i]` is a place projection, not a call) or as an iteration (`body.peer_connect_status.iter()` zipped with ours)
    class _Site:
        def __init__(self, bb, line):
            self.bb, self.line = bb, line
    seen_bb = {t.bb for t in reads}
    for b in f.blocks:
        if b.cleanup:
            continue
        for st in b.stmts:
            if st.k != 'assign' or b.id in seen_bb:
                continue
            pls = [o.place for o in st.rv.operands() if o.is_place()] + ([st.rv.place] if st.rv.place is not None else [])
            if any(p.proj and cx.ap_carry(p).s(f, generic=True).startswith('arg2.peer_connect_status[') for p in pls):
                reads.append(_Site(b.id, st.line))
                seen_bb.add(b.id)
        t2 = b.term
        if t2.k == 'call' and b.id not in seen_bb and last_seg(t2.callee.best) in ('iter', 'into_iter') and t2.args and t2.args[0].is_place() and \
                cx.ap_carry(t2.args[0].place).s(f, generic=True) == 'arg2.peer_connect_status':
            reads.append(_Site(b.id, t2.line))
            seen_bb.add(b.id)
    ob.require_count(len(reads), 1, 'reads of body.peer_connect_status[..]')
    for t in reads:
        g = G.guard(t.bb)
        ok = guard_has_bool(g, 'arg2.disconnect_requested', False) and every_disjunct_has(
            g, lambda a: match_lin(a, [(exact('len(arg2.peer_connect_status)'), 1), (exact('self.num_players'), -1)], eq=0))
        ob.check(ok, 'on_input|status-read-validated', 'peer statuses are read only from a packet with exactly num_players of them',
                 'body.peer_connect_status is indexed under ' + dnf_str(g)[:200], where(f, t.line))


def o3(W, ob):
    f = W.fn(UDP + '::on_input')
    G = W.guards(f)
    cfg = cfg_of(f)
    cx = W.ctx(f)
    rej = []
    for b in f.blocks:
        if b.cleanup or b.id not in cfg.reach:
            continue
        g = G.guard(b.id)
        if g and every_disjunct_has(g, lambda a: a[0] == 'is' and a[2] == 'Err' and a[3] and ('decode(' in a[1] or 'to_player_inputs(' in a[1])):
            rej.append(b.id)
    ob.require_count(len(rej), 2, 'rejection blocks in on_input')
    eff = [t.bb for t in f.calls() if last_seg(t.callee.best) in ('insert', 'push_back') and t.args and t.args[0].is_place() and
           cx.ap_carry(t.args[0].place).root[0] == 'arg']
    firsts = [b for b in rej if not any(p in rej for p in cfg.pred[b])]
    for b in firsts:
        r = cfg.reachable_after(b) | {b}
        hit = [e for e in eff if e in r]
        ob.check(not hit, 'on_input|rejection-emits', 'a decoder rejection returns without storing or announcing anything',
                 'after a decoder rejection on_input can still store/announce input', where(f, f.blocks[b].term.line))
    tp = W.fn('InputBytes::to_player_inputs')
    Gt = W.guards(tp)
    idx = [t for t in tp.calls() if last_seg(t.callee.best) == 'index']
    ob.require_count(len(idx), 1, 'slice site in to_player_inputs')
    for t in idx:
        g = Gt.guard(t.bb)
        ok = every_disjunct_has(g, lambda a: match_lin(a, [(exact('arg2'), 1)], neq=0)) and \
            every_disjunct_has(g, lambda a: a[0] == 'bool' and 'is_multiple_of(' in a[1] and a[2] is True)
        ob.check(ok, 'to_player_inputs|shape-before-slice', 'player count and divisibility are checked before slicing',
                 'to_player_inputs slices under ' + dnf_str(g)[:200], where(tp, t.line))


def o5(W, ob):
    """a frame that was recorded as received is also handed to the session, on every path: the two pieces of state move together"""
    from .world import GROW_FNS
    f = W.fn(UDP + '::on_input')
    cx = W.ctx(f)
    cfg = cfg_of(f)
    G = W.guards(f)
    ins = [t for t in f.calls() if last_seg(t.callee.best) == 'insert' and t.args and t.args[0].is_place() and 'recv_inputs' in cx.ap_carry(t.args[0].place).s(f)]
    ob.require_count(len(ins), 1, 'recv_inputs.insert in on_input')
    deliver = [t for t in f.calls() if t.callee.indirect is None and last_seg(t.callee.best) in GROW_FNS and t.args and t.args[0].is_place() and
               cx.ap_carry(t.args[0].place).s(f).startswith('self.event_queue')]
    ob.require_count(len(deliver), 1, 'sites that hand events to the endpoint\'s event queue in on_input')
    loops = G.loop_by_header()
    for t in ins:
        through = set(d.bb for d in deliver)
        for d in deliver:
            # the per-player loop that follows the store: passing its header counts (it runs once per decoded player input)
            inner = [(h, body) for h, body in loops.items() if d.bb in body and t.bb not in body]
            if inner:
                h, body = min(inner, key=lambda x: len(x[1]))
                through.add(h)
        pth = cfg.path_from_avoiding(t.bb, sorted(through))
        ob.check(pth is None, 'on_input|stored-then-delivered', 'every frame stored in recv_inputs is handed to the session before on_input returns',
                 'a frame can be stored in recv_inputs (so it is acknowledged and skipped as a duplicate from then on) while on_input returns without queueing its Event::Input: '
                 'the session never receives that frame', where(f, t.line), witness=path_str(f, pth) if pth else None)
    # and the stored entry is what was delivered: both come from the same decoded frame
    for fn2, st in W.constructions('Event', 'Input'):
        if fn2 is not f:
            continue
        in_same_iteration = any(cfg.path_avoiding([st.bb], [t.bb]) is None for t in ins)
        ob.check(in_same_iteration, 'on_input|delivered-after-stored', 'events are built only after the frame was stored', 'Event::Input is built on a path that did not store the frame', where(f, st.line))



def o6(W, ob):
    """the bundled UDP socket: what cannot be parsed is skipped, what was parsed is kept"""
    from .helpers import ret_alts
    fs = [f for f in W.fns() if f.path.endswith('::receive_all_messages') and 'udp_socket' in f.path and f.kind != 'closure']
    ob.require_count(len(fs), 1, 'UdpNonBlockingSocket::receive_all_messages')
    if not fs:
        return
    f = fs[0]
    cx = W.ctx(f)
    cfg = cfg_of(f)
    G = W.guards(f)
    recv = [t for t in f.calls() if last_seg(t.callee.best) == 'recv_from']
    des = [t for t in f.calls() if (t.callee.path or t.callee.best or '').startswith('bincode::') and 'deserialize' in last_seg(t.callee.best)]
    push = [t for t in f.calls() if last_seg(t.callee.best) in ('push', 'push_back', 'extend')]
    ob.require_count(len(recv), 1, 'recv_from')
    ob.require_count(len(des), 1, 'deserialize')
    ob.require_count(len(push), 1, 'push of a received message')
    if not (recv and des and push):
        return
    # (a) a datagram that does not parse is skipped: after the attempt to deserialize, every path goes back to recv_from (none returns)
    p1 = cfg.path_from_avoiding(des[0].bb, [recv[0].bb])
    ob.check(p1 is None, 'receive_all_messages|malformed-skipped', 'whatever bincode makes of a datagram, the receive loop goes on to the next one',
             'after a datagram was (or could not be) deserialized, receive_all_messages can return without looking at the datagrams behind it: one malformed '
             'packet hides valid traffic queued after it', where(f, des[0].line), witness=path_str(f, p1) if p1 else None)
    # (b) what is returned is the vector the messages were pushed to, on every return
    acc = None
    a0 = push[0].args[0]
    if a0.is_place() and not a0.place.proj:
        ds = cx.full_defs(a0.place.local)
        if len(ds) == 1 and ds[0][0] == 'stmt' and ds[0][1].rv.k == 'ref' and not ds[0][1].rv.place.proj:
            acc = ds[0][1].rv.place.local      # push(&mut acc, ..)
    rets = []
    for kind, d in cx.full_defs(0):
        if kind == 'stmt' and d.rv.k == 'use' and d.rv.a is not None and d.rv.a.is_place() and not d.rv.a.place.proj:
            rets.append(d.rv.a.place.local)
        else:
            rets.append(None)
    ok = acc is not None and bool(rets) and all(r == acc for r in rets)
    ob.check(ok, 'receive_all_messages|returns-collected', 'every return hands back the messages collected so far',
             'receive_all_messages does not return the vector the messages are collected in on every exit: what was received before is dropped', where(f))
    # (c) a message is kept whenever it parsed: nothing else conditions the push
    eg = G.essential_guard(push[0].bb)
    ok = all(all(a[0] == 'is' and a[2] in ('Ok', 'Some') and a[3] for a in c) for c in eg)
    ob.check(ok, 'receive_all_messages|keeps-parsed', 'a datagram that parses is handed on unconditionally (filtering by address and magic is the endpoint\'s business: C08.O1)',
             'a parsed message is kept only under `%s`' % dnf_str(eg)[:200], where(f, push[0].line))
    # (d) exactly the received bytes are parsed
    e = key(cx.expr_operand(des[0].args[0]))
    ok = 'self.buffer[Range{start: 0, end: UdpSocket::recv_from(' in e and e.rstrip('}]').endswith('.Ok.0.0')
    ob.check(ok, 'receive_all_messages|slice', 'the bytes parsed are buffer[0..n] with n the length recv_from reported',
             'deserialize is given `%s`' % e[:160], where(f, des[0].line))
    # (e) the source address travels with the message
    a1 = key(cx.expr_operand(push[0].args[1]))
    ok = a1.startswith('tuple{0: UdpSocket::recv_from(') and '.Ok.0.1, 1: ' in a1 and 'deserialize(' in a1
    ob.check(ok, 'receive_all_messages|address-with-message', 'each message is paired with the source address of its own datagram', 'the pushed pair is `%s`' % a1[:200], where(f, push[0].line))


def o4(W, ob):
    entries = [W.fn(UDP + '::handle_message')]
    # handle_message logs the whole message with {:?}: the hand-written Debug / Display impls of the wire types are on the untrusted path too, whenever a
    # subscriber enables that level (they are reached through the formatting machinery, which the call graph does not see)
    fmts = [f for f in W.fx.fn_list if not f.derived and f.kind == 'method' and f.path.endswith('::fmt') and 'network::' in f.path]
    ob.require_count(len(fmts), 2, 'hand-written fmt impls of the wire types')
    entries += fmts
    st = panics.check_closure(W, ob, entries, 'untrusted-packet path (closure of UdpProtocol::handle_message)', 'O4')
    ob.require_count(st['sites'], 6, 'panic-capable sites on the untrusted path')   # a vacuity guard only: FEWER panic-capable sites (an index loop respelled as a zip) is never worse
    ob.check(W.fx.unsafe_code_lint.lower() == 'forbid', 'crate|forbid-unsafe', '#![forbid(unsafe_code)] is in force',
             'the crate no longer forbids unsafe code (lint level %s)' % W.fx.unsafe_code_lint, None)
    # struct invariants used by the discharge are protected: no resize of the fixed-size vectors after construction
    for field, adt in (('peer_connect_status', 'UdpProtocol'), ('handles', 'UdpProtocol')):
        ex, _ = W.writes_to_field(field)
        for w in ex:
            if adt not in w['fn'].path and adt not in (w['fn'].self_ty or ''):
                continue
            if not w['ap'].s(w['fn'], generic=True).startswith('self.' + field):
                continue
            if w['kind'] == 'call' and w['callee'] in ('push', 'pop', 'insert', 'remove', 'clear', 'truncate', 'resize', 'extend', 'drain',
                                                       'retain', 'append', 'swap_remove', 'clone_into', 'clone_from', 'sort_unstable', 'sort'):
                okk = match_path(w['fn'].path, UDP + '::new') or w['callee'] in ('sort_unstable', 'sort')
                ob.check(okk, 'invariant|%s.%s|resized-in|%s' % (adt, field, short(w['fn'].path)),
                         '%s.%s is sized in the constructor only' % (adt, field),
                         '%s.%s is resized in %s (%s): the length invariant the panic discharge relies on no longer holds' % (
                             adt, field, short(w['fn'].path), w['callee']), where(w['fn'], w['line']))
            if w['kind'] == 'store' and not w['ap'].steps[-1].startswith('['):
                ob.check(match_path(w['fn'].path, UDP + '::new'), 'invariant|%s.%s|assigned-in|%s' % (adt, field, short(w['fn'].path)),
                         '%s.%s is assigned in the constructor only' % (adt, field), '%s.%s is reassigned in %s' % (adt, field, short(w['fn'].path)),
                         where(w['fn'], w['line']))
    n = W.fn(UDP + '::new')
    cx = W.ctx(n)
    pushes = [t for t in n.calls() if last_seg(t.callee.best) == 'push']
    okp = False
    for t in pushes:
        r = None
        # pushed inside `for _ in 0..num_players`
        hdr = [x for x in n.calls() if last_seg(x.callee.best) == 'next' and x.bb in cfg_of(n).dominators().get(t.bb, ())]
        for x in hdr:
            src = trace_back(W, n, x.args[0], through=set())
            if src and src[0] == 'stmt' and src[1].rv.k == 'agg':
                fields = dict(zip(src[1].rv.j['fields'], src[1].rv.ops))
                if 'end' in fields and key(cx.expr_operand(fields['end'])) == 'arg3' or ('end' in fields and 'num_players' in (n.local_name(fields['end'].place.local) or '') if fields['end'].is_place() else False):
                    okp = True
    ob.check(okp, 'invariant|peer_connect_status-length', 'peer_connect_status gets one entry per player in the constructor',
             'UdpProtocol::new does not fill peer_connect_status with num_players entries', where(n))


from . import c14
from . import helpers

from . import initial

from . import removals

from . import mustcall

from . import vocab

from . import inventory

OBLIGATIONS = [
    ('C08.O1', 'filters dominate handlers', 'every handler dispatch and the last_recv_time refresh sit behind the Shutdown test and the magic '
     'test; both sessions hand a message to an endpoint only through a lookup of its source address.', o1),
    ('C08.O1b', 'handshake only before authentication', 'Input/InputAck/QualityReport/QualityReply/ChecksumReport are dispatched (and events '
     'emitted) only if state is neither Initializing nor Synchronizing, or the magic equals a non-zero remote magic.', o1b),
    ('C08.O2', 'validate before use', 'every effect and use in on_input (ack pop, status merge, decode, stores) is dominated by both shape '
     'checks; peer statuses are read only under len == num_players.', o2),
    ('C08.O3', 'rejections emit nothing', 'after a decode / to_player_inputs error no frame is stored or announced; to_player_inputs checks '
     'player count and divisibility before slicing.', o3),
    ('C08.O5', 'stored <=> delivered', 'in on_input a frame recorded in recv_inputs (hence acknowledged and skipped as a duplicate from then on) is handed to the session on every path to return: no rejection of a LATER frame of the same packet may come between storing a frame and queueing its events.', o5),
    ('C08.O6', 'the bundled UDP socket skips what it cannot parse and keeps what it parsed', 'in UdpNonBlockingSocket::receive_all_messages the loop goes on after a datagram bincode rejects (no path from the deserialize call to a return avoids the next recv_from); every return hands back the vector the parsed messages were pushed to; a parsed message is kept unconditionally, with the source address of its own datagram; exactly buffer[0..n] is parsed.', o6),
    ('C08.O4', 'no open panic site on the untrusted path', 'inventory of panic-capable sites over the closure of handle_message: each is '
     'discharged by analysis or listed with a reason; external callees are in the reviewed totality table; unsafe code is forbidden; the '
     'length invariants used are protected by writer checks.', o4),
    ('C08.O7', 'decode is total on any byte string (= C14.O1)', 'the clause "a compressed payload that is not a valid encoding (any byte string at all) ... never panics" is the totality of decode: no open panic site in its closure, shifts below the width, unsigned subtractions bounded (a length read from the packet is never subtracted from the cap); see C14.O1', c14.o1),
    ('C08.H', 'helpers the rules above rely on', 'the bodies of the helpers named by this property\'s rules compute what the rules assume (last_recv_frame); see rules/helpers.py', helpers.bundle('last_recv_frame')),
    ('C08.I', 'initial state', 'every constructor gives the fields this property\'s rules interpret (NULL_FRAME = none / nothing yet, 0 = first frame, latches open, typestate start) the value listed in tables/initial_state.json; every field compared with NULL_FRAME anywhere is listed; see rules/initial.py', initial.rule_for('C08')),
    ('C08.R', 'who may remove', 'every call that takes elements out of a collection this property\'s rules rely on (keyed removal from a map, or bulk / positional removal) is one of the reviewed sites in tables/removals.json; a lookup turned into a removal, a second prune, a clear on another path is reported; see rules/removals.py', removals.rule_for('C08')),
    ('C08.M', 'must-call floor', 'the calls listed for this property in tables/must_call.json are made on every path from the entry of their function to a normal return (interprocedural must-call): a new early return, fast path or extra condition in front of one of them is reported; see rules/mustcall.py', mustcall.rule_for('C08')),
    ('C08.V', 'no unreviewed condition in the pinned helpers', 'for each helper whose body this property\'s rules pin (tables/condition_terms.json), the terms its path conditions are built from (fields, parameters, call results -- no constants, operators or local names) are a subset of the reviewed vocabulary: one more `if` in front of a pinned result (a lock that may time out, "only while an endpoint is running") is reported; see rules/vocab.py', vocab.rule_for('C08')),
    ('C08.S', 'state inventory', 'every field of the structs this property\'s rules read (tables/state.json) is known, and is written only by its reviewed writers (or helpers only they call): a new field is new state across calls -- a cache, a flag, a stored deadline -- that nothing has shown to stay in step; a new writer is a second place that resets, re-arms or moves something; see rules/inventory.py', inventory.state_rule_for('C08')),
    ('C08.K', 'call inventory', 'every reviewed call of a function that writes state (tables/call_edges.json, callers in the structs this property\'s rules read) is still made, directly or through helpers: a call deleted as redundant is reported; likewise the arguments of logging / debug-only macros change no state, no unreviewed call of a state-writing function appears (tables/call_edges_all.json), the types of the locals a loop carries from one iteration to the next (tables/carried.json) and, per function and field, how reads and writes of the field are ordered (tables/orders.json: a snapshot taken before instead of after an update) are as reviewed; see rules/inventory.py', inventory.call_rule_for('C08')),
    ('C08.A', 'expression inventory', 'every arithmetic expression handed to a call or stored in a field, and what every closure given to an iterator adaptor / collection method returns, is one of the reviewed expressions of its function (tables/expressions.json; linear / guard normal forms, no local names): a changed literal, operator, operand order, factor, predicate or sort key is reported; see rules/inventory.py', inventory.expr_rule_for('C08')),
    ('C08.Z', inventory.CONST_TITLE, inventory.CONST_TEXT, inventory.const_rule_for('C08')),
]
