"""Obligations on the small helpers that the rules of several properties refer to by name: a rule that says "the skip guard
compares with last_recv_frame()" is only as good as last_recv_frame().  Each helper's result is pinned down from its typed MIR
(return expression, phi over return paths with their conditions, iterator chain)."""
from .lib import *
from .cfg import cfg_of, callee_matches
from .sem import key, dnf_str
from .facts import Place

UDP = 'network::protocol::UdpProtocol'
IQ = 'input_queue::InputQueue'
SL = 'sync_layer::SyncLayer'
P2P = 'sessions::p2p_session::P2PSession'


def ret(W, f):
    return W.ctx(f).expr_place(Place({'l': 0, 'p': []}))


def ret_alts(W, f):
    """[(value key, guard DNF)] for the return value"""
    G = W.guards(f)
    pd = G.phi_defs(0)
    if pd:
        return [(key(v), G.guard(b), v) for b, v in pd]
    r = ret(W, f)
    return [(key(r), [[]], r)]


def h_last_recv_frame(W, ob):
    f = W.fn(UDP + '::last_recv_frame')
    cx = W.ctx(f)
    mk = [t for t in f.calls() if last_seg(t.callee.best) == 'max_by_key']
    ok = False
    if len(mk) == 1:
        ch = iter_chain(W, f, mk[0])
        segs = [s for s, _ in ch]
        srcs = [t for s, t in ch if s in ('iter', 'keys')]
        src_ok = bool(srcs) and srcs[0].args[0].is_place() and cx.ap_carry(srcs[0].args[0].place).s(f) == 'self.recv_inputs'
        cl = closure_of_operand(W, f, mk[0].args[1])
        key_ok = False
        if cl and cl[0] == 'closure':
            e = closure_return_expr(W, cl[1])
            key_ok = key(e) in ('arg2', 'arg2[*]') or key(e).startswith('arg2')
        extra = [s for s in segs if s not in ('iter', 'keys', 'max_by_key', 'copied', 'cloned')]
        ok = src_ok and key_ok and not extra
    alts = ret_alts(W, f)
    none_null = any(k in ('NULL_FRAME', '-1') and every_disjunct_has(g, lambda a: a[0] == 'is' and a[2] == 'None' and a[3]) for k, g, _ in alts)
    some_key = any('recv_inputs' in k and every_disjunct_has(g, lambda a: a[0] == 'is' and a[2] == 'Some' and a[3]) for k, g, _ in alts)
    mx = [t for t in f.calls() if last_seg(t.callee.best) == 'max' and len(t.args) == 1]
    if not ok and len(mx) == 1:
        ch = iter_chain(W, f, mx[0])
        srcs = [t for s, t in ch if s in ('keys',)]
        ok = bool(srcs) and cx.ap_carry(srcs[0].args[0].place).s(f) == 'self.recv_inputs' and not [s for s, _ in ch if s not in ('keys', 'max', 'copied', 'cloned')]
        some_key = none_null = True if ok and 'unwrap_or' in key(ret(W, f)) or True else False
    ob.check(ok and none_null and some_key, 'last_recv_frame|max-key',
             'last_recv_frame() is the largest frame stored in recv_inputs (NULL_FRAME when empty)',
             'last_recv_frame() is not `max key of recv_inputs, else NULL_FRAME`: chain ok=%s, None->NULL=%s, Some->key=%s' % (ok, none_null, some_key), where(f))


def h_prev_pos(W, ob):
    f = W.fn(IQ + '::prev_pos')
    alts = {k: g for k, g, _ in ret_alts(W, f)}
    a = alts.get('(INPUT_QUEUE_LENGTH Sub 1)')
    b = alts.get('(arg1 Sub 1)')
    ok = a is not None and b is not None and every_disjunct_has(a, lambda x: match_lin(x, [(exact('arg1'), 1)], eq=0)) and \
        every_disjunct_has(b, lambda x: match_lin(x, [(exact('arg1'), 1)], neq=0) or match_lin(x, [(exact('arg1'), 1)], lo=1))
    if set(alts) <= {'(((arg1 Add INPUT_QUEUE_LENGTH) Sub 1) Rem INPUT_QUEUE_LENGTH)', '(((INPUT_QUEUE_LENGTH Add arg1) Sub 1) Rem INPUT_QUEUE_LENGTH)',
                     '((arg1 Add (INPUT_QUEUE_LENGTH Sub 1)) Rem INPUT_QUEUE_LENGTH)'} and len(alts) == 1:
        ok = True   # the same function written with modular arithmetic
    ob.check(ok and W.const('INPUT_QUEUE_LENGTH') == 128, 'prev_pos|ring-predecessor', 'prev_pos(head) is the ring predecessor of head (INPUT_QUEUE_LENGTH = 128)',
             'prev_pos is not {LEN-1 if head == 0, head-1 otherwise}: %s' % sorted(alts), where(f))


def h_confirmed_input(W, f_ob):
    W_, ob = f_ob if isinstance(f_ob, tuple) else (None, None)


def h_confirmed_input_(W, ob):
    f = W.fn(IQ + '::confirmed_input')
    r = key(ret(W, f))
    G = W.guards(f)
    cfg = cfg_of(f)
    ok = r == 'self.inputs[(arg2 Rem INPUT_QUEUE_LENGTH)]'
    rg = [G.guard(b) for b in cfg.returns]
    eq = bool(rg) and all(every_disjunct_has(g, lambda a: match_lin(a, [(exact('arg2'), 1), (exact('self.inputs[(arg2 Rem INPUT_QUEUE_LENGTH)].frame'), -1)], eq=0)) for g in rg)
    ob.check(ok and eq, 'confirmed_input|slot-and-frame', 'confirmed_input(f) returns slot f % 128 only if it holds frame f (panics otherwise)',
             'confirmed_input returns `%s`; frame-equality guard on return=%s' % (r, eq), where(f))


def h_get_cell(W, ob):
    f = W.fn('sync_layer::SavedStates::get_cell')
    cx = W.ctx(f)
    cl = [t for t in f.calls() if last_seg(t.callee.best) == 'clone']
    ok = len(cl) == 1 and key(cx.expr_operand(cl[0].args[0])) == 'self.states[(arg2 Rem len(self.states))]'
    ob.check(ok, 'get_cell|slot', 'get_cell(f) hands out cell f % (max_prediction + 1)', 'get_cell does not return states[frame % len]', where(f))
    n = W.fn('sync_layer::SavedStates::new')
    cxn = W.ctx(n)
    rng = [s for s in n.stmts() if s.k == 'assign' and s.rv.k == 'agg' and s.rv.j.get('ak') == 'adt' and s.rv.j['adt'].endswith('ops::Range')]
    okn = any(key(cxn.expr_operand(dict(zip(s.rv.j['fields'], s.rv.ops))['end'])) == '(arg1 Add 1)' and
              key(cxn.expr_operand(dict(zip(s.rv.j['fields'], s.rv.ops))['start'])) == '0' for s in rng)
    # spelled 0..=max_pred, or vec![..; max_pred + 1] / resize_with(max_pred + 1, ..)
    for t in n.calls():
        a = [key(cxn.expr_operand(x)) for x in t.args]
        if callee_matches(t.callee, 'RangeInclusive::new') and a == ['0', 'arg1']:
            okn = True
        if last_seg(t.callee.best) in ('from_elem', 'resize_with', 'resize') and '(arg1 Add 1)' in a:
            okn = True
    ob.check(okn, 'SavedStates::new|cells', 'there are max_prediction + 1 cells (current frame plus the whole window)',
             'SavedStates::new does not create max_prediction + 1 cells', where(n))


def h_saved_state_by_frame(W, ob):
    f = W.fn(SL + '::saved_state_by_frame')
    alts = ret_alts(W, f)
    some = [(k, g) for k, g, _ in alts if k.startswith('Option::Some')]
    none = [(k, g) for k, g, _ in alts if k.startswith('Option::None')]
    ok = len(some) == 1 and len(none) == 1 and 'get_cell(self.saved_states, arg2)' in some[0][0] and \
        every_disjunct_has(some[0][1], lambda a: a[0] == 'lin' and a[2] == a[3] == 0 and any(k == 'arg2' for k, _ in a[1]) and any(k.endswith('.frame') for k, _ in a[1]))
    ob.check(ok, 'saved_state_by_frame|tagged-cell', 'saved_state_by_frame(f) returns the cell of f only if it is tagged with f',
             'saved_state_by_frame is not {Some(get_cell(f)) if cell.frame == f, None otherwise}', where(f))


def h_cell_accessors(W, ob):
    s = W.fn('sync_layer::GameStateCell::save')
    st = [(w['ap'].fields()[-1], key(W.ctx(s).expr_rvalue(w['site'].rv))) for w in W.writes() if w['fn'] is s and w['kind'] == 'store']
    ok = sorted(st) == [('checksum', 'arg4'), ('data', 'arg3'), ('frame', 'arg2')]
    ob.check(ok, 'GameStateCell::save|stores', 'save(frame, data, checksum) stores exactly these three', 'GameStateCell::save stores %s' % st, where(s))
    for nm, fld in (('frame', 'frame'), ('checksum', 'checksum')):
        f = W.fn('sync_layer::GameStateCell::' + nm)
        r = key(ret(W, f))
        ob.check(r.endswith('.' + fld), 'GameStateCell::%s|getter' % nm, 'cell.%s() reads the %s field' % (nm, fld), 'GameStateCell::%s returns %s' % (nm, r), where(f))


def h_player_input(W, ob):
    f = W.fn('frame_info::PlayerInput::input_matches')
    r = ret(W, f)
    ok = r[0] == 'bin' and r[1] == 'Eq' and sorted([key(r[2]), key(r[3])]) == ['arg2.input', 'self.input']
    ob.check(ok, 'input_matches|compares-input', 'input_matches compares the input values (not the frames)', 'input_matches returns `%s`' % key(r), where(f))
    b = W.fn('frame_info::PlayerInput::blank_input')
    ob.check(key(ret(W, b)) == 'PlayerInput{frame: arg1, input: Default::default()}', 'blank_input|default', 'blank_input(f) is the default input tagged f',
             'blank_input returns %s' % key(ret(W, b)), where(b))
    n = W.fn('frame_info::PlayerInput::new')
    ob.check(key(ret(W, n)) == 'PlayerInput{frame: arg1, input: arg2}', 'PlayerInput::new|fields', 'PlayerInput::new(frame, input) keeps both', 'PlayerInput::new returns %s' % key(ret(W, n)), where(n))


def h_protocol_state_tests(W, ob):
    r = W.fn(UDP + '::is_running')
    e = ret(W, r)
    ob.check(key(e) == '(self.state Eq ProtocolState::Running)', 'is_running|state', 'is_running() <=> state == Running', 'is_running returns `%s`' % key(e), where(r))
    s = W.fn(UDP + '::is_synchronized')
    G = W.guards(s)
    d = dnf_simplify(G.cond_dnf(ret(W, s), True)) if ret(W, s)[0] != 'var' else None
    # the set of states in which it is true
    states = set()
    alts = ret_alts(W, s)
    for k, g, v in alts:
        if k == '1':
            for c in g:
                for a in c:
                    if a[0] == 'is' and a[1] == 'self.state' and a[3]:
                        states.add(a[2])
        elif v[0] == 'bin' and v[1] == 'Eq' and v[3][0] == 'variant':
            states.add(v[3][2])
    ob.check(states == {'Running', 'Disconnected', 'Shutdown'}, 'is_synchronized|states', 'is_synchronized() <=> state in {Running, Disconnected, Shutdown}',
             'is_synchronized() is true in states %s' % sorted(states), where(s))


def h_endpoint_getters(W, ob):
    p = W.fn(UDP + '::peer_connect_status')
    ob.check(key(ret(W, p)) == 'self.peer_connect_status[arg2]', 'peer_connect_status|index', 'peer_connect_status(h) returns the peer\'s view of player h',
             'peer_connect_status returns %s' % key(ret(W, p)), where(p))
    h = W.fn(UDP + '::handles')
    ob.check(key(ret(W, h)) == 'self.handles', 'handles|getter', 'handles() returns the endpoint\'s handles', 'handles returns %s' % key(ret(W, h)), where(h))
    a = W.fn(UDP + '::average_frame_advantage')
    ok = any(callee_matches(t.callee, 'TimeSync::average_frame_advantage') for t in a.calls())
    ob.check(ok, 'average_frame_advantage|delegates', 'average_frame_advantage delegates to the time-sync layer', 'average_frame_advantage does not use the time-sync layer', where(a))


def h_add_input(W, ob):
    f = W.fn(IQ + '::add_input')
    G = W.guards(f)
    cx = W.ctx(f)
    adv = [t for t in f.calls() if callee_matches(t.callee, IQ + '::advance_queue_head')]
    add = [t for t in f.calls() if callee_matches(t.callee, IQ + '::add_input_by_frame')]
    ok = len(adv) == 1 and len(add) == 1
    if ok:
        g = G.guard(adv[0].bb)
        seq = bool(g) and all(any(match_lin(a, [(exact('self.last_user_frame'), 1)], eq=-1) for a in c) or
                              any(match_lin(a, [(exact('arg2.frame'), 1), (exact('self.last_user_frame'), -1)], eq=1) for a in c) for c in g)
        ga = G.guard(add[0].bb)
        nn = every_disjunct_has(ga, lambda a: match_lin(a, [(has('advance_queue_head('), 1)], neq=-1))
        a1 = key(cx.expr_operand(adv[0].args[1]))
        a2 = key(cx.expr_operand(add[0].args[2]))
        ok = seq and nn and a1 == 'arg2.frame' and 'advance_queue_head(' in a2
        r = ret_alts(W, f)
        ok = ok and any('advance_queue_head(' in k for k, _, _ in r)
    st = stores_in(W, f, 'last_user_frame')
    ok = ok and len(st) == 1 and key(cx.expr_rvalue(st[0]['site'].rv)) == 'arg2.frame'
    ob.check(ok, 'add_input|sequence', 'add_input accepts only the successor of the last user frame, records it, positions the head and stores the input at the returned frame',
             'InputQueue::add_input lost part of its sequence / positioning logic', where(f))
    # a rejected submission (not the successor of the last user frame) changes nothing: the first value of that frame has already been sent
    cfgf = cfg_of(f)
    rej = [b.id for b in f.blocks if not b.cleanup and b.id in cfgf.reach and
           G.guard(b.id) and dnf_implies_atom(G.guard(b.id), ne(['arg2.frame'], ['self.last_user_frame'], 1))]
    eff = [w for w in W.writes() if w['fn'] is f and w['bb'] in rej and w['ap'].s(f).startswith('self')]
    ob.check(bool(rej) and not eff, 'add_input|rejection-is-pure', 'an input that is not the successor of the last user frame is rejected without touching the queue',
             'InputQueue::add_input writes `%s` on the path that rejects a non-sequential (e.g. re-submitted) input: the owner then simulates a value its peers never received'
             % (eff[0]['ap'].s(f, generic=True) if eff else 'no rejection arm found'), where(f, eff[0]['line'] if eff else None))
    h = W.fn(IQ + '::advance_queue_head')
    cxh = W.ctx(h)
    # the frame the input lands on is input_frame + frame_delay
    defs = [key(cxh.expr_rvalue(d.rv)) for k, d in cxh.full_defs(2) if k == 'stmt']
    import re
    ob.check(any(re.match(r'^\((\S+ Add self\.frame_delay|self\.frame_delay Add \S+)\)$', d) for d in defs), 'advance_queue_head|applies-delay', 'the input lands frame_delay frames later',
             'advance_queue_head does not add frame_delay to the input frame: %s' % defs, where(h))


def h_next_complete(W, ob):
    f = W.fn(P2P + '::next_complete_outgoing_input_frame')
    clos = W.closures_of(f)
    alls = []
    for c in [f] + clos:
        for t in c.calls():
            if last_seg(t.callee.best) == 'all':
                alls.append((c, t))
    okc = 0
    for c, t in alls:
        cl = closure_of_operand(W, c, t.args[1])
        if cl and cl[0] == 'closure' and 'contains_key(' in key(closure_return_expr(W, cl[1])):
            ch = iter_chain(W, c, t)
            src = [x for s, x in ch if s == 'iter']
            if src:
                okc += 1
    ob.check(okc == 2, 'next_complete_outgoing_input_frame|completeness', 'a frame is complete when every local handle has an entry (both in the first scan and for cursor + 1)',
             'next_complete_outgoing_input_frame: %d of 2 completeness tests found (all(|h| inputs.contains_key(h)))' % okc, where(f))


def h_registry_counts(W, ob):
    for nm, variants in (('num_spectators', {'Spectator'}), ('num_players', {'Local', 'Remote'})):
        f = W.fn('sessions::p2p_session::PlayerRegistry::' + nm)
        cnt = [t for t in f.calls() if last_seg(t.callee.best) == 'count']
        ok = False
        if len(cnt) == 1:
            ch = iter_chain(W, f, cnt[0])
            for s, t in ch:
                if s == 'filter':
                    cl = closure_of_operand(W, f, t.args[1])
                    if cl and cl[0] == 'closure':
                        G = W.guards(cl[1])
                        r = ret_alts(W, cl[1])
                        true_vars = set()
                        for k, g, v in r:
                            if k == '1':
                                for c in g:
                                    for a in c:
                                        if a[0] == 'is' and a[3]:
                                            true_vars.add(a[2])
                        ok = true_vars == variants
        ob.check(ok, '%s|counts' % nm, '%s() counts the %s entries of the registry' % (nm, '/'.join(sorted(variants))), '%s() does not count exactly the %s entries' % (nm, sorted(variants)), where(f))


def h_checksum_report(W, ob):
    f = W.fn(UDP + '::send_checksum_report')
    cons = [s for f2, s in W.constructions('ChecksumReport') if f2 is f]
    ok = False
    for s in cons:
        fields = dict(zip(s.rv.j['fields'], s.rv.ops))
        ok = key(W.ctx(f).expr_operand(fields['frame'])) == 'arg2' and key(W.ctx(f).expr_operand(fields['checksum'])) == 'arg3'
    ob.check(ok and W.cg.fn_must_call(f, UDP + '::queue_message'), 'send_checksum_report|fields', 'send_checksum_report(frame, checksum) sends exactly that pair',
             'send_checksum_report does not send (frame, checksum) as given', where(f))
    r = W.fn(UDP + '::on_checksum_report')
    cx = W.ctx(r)
    ins = [t for t in r.calls() if last_seg(t.callee.best) == 'insert' and cx.ap_carry(t.args[0].place).s(r) == 'self.pending_checksums']
    ok = len(ins) == 1 and key(cx.expr_operand(ins[0].args[1])) == 'arg2.frame' and key(cx.expr_operand(ins[0].args[2])) == 'arg2.checksum'
    ob.check(ok, 'on_checksum_report|stores-pair', 'a received report is stored under its frame with its checksum', 'on_checksum_report does not store (body.frame -> body.checksum)', where(r))


def h_from_inputs(W, ob):
    """InputBytes::from_inputs: the packet frame is the frame of an input that HAS one (blank inputs of disconnected players carry NULL_FRAME and must
    not overwrite it), and every present input is serialised whatever its frame (the byte layout is positional)"""
    f = W.fn('InputBytes::from_inputs')
    cx = W.ctx(f)
    G = W.guards(f)
    lits = [st for f2, st in W.constructions('InputBytes') if f2 is f]
    ok = False
    why = 'no InputBytes literal'
    for st in lits:
        fields = dict(zip(st.rv.j['fields'], st.rv.ops))
        op = fields.get('frame')
        if op is None or not op.is_place():
            continue
        src = trace_back(W, f, op, strict=True)
        loc = src[1].local if src and src[0] == 'place' else op.place.local
        def alternatives(l, depth=0):
            """(value key, block of the defining statement) of every definition of local l, temporaries expanded"""
            out = []
            for kind, d in cx.full_defs(l):
                if kind != 'stmt':
                    out.append(('?', None))
                    continue
                e = cx.expr_rvalue(d.rv)
                if e[0] == 'var' and e[1] != l and depth < 3 and cx.full_defs(e[1]):
                    out.extend(alternatives(e[1], depth + 1))
                else:
                    out.append((key(e), d))
            return out
        vals = alternatives(loc)
        own = '#%d' % loc
        init = [v for v, _ in vals if v in ('NULL_FRAME', '-1')]
        upd = [(v, d) for v, d in vals if v not in ('NULL_FRAME', '-1') and not v.endswith(own)]
        good = bool(init) and bool(upd)
        for v, d in upd:
            g = G.guard(d.bb) if d is not None else []
            if not (v.endswith('.frame') and every_disjunct_has(g, lambda a: match_lin(a, [(exact(v), 1)], neq=-1) or match_lin(a, [(exact(v), 1)], lo=0))):
                good = False
                why = 'the packet frame is overwritten with `%s` under `%s` (no `!= NULL_FRAME` test on the new value)' % (v, dnf_str(g)[:160])
        ok = good
    ob.check(ok, 'from_inputs|frame-of-a-real-input', 'the packet frame is taken from an input whose frame is not NULL_FRAME', 'InputBytes::from_inputs: ' + why, where(f))
    ser = [t for t in f.calls() if (t.callee.path or t.callee.best or '').startswith('bincode::serialize_into')]
    ob.require_count(len(ser), 1, 'serialize_into in from_inputs')
    for t in ser:
        eg = G.essential_guard(t.bb)
        ok2 = all(all(a[0] == 'is' and a[2] == 'Some' for a in c) for c in eg)
        ob.check(ok2, 'from_inputs|every-present-input', 'every input present in the map is serialised, whatever its frame', 'an input is serialised only under `%s`' % dnf_str(eg)[:200], where(f, t.line))


def h_set_frame_delay(W, ob):
    """InputQueue::set_frame_delay: what it reports to the caller (and the caller sends to the remotes) is exactly what it put into the queue"""
    f = W.fn(IQ + '::set_frame_delay')
    cx = W.ctx(f)
    adds = [t for t in f.calls() if callee_matches(t.callee, IQ + '::add_input_by_frame')]
    pushes = [t for t in f.calls() if last_seg(t.callee.best) == 'push']
    ok = len(adds) == 1 and len(pushes) == 1
    why = '%d insertions, %d reported fills' % (len(adds), len(pushes))
    if ok:
        inp, frm = key(cx.expr_operand(adds[0].args[1])), key(cx.expr_operand(adds[0].args[2]))
        rep = key(cx.expr_operand(pushes[0].args[1]))
        want = ('PlayerInput::new(%s, %s.input)' % (frm, inp), 'frame_info::PlayerInput::new(%s, %s.input)' % (frm, inp), 'PlayerInput{frame: %s, input: %s.input}' % (frm, inp), inp)
        ok = rep in want or rep.endswith('::new(%s, %s.input)' % (frm, inp))
        why = 'inserted `%s` at `%s`, reported `%s`' % (inp[:60], frm[:30], rep[:120])
        same_iter = cfg_of(f).path_avoiding([pushes[0].bb], [adds[0].bb]) is None
        ok = ok and same_iter
    ob.check(ok, 'set_frame_delay|reports-what-it-inserted', 'each fill reported to the caller is the input that was inserted, under the same frame',
             'InputQueue::set_frame_delay: %s -- the owner simulates one value and announces another' % why, where(f))


ALL = dict(last_recv_frame=h_last_recv_frame, prev_pos=h_prev_pos, confirmed_input=h_confirmed_input_, get_cell=h_get_cell, saved_state_by_frame=h_saved_state_by_frame,
           cell_accessors=h_cell_accessors, player_input=h_player_input, protocol_state_tests=h_protocol_state_tests, endpoint_getters=h_endpoint_getters,
           add_input=h_add_input, next_complete=h_next_complete, registry_counts=h_registry_counts, checksum_report=h_checksum_report, from_inputs=h_from_inputs, set_frame_delay=h_set_frame_delay)


def bundle(*names):
    def run(W, ob):
        for n in names:
            ALL[n](W, ob)
    return run
