"""Initial-state obligations.  The guards other rules check ("marker == NULL_FRAME means none", "NULL selects the first scan",
"latch not yet set") say what a value *means*; a session starts right only if its constructors give every such field the value that means
"nothing yet".  tables/initial_state.json lists them with the reason; this module (a) checks each constructor's struct literal against
the table, (b) discovers, from the guards of the whole crate, every field `self.F` that a method of its own struct compares with NULL_FRAME
and fails closed when one is not listed."""
import json
import os
import re

from .lib import *
from .sem import key
from .facts import strip_generics
from .world import AnchorMissing

VERIF = os.path.dirname(os.path.dirname(os.path.abspath(__file__)))


def table():
    with open(os.path.join(VERIF, 'tables', 'initial_state.json')) as f:
        return json.load(f)['entries']


def norm(k):
    return re.sub(r'\bNULL_FRAME\b|(?<![\w.])-1\b', 'NULL', k)


def literal_of(W, ctor):
    """field -> value key of the (one) large struct literal of the constructor's own type"""
    f = W.fn(ctor)
    cx = W.ctx(f)
    ty = ctor.rsplit('::', 1)[0]
    m = re.match(r'^<(\S+) as \S+>$', ty)
    if m:
        ty = m.group(1)
    lits = [s for s in f.stmts() if s.k == 'assign' and s.rv.k == 'agg' and s.rv.j.get('ak') == 'adt' and s.rv.j.get('fields')
            and strip_generics(s.rv.j['adt']).endswith(ty)]
    if len(lits) != 1:
        raise AnchorMissing('%s: exactly one struct literal of %s (found %d)' % (ctor, ty, len(lits)))
    s = lits[0]
    return f, s, {fl: norm(key(cx.expr_operand(op))) for fl, op in zip(s.rv.j['fields'], s.rv.ops)}


def sentinel_fields(W):
    """(struct, field path) for every `self.a.b` compared with NULL_FRAME in a guard of a method of that struct"""
    out = {}
    for f in W.fx.fn_list:
        if f.derived or not f.self_ty:
            continue
        G = W.guards(f)
        for b in range(len(f.blocks)):
            if f.blocks[b].cleanup:
                continue
            for c in G.guard(b):
                for a in c:
                    if a[0] in ('lin', 'ne') and len(a[1]) == 1:
                        k, co = a[1][0]
                        v = a[2] if a[0] == 'ne' else (a[2] if a[2] == a[3] else None)
                        if v is not None and v * co == -1 and re.match(r'^self(\.\w+)+$', k):
                            out.setdefault((strip_generics(f.self_ty), k[5:]), f)
    return out


OWNER = {'sync_layer.last_confirmed_frame': ('sync_layer::SyncLayer', 'last_confirmed_frame')}


def rule_for(pid):
    def run(W, ob):
        ents = [e for e in table() if pid in e['props']]
        lits = {}
        for e in ents:
            if e['ctor'] not in lits:
                lits[e['ctor']] = literal_of(W, e['ctor'])
            f, s, vals = lits[e['ctor']]
            v = vals.get(e['field'])
            if v is None:
                ob.missing('%s has no field `%s`' % (e['ctor'], e['field']))
                continue
            ob.check(re.search(e['expect'], v) is not None, '%s|%s' % (short(e['ctor']), e['field']),
                     '%s starts `%s` as %s' % (short(e['ctor']), e['field'], v[:40]),
                     '%s initialises `%s` with `%s`, expected /%s/ -- %s' % (short(e['ctor']), e['field'], v[:80], e['expect'], e['why']), where(f, s.line))
        ob.require_count(len(ents), 1, 'initial-state entries for %s' % pid)
        # discovery: every sentinel-compared field is listed (for any property)
        listed = {(re.sub(r'^<(\S+) as \S+>$', r'\1', e['ctor'].rsplit('::', 1)[0]), e['field']) for e in table()}
        for (ty, fld), f in sorted(sentinel_fields(W).items()):
            ty2, fld2 = OWNER.get(fld, (ty, fld))
            top = fld2.split('.')[0]
            ok = any(ty2.endswith(t) and top == fl for t, fl in listed)
            ob.check(ok, 'sentinel|%s.%s' % (ty2.split('::')[-1], fld2), '`%s.%s` is compared with NULL_FRAME and its initial value is listed' % (ty2.split('::')[-1], fld2),
                     '`%s.%s` is compared with NULL_FRAME in %s but tables/initial_state.json does not say how it starts' % (ty2.split('::')[-1], fld2, short(f.path)), where(f))
    return run
