"""C17 -- session behaviour is a function of its inputs, not of hash order."""
import json
import os
from .lib import *
from .cfg import cfg_of, callee_matches
from .sem import key, dnf_str
from .world import Effects
from . import c01, c07, hashorder

LEVEL = 'other'
EXPLANATION = ('Static rule checking: every iteration over a HashMap/HashSet in the crate (32 sites) is enumerated from the typed MIR and classified by '
               'its consumer: commutative reduction, retain with a pure predicate, loop whose shared writes are empty, collected-then-sorted -- or it must '
               'match a reviewed table entry with exactly the computed effect signature; callers of functions returning map-ordered vectors are reviewed '
               'too; canonical orders (ascending handles in InputBytes::from_inputs, sorted endpoint handles, BTreeMap for outgoing inputs) are checked. '
               'The claim is "no order-sensitive construct exists on the claimed observables", not "two runs are equal".')
NOT_DECIDED = ['equality of two concrete runs (only the absence of order-sensitive constructs is decided)',
               'out of claim: public handle accessors, cross-address interleaving in the shared event queue, socket send order across addresses, error text naming one of several bad handles']
ASSUMPTIONS = c01.ASSUMPTIONS + ['tables/hash_sites.json: the reviewed sites are order-insensitive for the stated reason']
VERIF = os.path.dirname(os.path.dirname(os.path.abspath(__file__)))


def auto_ok(sig):
    c = sig['consumer']
    if c.startswith('commutative:'):
        return 'commutative reduction (%s)' % c.split(':')[1]
    if c == 'retain' and not sig.get('shared_writes'):
        return 'retain with a predicate that writes nothing'
    if c == 'for-loop' and not sig.get('shared_writes') and not sig.get('early_exit'):
        return 'loop body writes only through the element'
    if c.startswith('ordered:collect') and sig.get('sorted'):
        return 'collected and sorted before use'
    if c.startswith('ordered:collect') and sig.get('into', '').split('::')[-1] in ('HashMap', 'HashSet', 'BTreeMap', 'BTreeSet'):
        return 'collected into a keyed collection'
    return None


def o1(W, ob):
    with open(os.path.join(VERIF, 'tables', 'hash_sites.json')) as f:
        tab = json.load(f)
    E = Effects(W)
    ss = hashorder.sites(W)
    ob.require_count(len(ss), 30, 'hash-iteration sites')
    budget = {}
    for e in tab['sites']:
        k = (e['fn'], e['recv'], e['start'])
        budget.setdefault(k, []).append(e)
    ordered_fns = set()
    for s in ss:
        sig = hashorder.signature(W, s, E)
        f = s['fn']
        how = auto_ok(sig)
        if how:
            ob.ok('%s over %s in %s: %s' % (sig['start'], sig['recv'], sig['fn'], how), where(f, s['term'].line))
            continue
        k = (sig['fn'], sig['recv'], sig['start'])
        cands = budget.get(k, [])
        hit = None
        for e in cands:
            if all(e.get(x) == sig.get(x) for x in ('consumer', 'shared_writes', 'sorted', 'returned', 'into', 'early_exit')):
                hit = e
                break
        if hit is not None:
            cands.remove(hit)
            if sig.get('returned'):
                ordered_fns.add(f)
            ob.ok('%s over %s in %s: reviewed -- %s' % (sig['start'], sig['recv'], sig['fn'], hit['reason'][:160]), where(f, s['term'].line))
        else:
            ob.fail('%s|hash-iteration|%s|%s' % (sig['fn'], sig['recv'], sig['start']),
                    'unreviewed hash-order-dependent construct: %s over `%s` in %s is consumed by %s%s -- its effects (%s) are applied in HashMap iteration '
                    'order, which differs from run to run' % (sig['start'], sig['recv'], sig['fn'], sig['consumer'],
                                                            ' (unsorted Vec)' if sig.get('into') else '', ', '.join(sig.get('shared_writes', [])[:5]) or 'order of the collected sequence'),
                    where(f, s['term'].line))
    # callers of functions that return map-ordered vectors
    reviewed = {(c['callee'], c['caller']): c for c in tab['ordered_returns']}
    n = 0
    for g in ordered_fns:
        for f, t in W.calls_to(hashorder._short(g)):
            n += 1
            k = (hashorder._short(g), hashorder._short(f))
            e = reviewed.get(k)
            if e is None:
                ob.fail('%s|uses-map-ordered|%s' % (k[1], k[0]), '%s consumes the result of %s, a vector in HashMap order, and this use is not reviewed' % (k[1], k[0]), where(f, t.line))
                continue
            # the review covers what the consumer does today: its kind and, for a loop, everything the loop body writes (computed, through calls)
            kind, chain, cons = hashorder.forward_consumer(W, f, t)
            sw = None
            if kind == 'for-loop':
                sw = hashorder.loop_effects(W, f, cons, E)[0]
            same = kind == e.get('consumer') and (sw is None or sw == e.get('shared_writes'))
            extra = sorted(set(sw or []) - set(e.get('shared_writes') or []))
            ob.check(same, '%s|uses-map-ordered|%s|effects' % (k[1], k[0]), '%s uses the map-ordered result of %s in a reviewed, order-insensitive way (%s)' % (k[1], k[0], kind),
                     '%s consumes the result of %s, a vector in HashMap order, by %s, and what that does is no longer what was reviewed%s: effects applied once per element happen in an '
                     'order that differs from run to run' % (k[1], k[0], kind, ' -- new writes in the loop body: ' + ', '.join(extra[:6]) if extra else ''), where(f, t.line))
    ob.require_count(n, 8, 'call sites of functions returning map-ordered vectors')


def o2(W, ob):
    f = W.fn('InputBytes::from_inputs')
    cx = W.ctx(f)
    rng = [s for s in f.stmts() if s.k == 'assign' and s.rv.k == 'agg' and s.rv.j.get('ak') == 'adt' and s.rv.j['adt'].endswith('ops::Range')]
    okr = any(dict(zip(s.rv.j['fields'], s.rv.ops))['start'].const_int() == 0 and key(cx.expr_operand(dict(zip(s.rv.j['fields'], s.rv.ops))['end'])) == 'arg1' for s in rng)
    gets = [t for t in f.calls() if last_seg(t.callee.best) == 'get' and 'HashMap' in (t.arg_tys[0] if t.arg_tys else '')]
    its = [s for s in hashorder.sites(W) if s['fn'] is f]
    ob.check(okr and len(gets) == 1 and not its, 'from_inputs|ascending-handles',
             'per-frame input bytes are assembled by looking handles 0..num_players up in ascending order',
             'InputBytes::from_inputs does not look the handles up in ascending order (range 0..num_players=%s, lookups=%d, map iterations=%d): the byte layout of a '
             'frame would follow HashMap order' % (okr, len(gets), len(its)), where(f))
    n = W.fn('network::protocol::UdpProtocol::new')
    srt = [t for t in n.calls() if last_seg(t.callee.best) in ('sort', 'sort_unstable') and t.args and t.args[0].is_place()]
    cxn = W.ctx(n)
    cons = [(f2, s) for f2, s in W.constructions('UdpProtocol') if f2 is n]
    ok = False
    for f2, s in cons:
        fields = dict(zip(s.rv.j['fields'], s.rv.ops))
        src = trace_back(W, n, fields['handles'], strict=True)
        for t in srt:
            ssrc = trace_back(W, n, t.args[0], through={'deref_mut', 'deref'}, strict=True)
            if src and ssrc and src[0] == 'place' and ssrc[0] == 'place' and src[1].local == ssrc[1].local:
                ok = True
    ob.check(ok, 'UdpProtocol::new|sorted-handles', 'the endpoint\'s handles are sorted before they are stored',
             'UdpProtocol::new stores its handles without sorting them: decoded inputs would be attributed to players in HashMap order', where(n))
    fld = W.require_field('P2PSession', 'outgoing_local_inputs')
    ob.check(fld['ty'].startswith('std::collections::BTreeMap<'), 'outgoing_local_inputs|ordered-map', 'outgoing inputs are kept in an ordered map',
             'outgoing_local_inputs is a %s' % fld['ty'][:60], None)


from . import removals

from . import vocab

from . import inventory


def _c04_o5(W, ob):
    from . import c04 as _m
    return _m.o5(W, ob)


OBLIGATIONS = [
    ('C17.O1', 'every hash iteration is classified', 'each of the >= 30 iteration sites over a HashMap/HashSet is a commutative reduction, a pure retain, a loop without '
     'shared writes, collected-and-sorted, or matches a reviewed entry with exactly the computed effect signature; callers of map-ordered results are reviewed.', o1),
    ('C17.O2', 'canonical orders', 'InputBytes::from_inputs iterates 0..num_players with lookups; UdpProtocol::new sorts the handles it stores; outgoing_local_inputs is a BTreeMap.', o2),
    ('C17.O4', 'per-session configuration fix-ups are unconditional (= C04.O5)', 'what a session does with its configuration depends on that configuration only -- not on what another session in the same process did before (a `static Once` around the fix-up): sparse saving is switched off in lockstep on every construction; see C04.O5', _c04_o5),
    ('C17.O3', 'order-independent merge of pending disconnects (= C07.O3)', 'see C07.O3', c07.o3),
    ('C17.R', 'who may remove', 'every call that takes elements out of a collection this property\'s rules rely on (keyed removal from a map, or bulk / positional removal) is one of the reviewed sites in tables/removals.json; a lookup turned into a removal, a second prune, a clear on another path is reported; see rules/removals.py', removals.rule_for('C17')),
    ('C17.V', 'no unreviewed condition in the pinned helpers', 'for each helper whose body this property\'s rules pin (tables/condition_terms.json), the terms its path conditions are built from (fields, parameters, call results -- no constants, operators or local names) are a subset of the reviewed vocabulary: one more `if` in front of a pinned result (a lock that may time out, "only while an endpoint is running") is reported; see rules/vocab.py', vocab.rule_for('C17')),
    ('C17.S', 'state inventory', 'every field of the structs this property\'s rules read (tables/state.json) is known, and is written only by its reviewed writers (or helpers only they call): a new field is new state across calls -- a cache, a flag, a stored deadline -- that nothing has shown to stay in step; a new writer is a second place that resets, re-arms or moves something; see rules/inventory.py', inventory.state_rule_for('C17')),
    ('C17.K', 'call inventory', 'every reviewed call of a function that writes state (tables/call_edges.json, callers in the structs this property\'s rules read) is still made, directly or through helpers: a call deleted as redundant is reported; likewise the arguments of logging / debug-only macros change no state, no unreviewed call of a state-writing function appears (tables/call_edges_all.json), the types of the locals a loop carries from one iteration to the next (tables/carried.json) and, per function and field, how reads and writes of the field are ordered (tables/orders.json: a snapshot taken before instead of after an update) are as reviewed; see rules/inventory.py', inventory.call_rule_for('C17')),
    ('C17.A', 'expression inventory', 'every arithmetic expression handed to a call or stored in a field, and what every closure given to an iterator adaptor / collection method returns, is one of the reviewed expressions of its function (tables/expressions.json; linear / guard normal forms, no local names): a changed literal, operator, operand order, factor, predicate or sort key is reported; see rules/inventory.py', inventory.expr_rule_for('C17')),
    ('C17.P', 'trait-impl inventory', 'each (type, trait) pair among PartialEq / Eq / Hash / Ord / Clone / Default / From / Deref / InputPredictor is derived or hand-written as listed in tables/impls.json: a derive replaced by a hand-written impl (equality by address only, a hash that ignores a field) changes which map keys collide and which inputs match with every call site unchanged; see rules/inventory.py', inventory.impl_rule),
]
