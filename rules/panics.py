"""Analysis F: inventory of panic-capable sites over a call-graph closure, with discharge."""
from .cfg import cfg_of, callee_matches, match_path
from .sem import key, last_seg, dnf_str, LOG_MACROS, conj_implies_atom, cmp_atom, linearise
from .lib import ASSERT_MACROS, match_lin, every_disjunct_has, has, exact

PANIC_FNS = ('core::panicking::', 'std::rt::begin_panic', 'core::option::expect_failed', 'core::result::unwrap_failed',
             'core::slice::index::slice_', 'core::str::slice_error_fail', 'std::process::abort', 'std::process::exit',
             'core::option::unwrap_failed', 'alloc::raw_vec::capacity_overflow', 'alloc::alloc::handle_alloc_error')
# methods that panic on a condition of their arguments
PANIC_METHODS = {
    'unwrap': 'is None/Err', 'expect': 'is None/Err', 'unwrap_err': 'is Ok', 'expect_err': 'is Ok',
    'index': 'index out of bounds / key missing', 'index_mut': 'index out of bounds',
    'copy_from_slice': 'length mismatch', 'clone_from_slice': 'length mismatch', 'split_at': 'mid > len',
    'split_at_mut': 'mid > len', 'swap': 'index out of bounds', 'remove': 'index out of bounds (Vec)',
    'insert': None, 'swap_remove': 'index out of bounds', 'drain': 'range out of bounds', 'split_off': 'at > len',
    'truncate': None, 'chunks': 'chunk size 0', 'chunks_exact': 'chunk size 0', 'windows': 'size 0',
    'step_by': 'step 0', 'rem_euclid': 'division by zero', 'div_euclid': 'division by zero', 'pow': None,
    'from_elem': 'allocation size', 'with_capacity': 'allocation size', 'reserve': 'allocation size',
    'resize': 'allocation size', 'repeat': 'allocation size', 'duration_since': None, 'sub': None,
    'unreachable': 'reached', 'unwrap_unchecked': None,
}
ALLOC_FNS = {'from_elem', 'with_capacity', 'reserve', 'resize', 'repeat', 'reserve_exact', 'resize_with'}


def closure_fns(W, entries):
    seen = []
    st = list(entries)
    s = set(entries)
    while st:
        f = st.pop()
        seen.append(f)
        for g in W.cg.edges[f]:
            if g not in s:
                s.add(g)
                st.append(g)
    return seen


def inventory(W, fns, include_overflow=False):
    """list of dict(fn, bb, kind, detail, term)"""
    out = []
    for f in fns:
        for b in f.blocks:
            if b.cleanup:
                continue
            if b.id not in cfg_of(f).reach:
                continue
            t = b.term
            if any(m in LOG_MACROS for m in t.macros) or 'format_args' in t.macros and not any(m in ASSERT_MACROS for m in t.macros):
                continue
            if t.k == 'assert':
                kind = t.msg['kind']
                if kind in ('Overflow', 'OverflowNeg') and not include_overflow:
                    continue
                out.append(dict(fn=f, bb=b.id, kind=kind, term=t, detail=t.msg))
            elif t.k == 'call' and t.callee.indirect is None:
                p = t.callee.best or ''
                pp = t.callee.path or ''
                seg = last_seg(p)
                if any(p.startswith(x) or pp.startswith(x) for x in PANIC_FNS) or (t.target is None and not t.callee.local and 'panic' in p):
                    # an explicit panic (assert!/panic!/expect failure path)
                    out.append(dict(fn=f, bb=b.id, kind='panic-call', term=t, detail=p))
                elif seg in PANIC_METHODS and PANIC_METHODS[seg] is not None and not t.callee.rlocal and not t.callee.local:
                    # only genuinely external library methods
                    recv = t.arg_tys[0] if t.arg_tys else ''
                    if seg in ('index', 'index_mut', 'remove', 'insert', 'swap', 'drain', 'split_off', 'swap_remove'):
                        if 'HashMap' in recv and seg in ('remove', 'insert', 'drain'):
                            continue
                        if ('VecDeque' in recv or 'HashSet' in recv or 'BTreeMap' in recv) and seg in ('remove', 'insert', 'drain'):
                            continue
                    if seg == 'sub' and 'Instant' not in recv and 'Duration' not in recv:
                        continue
                    out.append(dict(fn=f, bb=b.id, kind='method:' + seg, term=t, detail=PANIC_METHODS[seg]))
    return out


# ---------------------------------------------------------------------------------------------------------
# discharge
# ---------------------------------------------------------------------------------------------------------
from .sem import dnf_implies_atom, transparent_proj
from .lib import trace_back
from .facts import Place


def site_key(W, s):
    """identification of a site without line numbers: (function, kind, receiver / operand description)"""
    f = s['fn']
    t = s['term']
    cx = W.ctx(f)
    if t.k == 'call':
        recv = ''
        if t.args and t.args[0].is_place():
            recv = cx.ap_carry(t.args[0].place).s(f, generic=True)
        import re
        recv = re.sub(r'#\d+', '', recv)
        recv = re.sub(r'@bb\d+', '', recv)
        return (short_fn(f), s['kind'], recv)
    if t.k == 'assert':
        d = t.msg
        if d['kind'] == 'BoundsCheck':
            from .facts import Operand
            ln = key(cx.expr_operand(Operand(d['len'])))
            import re
            return (short_fn(f), 'BoundsCheck', re.sub(r'#\d+', '', ln))
        return (short_fn(f), d['kind'], '')
    return (short_fn(f), s['kind'], '')


def short_fn(f):
    p = f.parent if f.kind == 'closure' and f.parent else f.path
    segs = p.split('::')
    r = '::'.join(segs[-2:]) if not p.startswith('<') else p
    return r + ('::{closure}' if f.kind == 'closure' else '')


def range_of_item(W, f, operand):
    """if `operand` is the loop variable of `for x in a..b`, return (expr a, expr b)"""
    cx = W.ctx(f)
    src = trace_back(W, f, operand, through={'next'})
    # trace_back passes `next`; we should arrive at the Range aggregate (via into_iter)
    if src and src[0] == 'stmt' and src[1].rv.k == 'agg' and src[1].rv.j.get('ak') == 'adt' and src[1].rv.j['adt'].endswith('ops::Range'):
        fields = dict(zip(src[1].rv.j['fields'], src[1].rv.ops))
        return cx.expr_operand(fields['start']), cx.expr_operand(fields['end'])
    return None


def discharge(W, s):
    """returns (method, explanation) or (None, why-not)"""
    f = s['fn']
    t = s['term']
    cx = W.ctx(f)
    G = W.guards(f)
    g = G.stable_guard(s['bb'])
    kind = s['kind']
    from .facts import Operand
    if kind == 'BoundsCheck':
        idx = cx.expr_operand(Operand(t.msg['index']))
        ln = cx.expr_operand(Operand(t.msg['len']))
        need = cmp_atom('Lt', idx, ln, True)
        if g and dnf_implies_atom(g, need):
            return 'guard', 'dominating guard %s implies %s < %s' % (dnf_str(g)[:160], key(idx), key(ln))
        # x % len(v) indexing into the same v
        if idx[0] == 'bin' and idx[1] == 'Rem' and key(idx[3]) == key(ln):
            return 'modulo', 'index is taken modulo the length of the same sequence'
        return None, 'no stable dominating guard implies %s < %s (guard: %s)' % (key(idx), key(ln), dnf_str(g)[:200])
    if kind in ('DivisionByZero', 'RemainderByZero'):
        # the assert's message operand is the dividend; the divisor is what the asserted condition compares with zero
        d = cx.expr_operand(Operand(t.msg['a']))
        c = cx.expr_operand(t.cond)
        if c[0] == 'bin' and c[1] in ('Eq', 'Ne') and (c[3] == ('int', 0) or c[2] == ('int', 0)):
            d = c[2] if c[3] == ('int', 0) else c[3]
        if d[0] == 'int' and d[1] != 0 or (d[0] == 'cst' and d[2] not in (None, 0)):
            return 'constant', 'divisor is the non-zero constant %s' % key(d)
        need = cmp_atom('Ne', d, ('int', 0), True)
        pos = cmp_atom('Ge', d, ('int', 1), True)
        if g and (dnf_implies_atom(g, need) or dnf_implies_atom(g, pos)):
            return 'guard', 'dominating guard implies %s != 0' % key(d)
        if d[0] == 'call' and d[1] == 'len':
            return None, 'divisor %s is a length that may be zero' % key(d)
        return None, 'divisor %s is not shown to be non-zero' % key(d)
    if kind in ('method:index', 'method:index_mut') and len(t.args) >= 2:
        recv = cx.expr_operand(t.args[0])
        idx = cx.expr_operand(t.args[1])
        ln = ('call', 'len', (recv,))
        if idx[0] == 'agg' and idx[1] in ('Range', 'RangeTo', 'RangeFrom', 'RangeInclusive'):
            fields = dict(idx[2])
            ok = True
            why = []
            if 'end' in fields:
                need = cmp_atom('Le', fields['end'], ln, True)
                if not (g and dnf_implies_atom(g, need)):
                    ok = False
                    why.append('%s <= %s not implied' % (key(fields['end']), key(ln)))
                if 'start' in fields:
                    e, st = fields['end'], fields['start']
                    structural = e[0] == 'bin' and e[1] == 'Add' and (key(e[2]) == key(st) or key(e[3]) == key(st))
                    if not structural and not (g and dnf_implies_atom(g, cmp_atom('Le', st, e, True))):
                        ok = False
                        why.append('start <= end not shown')
            elif 'start' in fields:
                need = cmp_atom('Le', fields['start'], ln, True)
                if not (g and dnf_implies_atom(g, need)):
                    ok = False
                    why.append('%s <= %s not implied' % (key(fields['start']), key(ln)))
            if ok:
                return 'guard', 'dominating guard implies the range lies inside %s' % key(ln)
            return None, '; '.join(why) + ' (guard: %s)' % dnf_str(g)[:200]
        recv_ty = t.arg_tys[0] if t.arg_tys else ''
        if 'HashMap' in recv_ty or 'BTreeMap' in recv_ty:
            return None, 'map indexing panics on a missing key'
        need = cmp_atom('Lt', idx, ln, True)
        if g and dnf_implies_atom(g, need):
            return 'guard', 'dominating guard implies %s < %s' % (key(idx), key(ln))
        r = range_of_item(W, f, t.args[1])
        if r is not None:
            lo, hi = r
            if key(hi) == key(ln) and (lo == ('int', 0) or lo[0] == 'int'):
                return 'range', 'index is the loop variable of `for i in %s..%s`' % (key(lo), key(hi))
        if idx[0] == 'bin' and idx[1] == 'Rem' and key(idx[3]) == key(ln):
            return 'modulo', 'index is taken modulo the length of the same sequence'
        return None, '%s < %s is not implied by a stable dominating guard, a range loop or a modulo' % (key(idx), key(ln))
    if kind in ('method:expect', 'method:unwrap'):
        src = trace_back(W, f, t.args[0], through=set())
        recv = cx.expr_operand(t.args[0])
        if src and src[0] == 'call':
            seg = last_seg(src[1].callee.best)
            if seg in ('pop_front', 'pop_back', 'pop') and src[1].args and src[1].args[0].is_place():
                q = cx.ap_carry(src[1].args[0].place).s(f)
                if every_disjunct_has(g, lambda a: a[0] == 'is' and a[1].startswith(q + '[') and a[2] == 'Some' and a[3]) or \
                        every_disjunct_has(g, lambda a: a[0] == 'bool' and 'is_empty(' + q + ')' in a[1] and a[2] is False):
                    return 'nonempty', 'the queue %s was just observed to be non-empty' % q
            if seg in ('try_from', 'try_into') and src[1].args:
                a0 = cx.expr_operand(src[1].args[0])
                if a0[0] == 'call' and last_seg(a0[1]) == 'clamp':
                    return 'clamped', 'the converted value was clamped into the target range'
        if every_disjunct_has(g, lambda a: a[0] == 'is' and a[1] == key(recv) and a[2] in ('Some', 'Ok') and a[3]):
            return 'guard', 'the value was matched as Some/Ok'
        return None, 'the unwrapped value `%s` is not shown to be Some/Ok' % key(recv)[:120]
    if kind.startswith('method:') and kind.split(':')[1] in ALLOC_FNS:
        n = cx.expr_operand(t.args[-2] if kind.endswith('resize') else t.args[-1]) if t.args else None
        if n is not None:
            if n[0] in ('int', 'cst'):
                return 'constant', 'allocation size is the constant %s' % key(n)
            terms, c = linearise(n)
            from .sem import canon_vec
            vec, c2, flipped = canon_vec(terms, c)
            for conj in (g or [[]]):
                hit = False
                for a in conj:
                    if a[0] == 'lin' and a[1] == vec:
                        bound = a[3] if not flipped else (None if a[2] is None else -a[2])
                        if bound is not None:
                            hit = True
                if not hit:
                    return None, 'allocation size %s has no constant upper bound on some path (guard: %s)' % (key(n), dnf_str(g)[:200])
            if g:
                return 'guard', 'allocation size %s is bounded by a constant under the dominating guard' % key(n)
        return None, 'allocation size is not bounded'
    if kind == 'panic-call':
        return None, 'explicit panic/assertion'
    return None, 'no discharge rule for %s' % kind


def load_tables():
    import json, os
    base = os.path.join(os.path.dirname(os.path.dirname(os.path.abspath(__file__))), 'tables')
    with open(os.path.join(base, 'std_total.json')) as f:
        std = json.load(f)
    with open(os.path.join(base, 'panic_sites.json')) as f:
        ps = json.load(f)
    with open(os.path.join(base, 'invariants.json')) as f:
        inv = json.load(f)
    return std, ps['sites'], inv['invariants']


def external_callees(W, fns):
    ext = {}
    for f in fns:
        for t in f.calls():
            if any(m in LOG_MACROS for m in t.macros):
                continue
            c = t.callee
            if c.indirect is not None:
                ext.setdefault('<indirect>', []).append((f, t))
                continue
            if W.cg.targets(c):
                continue
            ext.setdefault(c.best, []).append((f, t))
    return ext


def check_closure(W, ob, entries, scope_name, key_prefix):
    """inventory + discharge + tables over the closure of `entries`; reports into ob; returns stats"""
    std, reviewed, invs = load_tables()
    fns = closure_fns(W, entries)
    inv = inventory(W, fns)
    stats = dict(functions=len(fns), sites=len(inv), discharged=0, reviewed=0, open=0, externals=0)
    # reviewed-table bookkeeping
    budget = {}
    for r in reviewed:
        budget[(r['fn'], r['kind'], r['recv'])] = [r['count'], r]
    for s in inv:
        k = site_key(W, s)
        how, why = discharge_with_invariants(W, s, invs)
        t = s['term']
        if how is not None:
            stats['discharged'] += 1
            ob.ok('%s %s %s: discharged by %s -- %s' % (k[0], k[1], k[2], how, why[:200]), where_(s))
            continue
        b = budget.get(k) or budget.get((k[0], k[1], '*'))
        if b is not None and b[0] > 0:
            b[0] -= 1
            stats['reviewed'] += 1
            ob.ok('%s %s %s: accepted by review -- %s' % (k[0], k[1], k[2], b[1]['reason'][:200]), where_(s))
            continue
        stats['open'] += 1
        ob.fail('%s|open-panic-site|%s|%s|%s' % (key_prefix, k[0], k[1], k[2]),
                'open panic-capable site on the %s: %s in %s (%s) -- %s' % (scope_name, k[1], k[0], k[2] or 'no receiver', why[:300]),
                where_(s))
    ext = external_callees(W, fns)
    for p, uses in sorted(ext.items()):
        stats['externals'] += 1
        if p in std['total'] or p in std['site']:
            continue
        f, t = uses[0]
        if external_default_total(t.callee):
            stats['std_default_total'] = stats.get('std_default_total', 0) + 1
            continue
        ob.fail('%s|unreviewed-external|%s' % (key_prefix, p),
                'the %s calls `%s`, which is not in the reviewed totality table (tables/std_total.json): it may panic or allocate '
                'without bound on attacker-chosen input' % (scope_name, p), '%s:%d (%s)' % (f.file, t.line, short_fn(f)))
    ob.info('closure of %s: %d functions, %d panic-capable sites (%d discharged by analysis, %d by review), %d external callees' % (
        scope_name, stats['functions'], stats['sites'], stats['discharged'], stats['reviewed'], stats['externals']))
    return stats


def where_(s):
    f = s['fn']
    return '%s:%d (%s)' % (f.file, s['term'].line, short_fn(f))


def discharge_with_invariants(W, s, invs):
    how, why = discharge(W, s)
    if how is not None:
        return how, why
    # retry index sites with a struct invariant: replace len(X) by its invariant partner
    f = s['fn']
    t = s['term']
    if s['kind'] in ('method:index', 'method:index_mut') and len(t.args) >= 2:
        cx = W.ctx(f)
        G = W.guards(f)
        g = G.stable_guard(s['bb'])
        recv = cx.expr_operand(t.args[0])
        ln = ('call', 'len', (recv,))
        r = range_of_item(W, f, t.args[1])
        for iv in invs:
            if iv['type'] not in (f.self_ty or f.path):
                continue
            # for i in 0..len(A) with invariant len(A) == N and guard len(recv) == N
            if r is not None and key(r[1]) == iv['lhs'] and r[0][0] == 'int':
                need = cmp_atom('Eq', ln, ('ap', iv['rhs']), True)
                if g and dnf_implies_atom(g, need):
                    return 'range+invariant', 'index ranges over 0..%s, %s == %s (struct invariant: %s) and the guard implies %s == %s' % (
                        iv['lhs'], iv['lhs'], iv['rhs'], iv['protected_by'][:80], key(ln), iv['rhs'])
    if s['kind'] == 'BoundsCheck' and t.k == 'assert' and isinstance(t.msg, dict) and 'index' in t.msg and 'len' in t.msg:
        # the same argument for a slice index (`v: &[T]` indexed directly: MIR has a BoundsCheck assertion instead of a call of Index::index)
        from .facts import Operand
        cx = W.ctx(f)
        g = W.guards(f).stable_guard(s['bb'])
        ln = cx.expr_operand(Operand(t.msg['len']))
        r = range_of_item(W, f, Operand(t.msg['index']))
        for iv in invs:
            if iv['type'] not in (f.self_ty or f.path):
                continue
            if r is not None and key(r[1]) == iv['lhs'] and r[0][0] == 'int':
                need = cmp_atom('Eq', ln, ('ap', iv['rhs']), True)
                if key(ln) == iv['lhs'] or (g and dnf_implies_atom(g, need)):
                    return 'range+invariant', 'index ranges over 0..%s, %s == %s (struct invariant: %s) and the guard implies %s == %s' % (
                        iv['lhs'], iv['lhs'], iv['rhs'], iv['protected_by'][:80], key(ln), iv['rhs'])
    return None, why


# std / core / alloc functions that are not in the reviewed table are taken to be total unless their name is one of the
# panic-capable families (those are sites of the inventory); callees from any other crate must be listed in the table.
STD_CRATES = {'std', 'core', 'alloc'}
EXTRA_PANIC_NAMES = {'borrow_mut', 'abs', 'from_secs_f64', 'from_secs_f32', 'from_digit', 'to_digit', 'swap', 'rotate_left', 'rotate_right', 'copy_within',
                     'checked_duration_since_unwrap', 'from_utf8_unchecked', 'get_unchecked', 'get_unchecked_mut', 'assume_init', 'div', 'rem', 'shl', 'shr',
                     'neg', 'mul', 'next_power_of_two', 'ilog2', 'ilog10', 'isqrt', 'exit', 'abort', 'park', 'join', 'recv', 'lock', 'write', 'read'}


def external_default_total(callee):
    if callee is None or callee.indirect is not None:
        return False
    crate = callee.rcrate or callee.crate
    if crate not in STD_CRATES:
        return False
    seg = last_seg(callee.best)
    if seg in PANIC_METHODS and PANIC_METHODS[seg] is not None:
        return False
    if seg in EXTRA_PANIC_NAMES:
        return False
    return True
