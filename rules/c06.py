"""C06 -- a spectator replays exactly the host's confirmed inputs (structural part)."""
from .lib import *
from .cfg import cfg_of, callee_matches
from .sem import key, dnf_str
from .world import Effects
from . import c01, c03

LEVEL = 'other'
EXPLANATION = ('Static rule checking: the host\'s broadcast cursor (writers, +1, bounded by the confirmed frame, fed from '
               'confirmed_inputs of that frame), send-before-discard, the three-way ring lookup of the spectator, catch-up '
               'bound, effect isolation of the spectator broadcast, same cut-off predicate on host and spectator. '
               'Frame-by-frame equality with the host under loss/reorder is NOT decided.')
NOT_DECIDED = ['equality of the n-th spectator frame with the host\'s frame n under loss/reorder/disconnects']
ASSUMPTIONS = c01.ASSUMPTIONS

P2P = c01.P2P
SL = c01.SL
SP = c03.SP
NSF = 'self.next_spectator_frame'


def o1(W, ob):
    f = W.fn(P2P + '::send_confirmed_inputs_to_spectators')
    n = only_writers(W, ob, 'next_spectator_frame', 'P2PSession', [P2P + '::send_confirmed_inputs_to_spectators'], 'O1',
                     kinds=('store',))
    ob.require_count(n, 1, 'stores to next_spectator_frame')
    cx = W.ctx(f)
    G = W.guards(f)
    cfg = cfg_of(f)
    ex, _ = W.writes_to_field('next_spectator_frame')
    st = [w for w in ex if w['fn'] is f and w['kind'] == 'store']
    for w in st:
        v = key(cx.expr_rvalue(w['site'].rv))
        ob.check(v == '(%s Add 1)' % NSF, 'send_confirmed_inputs_to_spectators|cursor-step', 'the cursor advances by one',
                 'next_spectator_frame := %s' % v, where(f, w['line']))
    ci = [t for t in f.calls() if callee_matches(t.callee, SL + '::confirmed_inputs')]
    ob.require_count(len(ci), 1, 'confirmed_inputs call in the broadcast loop')
    sends = [t for t in f.calls() if callee_matches(t.callee, 'UdpProtocol::send_input')]
    ob.require_count(len(sends), 1, 'send_input call in the broadcast loop')

    def bounded(a):
        return match_lin(a, [(exact('arg2'), 1), (exact(NSF), -1)], lo=0)
    for t in ci + sends:
        g = G.guard(t.bb)
        ob.check(every_disjunct_has(g, bounded), 'send_confirmed_inputs_to_spectators|bounded-by-confirmed',
                 'only frames <= the confirmed frame are broadcast',
                 'the broadcast of a frame is not guarded by `next_spectator_frame <= confirmed_frame`: ' + dnf_str(g)[:300],
                 where(f, t.line))
    for t in ci:
        a = key(cx.expr_operand(t.args[1]))
        ob.check(a == NSF, 'send_confirmed_inputs_to_spectators|frame-sent', 'the frame broadcast is the cursor',
                 'confirmed_inputs is asked for `%s`, not for next_spectator_frame' % a, where(f, t.line))
    # every send is preceded by the fetch and followed by the cursor step (within the iteration)
    for t in sends:
        ob.check(cfg.path_avoiding([t.bb], [c.bb for c in ci]) is None, 'send_confirmed_inputs_to_spectators|fetch-before-send',
                 'inputs are fetched before they are sent', 'send_input can be reached without fetching the confirmed inputs', where(f, t.line))
        # the map handed to send_input is the one filled from the fetched inputs
        src = trace_back(W, f, t.args[1])
        ins = [x for x in f.calls() if last_seg(x.callee.best) == 'insert']
        same = False
        for x in ins:
            s2 = trace_back(W, f, x.args[0])
            if src and s2 and src[0] == s2[0] == 'place' and src[1].local == s2[1].local:
                same = True
            if src and s2 and src[0] == s2[0] == 'call' and src[1] is s2[1]:
                same = True
        ob.check(same, 'send_confirmed_inputs_to_spectators|map-sent', 'the map that is sent is the one filled in this iteration',
                 'send_input does not receive the map filled from the confirmed inputs', where(f, t.line))
    for w in st:
        for t in sends:
            # the step follows the sends: the store block is not reachable to the send without a new fetch
            p = cfg.path_from_avoiding(w['bb'], [c.bb for c in ci], ends=[t.bb])
            ob.check(p is None, 'send_confirmed_inputs_to_spectators|step-after-send', 'the cursor steps after the sends of its frame',
                     'after stepping the cursor a send can follow without a new fetch', where(f, w['line']))
    # a frame is sent at most once: the cursor step post-dominates the fetch within an iteration
    for c in ci:
        p = cfg.path_from_avoiding(c.bb, [w['bb'] for w in st], ends=cfg.returns + [c.bb])
        ob.check(p is None, 'send_confirmed_inputs_to_spectators|step-every-iteration', 'every fetched frame steps the cursor',
                 'a frame can be fetched for broadcast without the cursor being advanced (it would be sent again)', where(f, c.line),
                 witness=path_str(f, p) if p else None)


def o3(W, ob):
    f = W.fn(SP + '::inputs_at_frame')
    G = W.guards(f)
    errs = {}
    for v in ('PredictionThreshold', 'SpectatorTooFarBehind'):
        for fn2, s in W.constructions('GgrsError', v):
            if fn2 is f:
                errs[v] = s
    ob.require_count(len(errs), 2, 'error returns of inputs_at_frame')

    def slot(k):
        return k.startswith('self.inputs[') and k.endswith('.frame')
    if 'PredictionThreshold' in errs:
        s = errs['PredictionThreshold']
        g = G.guard(s.bb)
        ob.check(every_disjunct_has(g, lambda a: match_lin(a, [(slot, 1), (exact('arg2'), -1)], hi=-1)) and
                 not every_disjunct_has(g, lambda a: match_lin(a, [(slot, 1), (exact('arg2'), -1)], hi=-2)),
                 'inputs_at_frame|not-yet', 'a slot older than the requested frame means "not received yet"',
                 'PredictionThreshold is returned under ' + dnf_str(g)[:200], where(f, s.line))
    if 'SpectatorTooFarBehind' in errs:
        s = errs['SpectatorTooFarBehind']
        g = G.guard(s.bb)
        ob.check(every_disjunct_has(g, lambda a: match_lin(a, [(slot, 1), (exact('arg2'), -1)], lo=1)) and
                 not every_disjunct_has(g, lambda a: match_lin(a, [(slot, 1), (exact('arg2'), -1)], lo=2)),
                 'inputs_at_frame|overwritten', 'a slot newer than the requested frame means the input is gone',
                 'SpectatorTooFarBehind is returned under ' + dnf_str(g)[:200], where(f, s.line))
    # statuses only under equality
    n = 0
    for v in ('Confirmed', 'Disconnected'):
        for fn2, s in W.constructions('InputStatus', v):
            if match_path(fn2.parent or '', SP + '::inputs_at_frame'):
                n += 1
    ob.require_count(n, 2, 'statuses built by the spectator lookup')
    maps = [t for t in f.calls() if last_seg(t.callee.best) in ('map', 'collect')]
    for t in maps:
        g = G.guard(t.bb)
        ob.check(every_disjunct_has(g, lambda a: match_lin(a, [(slot, 1), (exact('arg2'), -1)], eq=0)),
                 'inputs_at_frame|deliver-on-equality', 'inputs are delivered only from a slot holding exactly the requested frame',
                 'inputs are delivered under ' + dnf_str(g)[:200], where(f, t.line))
    # the slot index is frame % SPECTATOR_BUFFER_SIZE, as in the writer
    wr = [w for w in W.writes_to_field('inputs')[0] if 'SpectatorSession' in w['fn'].path]
    hosts = {short(w['fn'].path) for w in wr}
    for w in wr:
        ob.check(match_path(w['fn'].path, SP + '::handle_event'), 'spectator-ring|writer|%s' % short(w['fn'].path),
                 'the spectator ring is written by handle_event', 'the spectator ring is written in %s' % short(w['fn'].path),
                 where(w['fn'], w['line']))
    h = W.fn(SP + '::handle_event')
    stores = [w for w in W.writes() if w['fn'] is h and w['kind'] == 'store' and w['ap'].s(h).startswith('self.inputs[')]
    ob.require_count(len(stores), 1, 'ring store in handle_event')
    for w in stores:
        k = w['ap'].s(h)
        ob.check('arg2.input.frame Rem SPECTATOR_BUFFER_SIZE' in k and '[arg2.player]' in k and
                 key(W.ctx(h).expr_rvalue(w['site'].rv)) == 'arg2.input',
                 'handle_event|ring-slot', 'the input is stored at [frame % SPECTATOR_BUFFER_SIZE][player]',
                 'ring store is `%s := %s`' % (k, key(W.ctx(h).expr_rvalue(w['site'].rv))), where(h, w['line']))
    rd = [t for t in f.calls() if last_seg(t.callee.best) == 'index' and not t.macros]
    ok = any('arg2 Rem SPECTATOR_BUFFER_SIZE' in key(W.ctx(f).expr_operand(t.args[1])) for t in rd if len(t.args) > 1)
    ob.check(ok, 'inputs_at_frame|ring-slot', 'the lookup reads slot frame % SPECTATOR_BUFFER_SIZE',
             'the lookup does not index the ring with frame % SPECTATOR_BUFFER_SIZE', where(f))


def o4(W, ob):
    f = W.fn(SP + '::advance_frame')
    cx = W.ctx(f)
    G = W.guards(f)
    rng = [s for s in f.stmts() if s.k == 'assign' and s.rv.k == 'agg' and s.rv.j.get('ak') == 'adt'
           and s.rv.j['adt'].endswith('Range')]
    ob.require_count(len(rng), 1, 'advance loop range in SpectatorSession::advance_frame')
    for s in rng:
        fields = dict(zip(s.rv.j['fields'], s.rv.ops))
        src = trace_back(W, f, fields['end'])
        ok = False
        desc = repr(src)
        if src and src[0] == 'place':
            pd = G.phi_defs(src[1].local)
            if pd:
                vals = [(key(v), G.guard(b), v) for b, v in pd]
                desc = '; '.join('%s when %s' % (k, dnf_str(g)[:120]) for k, g, _ in vals)
                normal = [x for x in vals if x[0] in ('NORMAL_SPEED', '1')]
                fast = [x for x in vals if x[0] not in ('NORMAL_SPEED', '1')]
                if len(normal) == 1 and len(fast) == 1:
                    gf = fast[0][1]
                    trig = every_disjunct_has(gf, lambda a: match_lin(a, [(has('frames_behind_host('), 1), (exact('self.max_frames_behind'), -1)], lo=1))
                    kf = fast[0][0]
                    # the ring bound may be spelled `SPECTATOR_BUFFER_SIZE - 1` or be a named constant of that value
                    ring = W.const('SPECTATOR_BUFFER_SIZE') - 1
                    named = [nm for nm, c in ((p2.split('::')[-1], c2) for p2, c2 in W.fx.consts.items()) if 'val' in c and int(c['val']) == ring and nm in kf]
                    capped = kf.startswith('min(') and 'self.catchup_speed' in kf and 'frames_behind_host(' in kf and ('SPECTATOR_BUFFER_SIZE Sub 1' in kf or bool(named))
                    gn = normal[0][1]
                    slow = every_disjunct_has(gn, lambda a: match_lin(a, [(has('frames_behind_host('), 1), (exact('self.max_frames_behind'), -1)], hi=0))
                    ok = trig and capped and slow
        ob.check(ok, 'SpectatorSession::advance_frame|catch-up',
                 'one frame per call unless more than max_frames_behind frames are buffered; then min(catchup_speed, '
                 'frames_behind, SPECTATOR_BUFFER_SIZE - 1)', 'frames_to_advance is: ' + desc, where(f, s.line))
    nc = W.const('NORMAL_SPEED')
    ob.check(nc == 1, 'NORMAL_SPEED', 'NORMAL_SPEED == 1', 'NORMAL_SPEED is %s' % nc, None)


def o5(W, ob):
    E = Effects(W)
    f = W.fn(P2P + '::send_confirmed_inputs_to_spectators')
    eff = E.of(f)
    allowed = ('self.next_spectator_frame', 'self.player_reg.spectators', 'self.socket')
    bad = sorted(e for e in eff if not any(e == a or e.startswith(a + '[') or e.startswith(a + '.') for a in allowed))
    ob.check(not bad and 'self.next_spectator_frame' in eff, 'send_confirmed_inputs_to_spectators|effects',
             'the spectator broadcast writes only the cursor, the spectator endpoints and the socket (%d paths)' % len(eff),
             'the spectator broadcast also writes: %s' % ', '.join(bad), where(f))
    d = W.fn(P2P + '::disconnect_player_at_frame')
    G = W.guards(d)
    # the spectator arm: calls under `handles[..] is Spectator`
    for t in d.calls():
        g = G.guard(t.bb)
        if g and every_disjunct_has(g, lambda a: a[0] == 'is' and a[2] == 'Spectator' and a[3]):
            if t.callee.indirect is None and last_seg(t.callee.best) in ('get_mut', 'expect', 'get', 'deref', 'deref_mut'):
                continue
            ok = callee_matches(t.callee, 'UdpProtocol::disconnect')
            ob.check(ok, 'disconnect_player_at_frame|spectator-arm|%s' % last_seg(t.callee.best),
                     'disconnecting a spectator only stops its endpoint', 'the spectator arm of disconnect_player_at_frame calls %s' %
                     short(t.callee.best), where(d, t.line))
    for w in W.writes():
        if w['fn'] is d and w['kind'] == 'store':
            g = G.guard(w['bb'])
            if g and every_disjunct_has(g, lambda a: a[0] == 'is' and a[2] == 'Spectator' and a[3]):
                ob.fail('disconnect_player_at_frame|spectator-arm-store', 'disconnecting a spectator writes `%s`' % w['ap'].s(d), where(d, w['line']))


from . import helpers

from . import initial

from . import casts

from . import mustcall


def _c05_o3(W, ob):
    from . import c05
    return c05.o3(W, ob)


from . import vocab

from . import inventory


def _c03_o4(W, ob):
    from . import c03 as _m
    return _m.o4(W, ob)


OBLIGATIONS = [
    ('C06.O1', 'broadcast cursor', 'next_spectator_frame is written only by the broadcast (+1, after the sends of its frame, '
     'once per fetched frame); frames are fetched with confirmed_inputs(cursor) and sent only while cursor <= confirmed frame.', o1),
    ('C06.O2', 'send before discard (= C01.O5)', 'see C01.O5', c01.o5),
    ('C06.O3', 'ring lookup', 'inputs_at_frame: slot older -> PredictionThreshold, newer -> SpectatorTooFarBehind, inputs only on '
     'equality; writer and reader index the ring with frame % SPECTATOR_BUFFER_SIZE; the ring is written only by handle_event.', o3),
    ('C06.O4', 'catch-up', 'frames_to_advance = 1 unless frames_behind > max_frames_behind, then min(catchup_speed, frames_behind, '
     'buffer-1).', o4),
    ('C06.O5', 'spectators do not perturb players', 'effect summary of the broadcast is confined to cursor, spectator endpoints and '
     'socket; the spectator arm of disconnect_player_at_frame only stops the endpoint.', o5),
    ('C06.O6', 'same cut-off predicate on host and spectator (= C03.O2)', 'see C03.O2', c03.o2),
    ('C06.O7', 'the host->spectator stream is the acknowledged input stream (= C05.O3)', 'spectators receive confirmed inputs over the same resend-until-acknowledged stream as players: last_acked_input -- the delta base and the continuity check of the next packet -- is the NEWEST acknowledged input, set only where inputs leave the resend queue; see C05.O3', _c05_o3),
    ('C06.O8', 'last_frame provenance (= C03.O4)', 'the cut-off a spectator is told is the last frame the host really received from that player: local_connect_status[h].last_frame is stored only from queued inputs; see C03.O4', _c03_o4),
    ('C06.H', 'helpers the rules above rely on', 'the bodies of the helpers named by this property\'s rules compute what the rules assume (registry_counts, confirmed_input); see rules/helpers.py', helpers.bundle('registry_counts', 'confirmed_input', 'from_inputs')),
    ('C06.I', 'initial state', 'every constructor gives the fields this property\'s rules interpret (NULL_FRAME = none / nothing yet, 0 = first frame, latches open, typestate start) the value listed in tables/initial_state.json; every field compared with NULL_FRAME anywhere is listed; see rules/initial.py', initial.rule_for('C06')),
    ('C06.C', 'lossy integer casts', 'every sign-changing cast (signed -> unsigned; NULL_FRAME is -1) and every narrowing cast to < 32 bits or from 128 bits in the crate is in range by a dominating guard, by the shape of its operand, or listed with a reason in tables/casts.json; see rules/casts.py', casts.rule),
    ('C06.M', 'must-call floor', 'the calls listed for this property in tables/must_call.json are made on every path from the entry of their function to a normal return (interprocedural must-call): a new early return, fast path or extra condition in front of one of them is reported; see rules/mustcall.py', mustcall.rule_for('C06')),
    ('C06.V', 'no unreviewed condition in the pinned helpers', 'for each helper whose body this property\'s rules pin (tables/condition_terms.json), the terms its path conditions are built from (fields, parameters, call results -- no constants, operators or local names) are a subset of the reviewed vocabulary: one more `if` in front of a pinned result (a lock that may time out, "only while an endpoint is running") is reported; see rules/vocab.py', vocab.rule_for('C06')),
    ('C06.S', 'state inventory', 'every field of the structs this property\'s rules read (tables/state.json) is known, and is written only by its reviewed writers (or helpers only they call): a new field is new state across calls -- a cache, a flag, a stored deadline -- that nothing has shown to stay in step; a new writer is a second place that resets, re-arms or moves something; see rules/inventory.py', inventory.state_rule_for('C06')),
    ('C06.K', 'call inventory', 'every reviewed call of a function that writes state (tables/call_edges.json, callers in the structs this property\'s rules read) is still made, directly or through helpers: a call deleted as redundant is reported; likewise the arguments of logging / debug-only macros change no state, no unreviewed call of a state-writing function appears (tables/call_edges_all.json), the types of the locals a loop carries from one iteration to the next (tables/carried.json) and, per function and field, how reads and writes of the field are ordered (tables/orders.json: a snapshot taken before instead of after an update) are as reviewed; see rules/inventory.py', inventory.call_rule_for('C06')),
    ('C06.A', 'expression inventory', 'every arithmetic expression handed to a call or stored in a field, and what every closure given to an iterator adaptor / collection method returns, is one of the reviewed expressions of its function (tables/expressions.json; linear / guard normal forms, no local names): a changed literal, operator, operand order, factor, predicate or sort key is reported; see rules/inventory.py', inventory.expr_rule_for('C06')),
    ('C06.Z', inventory.CONST_TITLE, inventory.CONST_TEXT, inventory.const_rule_for('C06')),
]
