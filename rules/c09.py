"""C09 -- desync detection: no false alarm, real divergence caught (structural part)."""
from .lib import *
from .cfg import cfg_of, callee_matches
from .sem import key, dnf_str
from . import c01

LEVEL = 'other'
EXPLANATION = ('Static rule checking: checksums are examined before anything can be marked confirmed in the same call, a checksum is '
               'reported / compared only for frames at or below the sync layer\'s last confirmed frame (whose rollback the game has already '
               'executed), the reported (frame, checksum) pair comes from one cell and is what is remembered locally, the DesyncDetected '
               'event carries the key and both values of one comparison under their inequality, interval 0 is rejected. Absence of false '
               'alarms over schedules and detection latency are NOT decided.')
NOT_DECIDED = ['no schedule ever produces a false DesyncDetected', 'a real divergence is detected within a few intervals']
ASSUMPTIONS = c01.ASSUMPTIONS

P2P = c01.P2P
SL = c01.SL
LCF = 'self.sync_layer.last_confirmed_frame'


def o1(W, ob):
    f = W.fn(P2P + '::advance_frame_after_poll')
    cfg = cfg_of(f)
    chk = sites(W, f, P2P + '::check_checksum_send_interval') + sites(W, f, P2P + '::compare_local_checksums_against_peers')
    ob.require_count(len(chk), 2, 'checksum send/compare sites in advance_frame_after_poll')
    conf = W.cg.blocks_calling(f, SL + '::set_last_confirmed_frame')
    ob.require_count(len(conf), 2, 'call sites that may confirm frames (lockstep and rollback advance)')
    for t in conf:
        r = cfg.reachable_after(t)
        late = [c for c in chk if c in r]
        ob.check(not late, 'advance_frame_after_poll|checksums-before-confirm',
                 'checksums are sent and compared before any frame can be marked confirmed in this call',
                 'a checksum send/compare site is reachable after a call that may mark frames confirmed: the frame\'s new checksum is not '
                 'stored yet at that point (false DesyncDetected)', where(f, f.blocks[t].term.line))
    # both happen whenever detection is on
    G = W.guards(f)
    for c in chk:
        g = G.guard(c)
        extra = [a for cj in g for a in cj if not (a[0] == 'is' and (a[1] in ('self.state', 'self.desync_detection') or 'iter' in a[1] or 'local_player_handles' in a[1]))]
        ob.check(not extra and guard_has_is(g, 'self.desync_detection', 'Off', False), 'advance_frame_after_poll|checksums-when-on',
                 'checksum handling runs on every advance while detection is on', 'checksum handling is additionally conditioned: ' + dnf_str(g)[:200],
                 where(f, f.blocks[c].term.line))


def o2(W, ob):
    f = W.fn(P2P + '::check_checksum_send_interval')
    G = W.guards(f)

    def confirmed_bound(a):
        v = lin_view(a)
        if v is None or a[0] != 'lin':
            return False
        terms, lo, hi = v
        if LCF not in terms:
            return False
        c = terms[LCF]
        if not any('interval' in k for k in terms):
            return False
        # frame_to_send - lcf <= 0  (orientation by the sign of lcf)
        if c == -1:
            return hi is not None and hi <= 0
        if c == 1:
            return lo is not None and lo >= 0
        return False
    uses = sites(W, f, 'UdpProtocol::send_checksum_report') + sites(W, f, SL + '::saved_state_by_frame')
    uses += [w['bb'] for w in stores_in(W, f, 'last_sent_checksum_frame')]
    ob.require_count(len(uses), 3, 'report / lookup / bookkeeping sites in check_checksum_send_interval')
    for b in uses:
        g = G.guard(b)
        if b in sites(W, f, SL + '::saved_state_by_frame'):
            # detection half: the lookup happens whenever detection is on and the frame is confirmed -- nothing else conditions it
            eg = G.essential_guard(b)
            extra = [a for c in eg for a in c if not (confirmed_bound(a) or (a[0] == 'is' and 'desync_detection' in a[1]) or
                                                      (a[0] in ('lin', 'ne') and len(a[1]) == 1 and a[1][0][0] == 'self.last_sent_checksum_frame'))]
            ob.check(not extra, 'check_checksum_send_interval|whenever-confirmed', 'a checksum is looked up whenever the next checksum frame is confirmed',
                     'the checksum lookup is additionally conditioned by %s: checksums would not be reported for some confirmed frames' % dnf_str([extra])[:200],
                     where(f, f.blocks[b].term.line))
        ob.check(bool(g) and every_disjunct_has(g, confirmed_bound), 'check_checksum_send_interval|confirmed-only',
                 'a checksum is looked up and reported only for frame_to_send <= sync_layer.last_confirmed_frame()',
                 'the checksum report is not guarded by `frame_to_send <= sync_layer.last_confirmed_frame()` (the frame whose rollback the '
                 'game has already executed): ' + dnf_str(g)[:300], where(f, f.blocks[b].term.line))
    # the fallback search stays inside [frame_to_send, last_confirmed_frame]
    for c in W.closures_of(f):
        for t in c.calls():
            if callee_matches(t.callee, SL + '::latest_saved_state_in_range'):
                cx = W.ctx(c)
                a1, a2 = key(cx.expr_operand(t.args[1])), key(cx.expr_operand(t.args[2]))
                ob.check('frame_to_send' in a1 and 'last_confirmed_frame' in a2, 'check_checksum_send_interval|fallback-range',
                         'the sparse-saving fallback searches [frame_to_send, last_confirmed_frame]',
                         'fallback range is [%s, %s]' % (a1, a2), where(c, t.line))
    c = W.fn(P2P + '::compare_local_checksums_against_peers')
    Gc = W.guards(c)
    cx = W.ctx(c)
    gets = [t for t in c.calls() if last_seg(t.callee.best) == 'get' and 'local_checksum_history' in cx.ap_carry(t.args[0].place).s(c)]
    ob.require_count(len(gets), 1, 'local checksum lookup in compare_local_checksums_against_peers')
    for t in gets:
        g = Gc.guard(t.bb)
        ok = every_disjunct_has(g, lambda a: a[0] == 'lin' and a[3] is not None and a[3] <= -1 and a[2] is None and
                                any(k == LCF and cc == -1 for k, cc in a[1]) and any('pending_checksums' in k and cc == 1 for k, cc in a[1])
                                or (a[0] == 'lin' and a[2] is not None and a[2] >= 1 and a[3] is None and
                                    any(k == LCF and cc == 1 for k, cc in a[1]) and any('pending_checksums' in k and cc == -1 for k, cc in a[1])))
        ob.check(ok, 'compare_local_checksums_against_peers|below-confirmed', 'a remote checksum is compared only for frames below last_confirmed_frame',
                 'remote checksums are compared without `remote_frame < last_confirmed_frame`: ' + dnf_str(g)[:300], where(c, t.line))


def o3(W, ob):
    f = W.fn(P2P + '::check_checksum_send_interval')
    cx = W.ctx(f)
    rep = [t for t in f.calls() if callee_matches(t.callee, 'UdpProtocol::send_checksum_report')]
    ins = [t for t in f.calls() if last_seg(t.callee.best) == 'insert' and 'local_checksum_history' in cx.ap_carry(t.args[0].place).s(f)]
    st = stores_in(W, f, 'last_sent_checksum_frame')
    ob.require_count(len(rep), 1, 'send_checksum_report call')
    ob.require_count(len(ins), 1, 'local_checksum_history.insert')

    def cell_of(k, suffix):
        return k[:-len(suffix)] if k.endswith(suffix) else None
    pairs = []
    for t in rep + ins:
        kf, kc = key(cx.expr_operand(t.args[1])), key(cx.expr_operand(t.args[2]))
        cf, cc = cell_of(kf, '.frame'), cell_of(kc, '.checksum') or (kc.split('.checksum')[0] if '.checksum' in kc else None)
        pairs.append((kf, kc))
        ob.check(cf is not None and cc is not None and cc.startswith(cf[:40]) and 'saved_state_by_frame' in kf,
                 '%s|frame-and-checksum-of-one-cell' % last_seg(t.callee.best), 'the reported / remembered frame and checksum are read from one saved cell',
                 '%s(frame=%s, checksum=%s): both must come from the same saved cell' % (last_seg(t.callee.best), kf[-60:], kc[-60:]), where(f, t.line))
    ob.check(len(set(pairs)) == 1, 'check_checksum_send_interval|report-equals-history', 'what is sent to the peers is what is remembered locally',
             'the pair sent to peers differs from the pair stored in local_checksum_history', where(f))
    for w in st:
        v = key(cx.expr_rvalue(w['site'].rv))
        ob.check(pairs and v == pairs[0][0], 'check_checksum_send_interval|last-sent', 'last_sent_checksum_frame is the frame reported',
                 'last_sent_checksum_frame := %s' % v[-80:], where(f, w['line']))
    c = W.fn(P2P + '::compare_local_checksums_against_peers')
    cxc = W.ctx(c)
    Gc = W.guards(c)
    ev = [s for f2, s in W.constructions('GgrsEvent', 'DesyncDetected')]
    ob.require_count(len(ev), 1, 'DesyncDetected constructors')
    for s in ev:
        f2 = [x for x, y in W.constructions('GgrsEvent', 'DesyncDetected') if y is s][0]
        if f2 is not c:
            ob.fail('DesyncDetected|constructor|%s' % short(f2.path), 'DesyncDetected is constructed in %s' % short(f2.path), where(f2, s.line))
            continue
        fields = dict(zip(s.rv.j['fields'], s.rv.ops))
        kf = key(cxc.expr_operand(fields['frame']))
        kl = key(cxc.expr_operand(fields['local_checksum']))
        kr = key(cxc.expr_operand(fields['remote_checksum']))
        same_item = 'pending_checksums' in kf and 'pending_checksums' in kr and kf != kr
        local_by_key = kl.startswith('self.local_checksum_history[') and kf[:60] in kl
        g = Gc.guard(s.bb)
        neq = every_disjunct_has(g, lambda a: (a[0] in ('ne', 'relz') and 'local_checksum_history' in repr(a) and 'pending_checksums' in repr(a)))
        ob.check(same_item and local_by_key and neq, 'compare_local_checksums_against_peers|event-truthful',
                 'DesyncDetected carries the compared frame, the peer\'s checksum for it and the local checksum stored for that same frame, under their inequality',
                 'DesyncDetected: frame/remote from one pending entry=%s, local checksum looked up by that frame=%s, emitted under inequality=%s' % (same_item, local_by_key, neq),
                 where(c, s.line))
    rm = [t for t in c.calls() if last_seg(t.callee.best) in ('remove_entry', 'remove') and 'pending_checksums' in cxc.ap_carry(t.args[0].place).s(c)]
    ob.check(len(rm) == 1, 'compare_local_checksums_against_peers|consume', 'compared entries are removed', 'compared pending checksums are not removed', where(c))
    # ... and only compared entries: a report is marked as dealt with only where a local checksum for that frame was found
    marks = [t for t in c.calls() if last_seg(t.callee.best) == 'push' and t.args and t.args[0].is_place() and cxc.ap_carry(t.args[0].place).root[0] in ('local', 'ret')
             and 'pending_checksums' in key(cxc.expr_operand(t.args[1]))]
    ob.require_count(len(marks), 1, 'site marking a pending checksum as dealt with')
    for t in marks:
        g = Gc.guard(t.bb)
        ok = every_disjunct_has(g, lambda a: a[0] == 'is' and a[1].startswith('self.local_checksum_history[') and a[2] == 'Some' and a[3])
        ob.check(ok, 'compare_local_checksums_against_peers|remove-only-compared', 'a pending remote checksum is consumed only once a local checksum for that frame exists to compare it with',
                 'a pending remote checksum is marked as dealt with although no local checksum for its frame was found (guard: %s): that comparison is lost for good' % dnf_str(g)[-200:],
                 where(c, t.line))


def o4(W, ob):
    f = W.fn('SessionBuilder::start_p2p_session')
    G = W.guards(f)
    errs = [s for f2, s in W.constructions('GgrsError', 'InvalidRequest') if f2 is f]
    ok = False
    for s in errs:
        g = G.guard(s.bb)
        if every_disjunct_has(g, lambda a: match_lin(a, [(has('desync_detection'), 1)], eq=0) and 'interval' in repr(a)) and \
                guard_has_is(g, 'self.desync_detection', 'On'):
            ok = True
    ob.check(ok, 'start_p2p_session|interval-zero', 'DesyncDetection::On{interval: 0} is rejected', 'start_p2p_session accepts a desync interval of 0', where(f))
    cons = sites(W, f, 'P2PSession::new')
    for b in cons:
        g = G.guard(b)
        ok2 = all(any(match_lin(a, [(has('interval'), 1)], neq=0) or (a[0] == 'is' and a[1].endswith('desync_detection') and a[2] == 'Off' and a[3]) or
                      (a[0] == 'is' and a[1].endswith('desync_detection') and a[2] == 'On' and not a[3]) for a in cj) for cj in g)
        ob.check(ok2, 'start_p2p_session|interval-zero-before-construct', 'the session is built only with a usable interval',
                 'P2PSession::new is reachable with interval 0: ' + dnf_str(g)[:200], where(f, f.blocks[b].term.line))


from . import helpers

from . import initial

from . import casts

from . import removals

from . import mustcall

from . import vocab


def _c02_o6(W, ob):
    from . import c02 as _m
    return _m.o6(W, ob)


from . import inventory


def _c18_window(W, ob):
    from . import c18 as _m
    return _m.window_prunes(W, ob)


OBLIGATIONS = [
    ('C09.O1', 'examine before confirm', 'in advance_frame_after_poll no checksum send/compare site is reachable after a call that may reach '
     'set_last_confirmed_frame; both run on every advance while detection is on.', o1),
    ('C09.O2', 'confirmed only', 'a checksum is looked up/reported only under frame_to_send <= sync_layer.last_confirmed_frame(); a remote checksum is '
     'compared only under remote_frame < last_confirmed_frame; the fallback search is bounded by the same two values.', o2),
    ('C09.O3', 'truthful report and event', 'reported and remembered (frame, checksum) come from one cell; DesyncDetected carries key, remote value and '
     'the local value for that key under their inequality; compared entries are removed.', o3),
    ('C09.O4', 'interval 0 rejected', 'start_p2p_session returns InvalidRequest for DesyncDetection::On{interval: 0} before constructing.', o4),
    ('C09.O5', 'the checksum of a frame is that of its last simulation (= C02.O6)', 'checksums are read from the save cells: every frame that is simulated again is saved again (and the per-call save is unconditional), otherwise a cell keeps the checksum of a mispredicted simulation and both peers raise a false DesyncDetected; see C02.O6', _c02_o6),
    ('C09.O6', 'history maps are pruned by a sliding window (= C18.O11)', 'see C18.O11: a clamped threshold evicts the blank reference frame a first packet decodes against, a threshold merged with the ack never moves on a receive-only endpoint, a `!=` keeps all but one checksum', _c18_window),
    ('C09.H', 'helpers the rules above rely on', 'the bodies of the helpers named by this property\'s rules compute what the rules assume (checksum_report, cell_accessors, saved_state_by_frame); see rules/helpers.py', helpers.bundle('checksum_report', 'cell_accessors', 'saved_state_by_frame')),
    ('C09.I', 'initial state', 'every constructor gives the fields this property\'s rules interpret (NULL_FRAME = none / nothing yet, 0 = first frame, latches open, typestate start) the value listed in tables/initial_state.json; every field compared with NULL_FRAME anywhere is listed; see rules/initial.py', initial.rule_for('C09')),
    ('C09.C', 'lossy integer casts', 'every sign-changing cast (signed -> unsigned; NULL_FRAME is -1) and every narrowing cast to < 32 bits or from 128 bits in the crate is in range by a dominating guard, by the shape of its operand, or listed with a reason in tables/casts.json; see rules/casts.py', casts.rule),
    ('C09.R', 'who may remove', 'every call that takes elements out of a collection this property\'s rules rely on (keyed removal from a map, or bulk / positional removal) is one of the reviewed sites in tables/removals.json; a lookup turned into a removal, a second prune, a clear on another path is reported; see rules/removals.py', removals.rule_for('C09')),
    ('C09.M', 'must-call floor', 'the calls listed for this property in tables/must_call.json are made on every path from the entry of their function to a normal return (interprocedural must-call): a new early return, fast path or extra condition in front of one of them is reported; see rules/mustcall.py', mustcall.rule_for('C09')),
    ('C09.V', 'no unreviewed condition in the pinned helpers', 'for each helper whose body this property\'s rules pin (tables/condition_terms.json), the terms its path conditions are built from (fields, parameters, call results -- no constants, operators or local names) are a subset of the reviewed vocabulary: one more `if` in front of a pinned result (a lock that may time out, "only while an endpoint is running") is reported; see rules/vocab.py', vocab.rule_for('C09')),
    ('C09.S', 'state inventory', 'every field of the structs this property\'s rules read (tables/state.json) is known, and is written only by its reviewed writers (or helpers only they call): a new field is new state across calls -- a cache, a flag, a stored deadline -- that nothing has shown to stay in step; a new writer is a second place that resets, re-arms or moves something; see rules/inventory.py', inventory.state_rule_for('C09')),
    ('C09.K', 'call inventory', 'every reviewed call of a function that writes state (tables/call_edges.json, callers in the structs this property\'s rules read) is still made, directly or through helpers: a call deleted as redundant is reported; likewise the arguments of logging / debug-only macros change no state, no unreviewed call of a state-writing function appears (tables/call_edges_all.json), the types of the locals a loop carries from one iteration to the next (tables/carried.json) and, per function and field, how reads and writes of the field are ordered (tables/orders.json: a snapshot taken before instead of after an update) are as reviewed; see rules/inventory.py', inventory.call_rule_for('C09')),
    ('C09.A', 'expression inventory', 'every arithmetic expression handed to a call or stored in a field, and what every closure given to an iterator adaptor / collection method returns, is one of the reviewed expressions of its function (tables/expressions.json; linear / guard normal forms, no local names): a changed literal, operator, operand order, factor, predicate or sort key is reported; see rules/inventory.py', inventory.expr_rule_for('C09')),
    ('C09.Z', inventory.CONST_TITLE, inventory.CONST_TEXT, inventory.const_rule_for('C09')),
]
