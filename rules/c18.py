"""C18 -- internal buffers stay bounded over arbitrarily long sessions (structural form)."""
import json
import re
import os
from .lib import *
from .cfg import cfg_of, callee_matches
from .sem import key, dnf_str
from .world import GROW_FNS, COLLECTION_TYS
from . import c01, c12

LEVEL = 'other'
EXPLANATION = ('Static rule checking: inventory of every growable collection field of the sessions, the endpoint, the sync layer and the input queue; every growth '
               'site (writer-set analysis) must be listed with its bounding construct, and each bounding construct is checked on the control-flow graph: trim loop '
               'before return, prune in the same function, cap-then-disconnect, drained on every poll, insert behind a handle validation, queue-implies-drain for the '
               'outgoing inputs; fixed-size vectors have no growth site outside constructors. Numeric bounds over histories are NOT decided.')
NOT_DECIDED = ['numeric bounds as a function of the configuration over long histories (implied by, not identical to, the structural form)']
ASSUMPTIONS = c01.ASSUMPTIONS + ['tables/buffers.json: the listed bounding constructs are adequate for the stated reason']
VERIF = os.path.dirname(os.path.dirname(os.path.abspath(__file__)))
P2P = c01.P2P
UDP = c01.UDP
SP = 'sessions::p2p_spectator_session::SpectatorSession'
ST = 'sessions::sync_test_session::SyncTestSession'
OWNERS = ['P2PSession', 'SpectatorSession', 'SyncTestSession', 'UdpProtocol', 'SyncLayer', 'InputQueue', 'SavedStates', 'PlayerRegistry', 'TimeSync']


def host_of(f):
    return f.parent if f.kind == 'closure' and f.parent else f.path


def growth_sites(W):
    out = []
    for w in W.writes():
        if w['kind'] == 'call' and w['callee'] in GROW_FNS and w['ap'].fields() and (w['ap'].root[0] in ('arg', 'upvar') or (w['ap'].root[0] == 'expr' and w['ap'].root[1].startswith('self'))):
            out.append(w)
    return out


def owner_of(W, w):
    f = w['fn']
    st = f.self_ty or ''
    host = host_of(f)
    for o in OWNERS:
        if ('::' + o + '::') in host or host.startswith(o) or (o + '<') in st:
            own = o
            break
    else:
        own = '?'
    fld = w['ap'].fields()
    # player_reg.* belong to PlayerRegistry
    if 'player_reg' in fld and len(fld) >= 2:
        return 'PlayerRegistry', fld[fld.index('player_reg') + 1]
    return own, fld[0]


def o1(W, ob):
    with open(os.path.join(VERIF, 'tables', 'buffers.json')) as f:
        tab = json.load(f)['buffers']
    # inventory of collection-typed fields
    fields = []
    for adt in OWNERS:
        for fld in W.struct_fields(adt):
            ty = fld['ty']
            if any(ty.startswith(c) for c in COLLECTION_TYS):
                fields.append((adt, fld['name'], ty))
    ob.require_count(len(fields), 25, 'growable collection fields in sessions / endpoint / sync layer')
    listed = {(b['owner'], b['field']): b for b in tab}
    gs = growth_sites(W)
    ob.require_count(len(gs), 20, 'growth sites on fields')
    seen = set()
    for w in gs:
        own, fld = owner_of(W, w)
        host = short(host_of(w['fn']))
        b = listed.get((own, fld))
        seen.add((own, fld))
        if b is None or host not in b['grow_in']:
            ob.fail('%s.%s|growth-site|%s' % (own, fld, host),
                    'unreviewed growth site: `%s.%s` grows in %s (%s) and no bounding construct is recorded for that site' % (own, fld, host, w['callee']),
                    where(w['fn'], w['line']))
        else:
            ob.ok('%s.%s grows in %s (%s): bounded by %s' % (own, fld, host, w['callee'], b['rule']), where(w['fn'], w['line']))
    fixed = [(a, n) for a, n, t in fields if (a, n) not in seen]
    for a, n in fixed:
        ob.ok('%s.%s has no growth site outside constructors (fixed size)' % (a, n))
    ob.info('fixed-size collections: %s' % ', '.join('%s.%s' % x for x in fixed))


def o2(W, ob):
    """each bounding construct, checked structurally"""
    # trim-before-return: C12.O6, against the documented bound
    c12.o6(W, ob)
    mq = W.const('MAX_EVENT_QUEUE_SIZE')
    ob.check(mq == 100, 'constants|MAX_EVENT_QUEUE_SIZE', 'the event queue bound is the documented 100', 'MAX_EVENT_QUEUE_SIZE = %s, the documented bound is 100' % mq, None)
    # drained-by-poll / drained-by-send_all_messages
    po = W.fn(UDP + '::poll')
    cx = W.ctx(po)
    dr = [t for t in po.calls() if last_seg(t.callee.best) == 'drain' and cx.ap_carry(t.args[0].place).s(po) == 'self.event_queue']
    ok = len(dr) == 1 and cfg_of(po).path_avoiding(cfg_of(po).returns, [dr[0].bb]) is None
    ob.check(ok, 'poll|drains-events', 'poll drains the endpoint event queue on every path', 'UdpProtocol::poll does not drain event_queue on every path', where(po))
    sa = W.fn(UDP + '::send_all_messages')
    cxs = W.ctx(sa)
    dr = [t.bb for t in sa.calls() if last_seg(t.callee.best) == 'drain' and cxs.ap_carry(t.args[0].place).s(sa) == 'self.send_queue']
    emp = [t.bb for t in sa.calls() if last_seg(t.callee.best) == 'is_empty' and cxs.ap_carry(t.args[0].place).s(sa) == 'self.send_queue']
    ok = bool(dr) and cfg_of(sa).path_avoiding(cfg_of(sa).returns, dr + emp) is None
    ob.check(ok, 'send_all_messages|drains', 'send_all_messages drains the send queue (or finds it empty) on every path',
             'send_all_messages can return with messages left in send_queue', where(sa))
    for name, n_expect in ((P2P + '::poll_remote_clients', 2), (SP + '::poll_remote_clients', 1)):
        f = W.fn(name)
        polls = sites(W, f, UDP + '::poll')
        sends = sites(W, f, UDP + '::send_all_messages')
        ob.check(len(polls) == n_expect and len(sends) == n_expect, '%s|polls-and-flushes' % short(f.path),
                 '%s polls and flushes every endpoint map' % short(f.path), '%s: poll sites=%d, send_all_messages sites=%d (expected %d each)' % (short(f.path), len(polls), len(sends), n_expect),
                 where(f))
        G = W.guards(f)
        for b in polls + sends:
            g = G.guard(b)
            extra = [a for c in g for a in c if a[0] != 'is']
            ob.check(not extra, '%s|unconditional-drain' % short(f.path), 'draining does not depend on the endpoint state', 'drain is conditional: ' + dnf_str(g)[:160],
                     where(f, f.blocks[b].term.line))
    # cap-then-disconnect
    si = W.fn(UDP + '::send_input')
    G = W.guards(si)
    cxi = W.ctx(si)
    push = [t for t in si.calls() if last_seg(t.callee.best) == 'push_back' and cxi.ap_carry(t.args[0].place).s(si) == 'self.pending_output']
    ob.require_count(len(push), 1, 'pending_output.push_back')
    cap = W.const('PENDING_OUTPUT_SIZE')
    for t in push:
        g = G.guard(t.bb)
        ob.check(guard_has_is(g, 'self.state', 'Running'), 'send_input|push-only-running', 'inputs are buffered only for a Running endpoint',
                 'pending_output grows while the endpoint is not Running: ' + dnf_str(g)[:160], where(si, t.line))
    dis = event_constructions(W, si, 'Event', 'Disconnected')
    ok = False
    for s in dis:
        g = G.guard(s.bb)
        ok = every_disjunct_has(g, lambda a: match_lin(a, [(exact('len(self.pending_output)'), 1)], lo=cap + 1) or match_lin(a, [(exact('len(self.pending_output)'), 1)], lo=cap))
        reach = any(s.bb in cfg_of(si).reachable_after(t.bb) for t in push)
        ok = ok and reach
    ob.check(ok and cap == 128, 'send_input|cap-then-disconnect', 'more than PENDING_OUTPUT_SIZE (128) unacknowledged inputs lead to Disconnected',
             'the pending-output cap (PENDING_OUTPUT_SIZE=%s) no longer leads to Event::Disconnected after the push' % cap, where(si))
    # retain-after-insert / retain-before-insert
    for name, fld, mode in ((UDP + '::on_input', 'recv_inputs', 'after'), (UDP + '::on_checksum_report', 'pending_checksums', 'before'),
                            (P2P + '::check_checksum_send_interval', 'local_checksum_history', 'after'), (ST + '::checksums_consistent', 'checksum_history', 'before')):
        f = W.fn(name)
        cxf = W.ctx(f)
        cfg = cfg_of(f)
        ins = [t for t in f.calls() if last_seg(t.callee.best) == 'insert' and cxf.ap_carry(t.args[0].place).s(f) == 'self.' + fld]
        ret = [t for t in f.calls() if last_seg(t.callee.best) == 'retain' and cxf.ap_carry(t.args[0].place).s(f) == 'self.' + fld]
        ob.require_count(len(ins), 1, '%s.insert in %s' % (fld, short(f.path)))
        ob.require_count(len(ret), 1, '%s.retain in %s' % (fld, short(f.path)))
        for t in ins:
            if mode == 'after':
                # every path from the insert to a return passes the retain or a size test that lets it through
                sz = [x.bb for x in f.calls() if last_seg(x.callee.best) == 'len' and x.args and x.args[0].is_place() and cxf.ap_carry(x.args[0].place).s(f) == 'self.' + fld]
                through = [r.bb for r in ret] + sz
                rej = [b.id for b in f.blocks if not b.cleanup and b.id in cfg.reach and every_disjunct_has(W.guard(f, b.id), lambda a: a[0] == 'is' and a[2] == 'Err' and a[3])]
                p = cfg.path_from_avoiding(t.bb, through + rej)
                ob.check(p is None, '%s|prune-after-insert|%s' % (short(f.path), fld), '%s is pruned (or size-checked) after every insert' % fld,
                         '%s can grow in %s without the prune being reached' % (fld, short(f.path)), where(f, t.line), witness=path_str(f, p) if p else None)
            else:
                sz = [x.bb for x in f.calls() if last_seg(x.callee.best) == 'len' and x.args and x.args[0].is_place() and cxf.ap_carry(x.args[0].place).s(f) == 'self.' + fld]
                through = [r.bb for r in ret] + sz
                p = cfg.path_avoiding([t.bb], through)
                ob.check(p is None, '%s|prune-before-insert|%s' % (short(f.path), fld), '%s is pruned (or size-checked) before every insert' % fld,
                         '%s can grow in %s without the prune/size test being passed' % (fld, short(f.path)), where(f, t.line), witness=path_str(f, p) if p else None)
        for r in ret:
            g = W.guard(f, r.bb)
            lens = [a for c in g for a in c if a[0] == 'lin' and any(k == 'len(self.%s)' % fld for k, _ in a[1])]
            if fld in ('pending_checksums', 'local_checksum_history'):
                mx = W.const('MAX_CHECKSUM_HISTORY_SIZE')
                ok = bool(lens) and all(a[2] is not None and a[2] <= mx + 1 for a in lens)
                ob.check(ok and mx >= 2, '%s|prune-threshold|%s' % (short(f.path), fld), '%s is pruned once it holds MAX_CHECKSUM_HISTORY_SIZE entries' % fld,
                         'prune threshold of %s: %s (MAX_CHECKSUM_HISTORY_SIZE=%s)' % (fld, dnf_str(g)[-120:], mx), where(f, r.line))
    # keyed-by-validated-handle
    a = W.fn(P2P + '::add_local_input')
    cxa = W.ctx(a)
    for t in [t for t in a.calls() if last_seg(t.callee.best) == 'insert']:
        g = W.guard(a, t.bb)
        ok = every_disjunct_has(g, lambda x: x[0] == 'bool' and 'contains(' in x[1] and 'local_player_handles' in x[1] or (x[0] == 'bool' and 'contains' in x[1] and x[2] is True))
        ob.check(ok, 'P2PSession::add_local_input|validated-key', 'pending_local_inputs is keyed by a validated local handle', 'insert guard: ' + dnf_str(g)[:200], where(a, t.line))
    s_ = W.fn(ST + '::add_local_input')
    for t in [t for t in s_.calls() if last_seg(t.callee.best) == 'insert']:
        g = W.guard(s_, t.bb)
        ok = every_disjunct_has(g, lambda x: match_lin(x, [(exact('arg2'), 1), (exact('self.num_players'), -1)], hi=-1))
        ob.check(ok, 'SyncTestSession::add_local_input|validated-key', 'local_inputs is keyed by a handle < num_players', 'insert guard: ' + dnf_str(g)[:200], where(s_, t.line))
    for name, fld in ((P2P + '::advance_rollback_frame', 'pending_local_inputs'), (P2P + '::advance_lockstep_frame', 'pending_local_inputs'), (ST + '::advance_frame', 'local_inputs')):
        f = W.fn(name)
        cl = [t for t in f.calls() if last_seg(t.callee.best) == 'clear' and W.ctx(f).ap_carry(t.args[0].place).s(f) == 'self.' + fld]
        ob.check(len(cl) == 1, '%s|clears|%s' % (short(f.path), fld), '%s is cleared when a frame is consumed' % fld, '%s is no longer cleared in %s' % (fld, short(f.path)), where(f))


def o3(W, ob):
    q = W.fn(P2P + '::queue_outgoing_local_input')
    G = W.guards(q)
    cx = W.ctx(q)
    ins = [t for t in q.calls() if last_seg(t.callee.best) in ('entry', 'insert') and 'outgoing_local_inputs' in cx.ap_carry(t.args[0].place).s(q)]
    ob.require_count(len(ins), 2, 'queueing sites in queue_outgoing_local_input')
    for t in ins:
        g = G.guard(t.bb)
        ok = every_disjunct_has(g, lambda a: a[0] == 'bool' and a[1] == 'is_empty(self.player_reg.remotes)' or (a[0] == 'bool' and 'is_empty(self.player_reg.remotes)' in a[1] and a[2] is False))
        ob.check(ok, 'queue_outgoing_local_input|only-with-remotes', 'local inputs are queued only when there is a remote to send them to',
                 'outgoing_local_inputs grows although there may be no remote: ' + dnf_str(g)[:200], where(q, t.line))
    # which frame is handed over next is decided by the queue alone: next_complete_outgoing_input_frame reads the queue, the cursor and the local handles, never the
    # state of an endpoint -- a hand-over that waits for "some remote is running" strands the queue for good when none ever is (stated negatively: endpoint state
    # must not occur in its conditions; any other respelling of the function is free)
    nx = W.fn(P2P + '::next_complete_outgoing_input_frame')
    hosts = [nx]
    for c in W.closures_of(nx):
        hosts.append(c)
        hosts.extend(W.closures_of(c))
    foreign = []
    for h in hosts:
        for t in h.calls():
            if any(callee_matches(t.callee, UDP + '::' + m) for m in ('is_running', 'is_synchronized', 'is_handling_message')):
                foreign.append((h, t.line, short(t.callee.best)))
            for a in t.args:
                if a.is_place():
                    aps = W.ctx(h).ap_carry(a.place).s(h, generic=True)
                    if 'player_reg.remotes' in aps or 'player_reg.spectators' in aps or aps == 'self.state':
                        foreign.append((h, t.line, aps))
    ob.check(not foreign, 'next_complete_outgoing_input_frame|queue-only', 'the next frame to hand over is chosen from the queue, the cursor and the local handles alone',
             'next_complete_outgoing_input_frame consults endpoint / session state (%s): the hand-over of queued local inputs can now wait for a condition that may never '
             'hold, and the queue grows without bound' % (foreign[0][2] if foreign else ''), where(nx, foreign[0][1] if foreign else None))
    d = W.fn(P2P + '::send_ready_outgoing_inputs_to_remotes')
    Gd = W.guards(d)
    cxd = W.ctx(d)
    rm = [t for t in d.calls() if last_seg(t.callee.best) == 'remove' and 'outgoing_local_inputs' in cxd.ap_carry(t.args[0].place).s(d)]
    nx = [t for t in d.calls() if callee_matches(t.callee, P2P + '::next_complete_outgoing_input_frame')]
    ob.require_count(len(rm), 1, 'drain site in send_ready_outgoing_inputs_to_remotes')
    ob.require_count(len(nx), 1, 'next_complete_outgoing_input_frame call')
    for t in nx:
        g = Gd.guard(t.bb)
        allowed = lambda a: (a[0] == 'bool' and 'is_empty(self.player_reg.remotes)' in a[1] and a[2] is False) or \
                            (a[0] == 'bool' and 'is_empty(' in a[1] and 'local_player_handles' in a[1] and a[2] is False) or \
                            (a[0] == 'is' and 'next_complete_outgoing_input_frame' in a[1])
        extra = [a for c in g for a in c if not allowed(a)]
        ob.check(not extra, 'send_ready_outgoing_inputs_to_remotes|drain-condition',
                 'whatever is queued is drained: the drain runs whenever there are remotes and local players (the queueing condition implies it)',
                 'outgoing inputs are queued whenever `remotes` is non-empty but drained only under the stricter condition `%s`: entries queued while it is false are '
                 'never removed and the queue grows without bound' % dnf_str([extra])[:200], where(d, t.line))
    for t in rm:
        v = key(cxd.expr_operand(t.args[1]))
        ob.check(re.match(r'^(?:\w+::)*next_complete_outgoing_input_frame\(self, (?:\w+::)*local_player_handles\(self\.player_reg\)\)\.Some\.0$', v) is not None, 'send_ready_outgoing_inputs_to_remotes|removes-sent', 'the frame that is sent is removed from the queue',
                 'remove(%s)' % v[:80], where(d, t.line))
    st = stores_in(W, d, 'last_sent_outgoing_input_frame')
    ok = len(st) == 1 and re.match(r'^(?:\w+::)*next_complete_outgoing_input_frame\(self, (?:\w+::)*local_player_handles\(self\.player_reg\)\)\.Some\.0$', key(cxd.expr_rvalue(st[0]['site'].rv))) is not None
    ob.check(ok, 'send_ready_outgoing_inputs_to_remotes|cursor', 'the sent-cursor follows the frame just sent', 'last_sent_outgoing_input_frame is not set to the frame sent', where(d))
    # every announced frame is flushed (C11.O1b) -- and the lookup accepts exactly cursor+1 (or the first complete frame)
    n = W.fn(P2P + '::next_complete_outgoing_input_frame')
    cxn = W.ctx(n)
    gets = [t for t in n.calls() if last_seg(t.callee.best) == 'get' and 'outgoing_local_inputs' in cxn.ap_carry(t.args[0].place).s(n)]
    ok = any(key(cxn.expr_operand(t.args[1])) == '(self.last_sent_outgoing_input_frame Add 1)' for t in gets)
    ob.check(ok, 'next_complete_outgoing_input_frame|successor', 'the next frame to send is the successor of the last one sent',
             'next_complete_outgoing_input_frame does not look up last_sent_outgoing_input_frame + 1', where(n))


def o4(W, ob):
    callers = W.calls_to(UDP + '::send_sync_request')
    ob.require_count(len(callers), 3, 'callers of send_sync_request')
    for f, t in callers:
        g = W.guard(f, t.bb)
        okc = match_path(f.path, UDP + '::synchronize') or guard_has_is(g, 'self.state', 'Synchronizing')
        ob.check(okc, 'send_sync_request|caller|%s' % short(f.path), 'sync requests (and their nonces) are created only while synchronizing',
                 'send_sync_request is called from %s outside the Synchronizing state: sync_random_requests could grow in a running session' % short(f.path), where(f, t.line))


from . import helpers, wiring

from . import initial

from . import removals

from . import mustcall

from . import vocab

from . import inventory

WINDOW_PRUNES = [
    # function, map field, what the window is relative to
    (UDP + '::on_input', 'recv_inputs', 'the newest received frame'),
    (P2P + '::check_checksum_send_interval', 'local_checksum_history', 'the frame whose checksum was just recorded'),
    (UDP + '::on_checksum_report', 'pending_checksums', 'the frame of the report just received'),
]


def window_prunes(W, ob):
    """every `retain` that bounds a history map is a sliding window: it keeps exactly the keys at or above a threshold, and the threshold is an affine function
    (reference frame minus a multiple of a configured window) -- no clamp, no min/max with another frame, no `!=`.  A threshold clamped at 0 evicts the blank
    NULL_FRAME (-1) reference a first packet decodes against; a threshold that is the minimum with the peer's ack never moves on a receive-only endpoint (the map
    grows for ever); a `!=` keeps everything but one key."""
    from .facts import strip_generics, Place
    n = 0
    for fn, fld, ref in WINDOW_PRUNES:
        f = W.fn(fn)
        cx = W.ctx(f)
        rets = [t for t in f.calls() if last_seg(t.callee.best) == 'retain' and t.args and cx.ap_carry(t.args[0].place).s(f).endswith('.' + fld)]
        if not rets:
            ob.info('%s: %s is not pruned with retain here (another bounding construct: see C18.O2)' % (short(fn), fld))
            continue
        for t in rets:
            src = trace_back(W, f, t.args[1])
            clo = None
            if src and src[0] == 'stmt' and src[1].rv.k == 'agg' and src[1].rv.j.get('ak') == 'closure':
                cp = strip_generics(src[1].rv.j['closure'])
                clo = next((c for c in W.closures_of(f) if c.path == cp), None)
            if clo is None:
                ob.info('%s: the predicate of %s.retain is not a closure literal' % (short(fn), fld))
                continue
            n += 1
            d = atoms_of_cond(W.ctx(clo).expr_place(Place({'l': 0, 'p': []})), True)
            desc = dnf_str(d)[:300]
            ok = False
            why = 'it is not a single one-sided comparison'
            if len(d) == 1 and len(d[0]) == 1 and d[0][0][0] == 'lin':
                terms, lo, hi = lin_view(d[0][0])
                keys_ = [k for k in terms if k.startswith('arg') and '(' not in k]
                compound = [k for k in terms if any(x in k for x in ('min(', 'max(', 'clamp(', 'saturating_', 'wrapping_', 'checked_'))]
                one_sided = (lo is None) != (hi is None)
                if compound:
                    why = 'its threshold is clamped or merged with another value (`%s`)' % compound[0][:80]
                elif not keys_ or not all(abs(terms[k]) == 1 for k in keys_):
                    why = 'the key does not enter it with coefficient 1'
                elif not one_sided:
                    why = 'it is not one-sided'
                else:
                    # keeps the LARGER keys: the entry's own key (the shortest arg term) has the sign of the open side
                    k0 = min(keys_, key=len)
                    ok = (terms[k0] > 0 and hi is None) or (terms[k0] < 0 and lo is None)
                    why = 'it keeps the older keys and drops the newer ones'
            ob.check(ok, '%s|window-prune|%s' % (short(fn), fld), '%s.retain in %s is a sliding window relative to %s: `%s`' % (fld, short(fn), ref, desc),
                     '%s.retain in %s is not a sliding window (keys at or above reference - k*window): %s -- predicate `%s`' % (fld, short(fn), why, desc), where(clo))
    ob.require_count(n, 2, 'history maps pruned by a retain window')


WINDOW_TITLE = 'history maps are pruned by a sliding window'
WINDOW_TEXT = ('each retain that bounds recv_inputs / local_checksum_history / pending_checksums keeps exactly the keys at or above an affine threshold (reference frame - k * window): one '
               'one-sided linear comparison with the key at coefficient 1, newer keys kept, no clamp, no min/max with another frame, no `!=`')


OBLIGATIONS = [
    ('C18.O1', 'inventory', 'every growable collection field of the sessions / endpoint / sync layer is listed; every growth site found by the writer-set analysis is '
     'recorded with its bounding construct; fixed-size collections have no growth site outside constructors.', o1),
    ('C18.O2', 'every bounding construct holds', 'trim before return (event queues), drained on every poll (endpoint queues), cap-then-disconnect (pending_output), prune in '
     'the same function (recv_inputs, checksum maps), validated keys + clear (local input maps).', o2),
    ('C18.O3', 'outgoing_local_inputs', 'inputs are queued only when there are remotes, and drained whenever there are remotes and local players (no stricter condition); '
     'the drain removes what it sends and follows the sent-cursor.', o3),
    ('C18.O4', 'sync_random_requests', 'nonces are created only while synchronizing (outside the property\'s synchronized session); listed.', o4),
    ('C18.O11', WINDOW_TITLE, WINDOW_TEXT, window_prunes),
    ('C18.H', 'helpers the rules above rely on', 'the bodies of the helpers named by this property\'s rules compute what the rules assume (next_complete); see rules/helpers.py', helpers.bundle('next_complete')),
    ('C18.W', 'endpoint construction wiring', 'cap-then-disconnect bounds pending_output only if the session can stop the endpoint that reported Disconnected, which it does per handle of that endpoint: the handle list the builder collected for an address reaches UdpProtocol::new whole (no element-dropping operation on a collection forwarded under its own name), and no configuration wire is crossed; see rules/wiring.py', wiring.rule),
    ('C18.I', 'initial state', 'every constructor gives the fields this property\'s rules interpret (NULL_FRAME = none / nothing yet, 0 = first frame, latches open, typestate start) the value listed in tables/initial_state.json; every field compared with NULL_FRAME anywhere is listed; see rules/initial.py', initial.rule_for('C18')),
    ('C18.R', 'who may remove', 'every call that takes elements out of a collection this property\'s rules rely on (keyed removal from a map, or bulk / positional removal) is one of the reviewed sites in tables/removals.json; a lookup turned into a removal, a second prune, a clear on another path is reported; see rules/removals.py', removals.rule_for('C18')),
    ('C18.M', 'must-call floor', 'the calls listed for this property in tables/must_call.json are made on every path from the entry of their function to a normal return (interprocedural must-call): a new early return, fast path or extra condition in front of one of them is reported; see rules/mustcall.py', mustcall.rule_for('C18')),
    ('C18.V', 'no unreviewed condition in the pinned helpers', 'for each helper whose body this property\'s rules pin (tables/condition_terms.json), the terms its path conditions are built from (fields, parameters, call results -- no constants, operators or local names) are a subset of the reviewed vocabulary: one more `if` in front of a pinned result (a lock that may time out, "only while an endpoint is running") is reported; see rules/vocab.py', vocab.rule_for('C18')),
    ('C18.S', 'state inventory', 'every field of the structs this property\'s rules read (tables/state.json) is known, and is written only by its reviewed writers (or helpers only they call): a new field is new state across calls -- a cache, a flag, a stored deadline -- that nothing has shown to stay in step; a new writer is a second place that resets, re-arms or moves something; see rules/inventory.py', inventory.state_rule_for('C18')),
    ('C18.K', 'call inventory', 'every reviewed call of a function that writes state (tables/call_edges.json, callers in the structs this property\'s rules read) is still made, directly or through helpers: a call deleted as redundant is reported; likewise the arguments of logging / debug-only macros change no state, no unreviewed call of a state-writing function appears (tables/call_edges_all.json), the types of the locals a loop carries from one iteration to the next (tables/carried.json) and, per function and field, how reads and writes of the field are ordered (tables/orders.json: a snapshot taken before instead of after an update) are as reviewed; see rules/inventory.py', inventory.call_rule_for('C18')),
    ('C18.A', 'expression inventory', 'every arithmetic expression handed to a call or stored in a field, and what every closure given to an iterator adaptor / collection method returns, is one of the reviewed expressions of its function (tables/expressions.json; linear / guard normal forms, no local names): a changed literal, operator, operand order, factor, predicate or sort key is reported; see rules/inventory.py', inventory.expr_rule_for('C18')),
    ('C18.Z', inventory.CONST_TITLE, inventory.CONST_TEXT, inventory.const_rule_for('C18')),
]
