"""Reusable rule templates (slots are filled by the property modules)."""
from .cfg import cfg_of, callee_matches, match_path
from .sem import (canon_vec, conj_implies_atom, dnf_implies_atom, dnf_implies_dnf, dnf_str, atom_str, key, last_seg,
                  atoms_of_cond, LOG_MACROS, dnf_simplify, dnf_and)
from .engine import where, short
from .world import AnchorMissing

ASSERT_MACROS = {'assert', 'assert_eq', 'assert_ne', 'debug_assert', 'debug_assert_eq', 'debug_assert_ne', 'panic',
                 'unreachable', 'todo', 'unimplemented'}


def lin(pos, neg=(), lo=None, hi=None, const=0):
    """atom:  lo <= sum(pos) - sum(neg) + const <= hi   (either bound may be None)"""
    d = {}
    for k in pos:
        d[k] = d.get(k, 0) + 1
    for k in neg:
        d[k] = d.get(k, 0) - 1
    d = {k: v for k, v in d.items() if v != 0}
    vec, c, flipped = canon_vec(d, const)
    # sum(d)+const = s*(S + c)
    if flipped:
        lo, hi = (None if hi is None else -hi), (None if lo is None else -lo)
    lo2 = None if lo is None else lo - c
    hi2 = None if hi is None else hi - c
    return ('lin', vec, lo2, hi2)


def ne(pos, neg=(), k=0):
    d = {}
    for x in pos:
        d[x] = d.get(x, 0) + 1
    for x in neg:
        d[x] = d.get(x, 0) - 1
    vec, c, flipped = canon_vec(d, 0)
    return ('ne', vec, -k if flipped else k)


def is_(keystr, variant, pol=True):
    return ('is', keystr, variant, pol)


def boolean(keystr, pol=True):
    return ('bool', keystr, pol)


def user_calls(fn, include_logging=False):
    """call terminators that are not part of logging / assertion message formatting"""
    for t in fn.calls():
        if not include_logging and any(m in LOG_MACROS for m in t.macros):
            continue
        yield t


def sites(W, fn, pattern, may=False, must=False):
    """blocks of fn whose call terminator is (or may/must reach) `pattern`"""
    if may:
        return W.cg.blocks_calling(fn, pattern, must=False)
    if must:
        return W.cg.blocks_calling(fn, pattern, must=True)
    return [t.bb for t in fn.calls() if callee_matches(t.callee, pattern)]


def path_str(fn, path):
    return ' -> '.join('bb%d(L%d)' % (b, fn.blocks[b].term.line) for b in path)


def must_precede(W, ob, fn, first, then, key_prefix, first_mode='must', then_mode='direct', what=None,
                 then_blocks=None, first_blocks=None):
    """every path from entry to a `then` site passes through a `first` site.
    first_mode: 'direct' | 'must' (call must reach the pattern) ; then_mode: 'direct' | 'may'"""
    if first_blocks is None:
        first_blocks = sites(W, fn, first, must=(first_mode == 'must'), may=(first_mode == 'may'))
        if first_mode == 'direct':
            first_blocks = sites(W, fn, first)
    if then_blocks is None:
        then_blocks = sites(W, fn, then, may=(then_mode == 'may'))
    desc = what or ('%s precedes %s in %s' % (first, then, short(fn.path)))
    if not then_blocks:
        ob.fail('%s|%s|no-then-site' % (key_prefix, short(fn.path)),
                'cannot establish "%s": no call reaching `%s` in %s' % (desc, then, short(fn.path)), where(fn))
        return False
    cfg = cfg_of(fn)
    allok = True
    for tb in then_blocks:
        p = cfg.path_avoiding([tb], first_blocks)
        if p is None:
            ob.ok(desc, where(fn, fn.blocks[tb].term.line))
        else:
            allok = False
            ob.fail('%s|%s|%s-before-%s' % (key_prefix, short(fn.path), then, first),
                    '%s: a path reaches `%s` without passing `%s`' % (desc, then, first),
                    where(fn, fn.blocks[tb].term.line), witness=path_str(fn, p))
    return allok


def must_follow(W, ob, fn, start_blocks, then, key_prefix, what, mode='must'):
    """every path from each start block to a normal return passes through a `then` site"""
    then_blocks = sites(W, fn, then, must=(mode == 'must'))
    if mode == 'direct':
        then_blocks = sites(W, fn, then)
    cfg = cfg_of(fn)
    allok = True
    for sb in start_blocks:
        p = cfg.path_from_avoiding(sb, then_blocks)
        if p is None:
            ob.ok(what, where(fn, fn.blocks[sb].term.line))
        else:
            allok = False
            ob.fail('%s|%s|no-%s-after' % (key_prefix, short(fn.path), then),
                    '%s: a path returns without `%s`' % (what, then), where(fn, fn.blocks[sb].term.line),
                    witness=path_str(fn, p))
    return allok


def guard_implies(W, ob, fn, bb, atoms, key_, what, line=None, any_of=None):
    """the path condition of block bb implies every atom in `atoms` (and, if given, at least one DNF of any_of)"""
    G = W.guards(fn)
    g = G.guard(bb)
    ln = line if line is not None else fn.blocks[bb].term.line
    missing = [a for a in atoms if not dnf_implies_atom(g, a)]
    ok = not missing
    if ok and any_of is not None:
        ok = dnf_implies_dnf(g, any_of)
        if not ok:
            missing = ['one of: ' + dnf_str(any_of)]
    if ok:
        ob.ok(what, where(fn, ln), witness='guard: ' + dnf_str(g)[:600])
    else:
        ob.fail(key_, '%s: the guard does not imply %s' % (what, '; '.join(
            a if isinstance(a, str) else atom_str(a) for a in missing)),
                where(fn, ln), witness='guard: ' + dnf_str(g)[:1200] + (' (truncated)' if bb in G.truncated else ''))
    return ok


def writers(W, field, exact_only=True):
    ex, th = W.writes_to_field(field)
    return ex if exact_only else ex + th


def writer_fns(W, field, adt_hint=None, kinds=('store', 'call')):
    ex, _ = W.writes_to_field(field)
    r = {}
    for w in ex:
        if w['kind'] not in kinds:
            continue
        if adt_hint and not _root_ty_matches(W, w, adt_hint, field):
            continue
        r.setdefault(w['fn'], []).append(w)
    return r


def _root_ty_matches(W, w, adt_hint, field):
    """the owner ADT of the last `field` step: taken from the MIR field projection when the store is direct"""
    site = w['site']
    pl = getattr(site, 'place', None)
    if w['kind'] == 'store' and pl is not None:
        lf = None
        for e in pl.proj:
            if isinstance(e, dict) and e.get('f') == field:
                lf = e
        if lf is not None:
            from .facts import strip_generics
            return match_path(strip_generics(lf['adt']), adt_hint)
    return True


def only_writers(W, ob, field, adt, allowed, key_prefix, kinds=('store', 'call'), ignore_ctor=True):
    """the field is written only inside the allowed functions (suffix patterns)"""
    W.require_field(adt, field)
    wf = writer_fns(W, field, adt, kinds)
    n = 0
    for f, ws in wf.items():
        host = f.parent if f.kind == 'closure' and f.parent else f.path
        if any(match_path(host, a) for a in allowed):
            for w in ws:
                ob.ok('`%s.%s` written in allowed writer %s' % (adt, field, short(host)), where(f, w['line']))
                n += 1
        else:
            for w in ws:
                ob.fail('%s|%s.%s|writer|%s' % (key_prefix, adt, field, short(host)),
                        '`%s.%s` is written in %s, which is not one of its reviewed writers (%s)' % (
                            adt, field, short(host), ', '.join(allowed)), where(f, w['line']))
                n += 1
    return n


def stmt_guard_block(stmt):
    return stmt.bb


def is_assert_site(t):
    return any(m in ASSERT_MACROS for m in t.macros)


# ---------------------------------------------------------------------------------------------------------
# atom matching that does not depend on the names or numbers of locals
# ---------------------------------------------------------------------------------------------------------

def lin_view(atom):
    """(dict key->coef, lo, hi) of a 'lin' atom, or (dict, 'ne', k) of a 'ne' atom; None otherwise"""
    if atom[0] == 'lin':
        return dict(atom[1]), atom[2], atom[3]
    if atom[0] == 'ne':
        return dict(atom[1]), 'ne', atom[2]
    return None


def match_lin(atom, spec, lo=None, hi=None, eq=None, neq=None, extra_terms=0):
    """does the atom constrain  sum(coef_i * term_i)  where each spec entry (predicate, coef) matches exactly one term?
    `extra_terms` other terms with any coefficient of absolute value 1 are tolerated (e.g. a loop index).
    The bounds are given for the orientation of `spec`; the atom may be stored with the opposite sign."""
    v = lin_view(atom)
    if v is None:
        return False
    terms, a, b = v
    for sign in (1, -1):
        used = set()
        ok = True
        for pred, coef in spec:
            hit = None
            for k2, c in terms.items():
                if k2 in used:
                    continue
                if c == sign * coef and pred(k2):
                    hit = k2
                    break
            if hit is None:
                ok = False
                break
            used.add(hit)
        if not ok:
            continue
        rest = [k2 for k2 in terms if k2 not in used]
        if len(rest) != extra_terms:
            continue
        if a == 'ne':
            k3 = b * sign
            if neq is not None and k3 == neq:
                return True
            continue
        alo, ahi = a, b
        if sign == -1:
            alo, ahi = (None if b is None else -b), (None if a is None else -a)
        if eq is not None:
            if alo == ahi == eq:
                return True
            continue
        if neq is not None:
            continue
        ok_lo = lo is None or (alo is not None and alo >= lo)
        ok_hi = hi is None or (ahi is not None and ahi <= hi)
        if ok_lo and ok_hi and (lo is not None or hi is not None):
            return True
    return False


def every_disjunct_has(dnf, pred):
    """each disjunct of the guard contains an atom satisfying pred (so the guard implies 'some such atom')"""
    if not dnf:
        return False   # an unsatisfiable guard means the analysis lost the path: fail closed rather than pass vacuously
    return all(any(pred(a) for a in c) for c in dnf)


def has(sub):
    return lambda k2: sub in k2


def exact(s):
    return lambda k2: k2 == s


def ends(s):
    return lambda k2: k2.endswith(s)


def trace_back(W, fn, operand, through=None, max_steps=12, strict=False):
    """follow a value backwards through moves / value-preserving calls (first argument) to the call or place that
    produced it; returns ('call', term) | ('place', Place) | ('const', ...) | None"""
    from .sem import VALUE_FNS, IDENT_FNS
    pass_through = set(VALUE_FNS) | set(IDENT_FNS) | {'collect', 'map', 'enumerate', 'into_iter', 'iter', 'rev',
                                                      'filter', 'filter_map', 'cloned', 'copied', 'unwrap',
                                                      'expect', 'ok_or', 'ok_or_else', 'map_err', 'branch'}
    if strict:
        pass_through = set(through or ())
    elif through:
        pass_through |= set(through)
    cx = W.ctx(fn)
    op = operand
    for _ in range(max_steps):
        if not op.is_place():
            return ('const', op)
        pl = op.place
        from .sem import transparent_proj
        transparent = transparent_proj(pl.proj)
        if not transparent:
            return ('place', pl)
        if cx.is_arg(pl.local) and not cx.full_defs(pl.local):
            return ('place', pl)
        ds = cx.full_defs(pl.local)
        if len(ds) != 1:
            return ('place', pl)
        kind, d = ds[0]
        if kind == 'stmt':
            rv = d.rv
            if rv.k in ('use', 'cast') and rv.a is not None:
                op = rv.a
                continue
            if rv.k in ('ref',):
                from .facts import Operand
                op = _place_operand(rv.place)
                continue
            return ('stmt', d)
        else:
            seg = last_seg(d.callee.best) if d.callee.indirect is None else None
            if seg in pass_through and d.args:
                op = d.args[0]
                continue
            return ('call', d)
    return None


def _place_operand(place):
    from .facts import Operand
    o = Operand.__new__(Operand)
    o.kind = 'copy'
    o.place = place
    o.const = None
    return o


def duration_const_ms(W, name):
    """value of a `const X: Duration = Duration::from_millis(n)` / from_secs(n) item, in milliseconds"""
    for fx in W.all_facts:
        for f in fx.fn_list:
            if f.kind == 'const' and (f.path == name or f.path.endswith('::' + name)):
                for b in f.blocks:
                    t = b.term
                    if t.k == 'call' and t.callee.indirect is None:
                        seg = last_seg(t.callee.best)
                        if seg in ('from_millis', 'from_secs') and t.args and t.args[0].const_int() is not None:
                            v = t.args[0].const_int()
                            return v * (1000 if seg == 'from_secs' else 1)
    raise AnchorMissing('Duration constant `%s` not found' % name)


def event_constructions(W, fn, adt='Event', variant=None):
    return [s for f2, s in W.constructions(adt, variant) if f2 is fn]


def stores_in(W, fn, field, kinds=('store',)):
    ex, _ = W.writes_to_field(field)
    return [w for w in ex if w['fn'] is fn and w['kind'] in kinds]


def guard_has_bool(g, keystr, pol):
    return every_disjunct_has(g, lambda a: a == ('bool', keystr, pol))


def guard_has_is(g, keystr, variant, pol=True):
    def p(a):
        if a == ('is', keystr, variant, pol):
            return True
        # a positive fact about another variant implies `is not variant`
        from .sem import variant_family
        if not pol and a[0] == 'is' and a[1] == keystr and a[3] and a[2] != variant and variant_family(a[2]) == variant_family(variant):
            return True
        return False
    return every_disjunct_has(g, p)


# ---------------------------------------------------------------------------------------------------------
# iterator chains:  source.adaptor(..).adaptor(..).consumer()
# ---------------------------------------------------------------------------------------------------------

def closure_of_operand(W, f, op):
    """the closure function an operand denotes (a closure value built in f), or the path of a fn item"""
    src = trace_back(W, f, op, strict=True)
    if src and src[0] == 'stmt' and src[1].rv.k == 'agg' and src[1].rv.j.get('ak') == 'closure':
        from .facts import strip_generics
        cp = strip_generics(src[1].rv.j['closure'])
        for c in W.fns():
            if c.kind == 'closure' and c.path == cp:
                return ('closure', c)
    if op.kind == 'const' and op.fn_path():
        return ('fn', op.fn_path())
    if src and src[0] == 'const' and src[1].fn_path():
        return ('fn', src[1].fn_path())
    return None


def iter_chain(W, f, consumer_term, max_len=12):
    """walk an iterator chain backwards from its consumer: list of (segment, term) from the source to the consumer"""
    chain = [(last_seg(consumer_term.callee.best), consumer_term)]
    cur = consumer_term
    for _ in range(max_len):
        if not cur.args:
            break
        src = trace_back(W, f, cur.args[0], strict=True)
        if not src or src[0] != 'call':
            break
        cur = src[1]
        chain.append((last_seg(cur.callee.best) if cur.callee.indirect is None else 'indirect', cur))
    chain.reverse()
    return chain


def closure_return_expr(W, clo):
    from .facts import Place
    return W.ctx(clo).expr_place(Place({'l': 0, 'p': []}))


def find_min_chain(W, f):
    """the Iterator::min call whose result is (after unwrap_or / unwrap / expect / map) what f returns or assigns"""
    out = []
    for t in f.calls():
        if t.callee.indirect is None and last_seg(t.callee.best) == 'min' and len(t.args) == 1:
            out.append(t)
        # `.fold(i32::MAX, std::cmp::min)` -- the same reduction with the neutral element of min as the seed (any other seed takes part in the minimum)
        if t.callee.indirect is None and last_seg(t.callee.best) == 'fold' and len(t.args) == 3 and (t.args[2].fn_path() or '').endswith('cmp::min') and \
                t.args[1].const_int() in (2147483647, 9223372036854775807, 32767):
            out.append(t)
    return out


def stale_between(W, f, read_block, use_block, ap_string, E):
    """a call or store on some path read_block -> use_block that may write `ap_string` (generic access path rooted at self);
    returns a description of the first one found, or None"""
    cfg = cfg_of(f)
    after = cfg.reachable_after(read_block)
    # blocks that can reach the use
    can = {use_block}
    st = [use_block]
    while st:
        x = st.pop()
        for p2 in cfg.pred[x]:
            if p2 not in can:
                can.add(p2)
                st.append(p2)
    between = (after & can) - {use_block}
    cx = W.ctx(f)
    for w in W.writes():
        if w['fn'] is not f or w['bb'] not in between:
            continue
        if w['kind'] == 'store':
            if w['ap'].s(f, generic=True) == ap_string:
                return 'store at line %d' % w['line']
            continue
        t = w['site']
        for g in W.cg.targets(t.callee):
            from .world import _subst_root
            mapping = {}
            for i, a in enumerate(t.args):
                nm = 'self' if g.local_name(i + 1) == 'self' else 'arg%d' % (i + 1)
                mapping[nm] = cx.ap_carry(a.place).s(f, generic=True) if a.is_place() else None
            for e in E.of(g):
                r = _subst_root(e, mapping)
                if r == ap_string:
                    return short(t.callee.best)
    return None
