"""C03 -- input status is truthful, confirmed inputs are final (structural part)."""
from .lib import *
from .cfg import cfg_of, callee_matches
from .sem import key, dnf_str, Guards
from .facts import Place
from . import c01

LEVEL = 'other'
EXPLANATION = ('Static rule checking: the 7 InputStatus construction sites and what they carry, one cut-off predicate '
               '`disconnected & last_frame < F` in all four sibling implementations, local inputs registered before any '
               'fetch, provenance of local_connect_status[..].last_frame, confirmed_frame() as a min over connected '
               'players. Finality of confirmed inputs over histories is NOT decided.')
NOT_DECIDED = ['once at or below confirmed_frame() a resimulation gets the same values', 'confirmed_frame() never decreases']
ASSUMPTIONS = c01.ASSUMPTIONS

P2P = c01.P2P
SL = c01.SL
IQ = c01.IQ
SP = 'sessions::p2p_spectator_session::SpectatorSession'


def cutoff_form(dnf):
    """recognise  `<S>.disconnected & <S>.last_frame - F <= -1`  (ignoring iteration atoms); returns (S, F) or None"""
    if len(dnf) != 1:
        return None
    conj = [a for a in dnf[0] if not (a[0] == 'is')]
    bools = [a for a in conj if a[0] == 'bool']
    lins = [a for a in conj if a[0] == 'lin']
    if len(bools) != 1 or len(lins) != 1 or len(conj) != 2:
        return None
    b = bools[0]
    if not b[1].endswith('.disconnected') or b[2] is not True:
        return None
    S = b[1][:-len('.disconnected')]
    v = lin_view(lins[0])
    terms, lo, hi = v
    lf = S + '.last_frame'
    if lf not in terms or len(terms) != 2:
        return None
    other = [k for k in terms if k != lf][0]
    c = terms[lf]
    if terms[other] != -c:
        return None
    # c*(lf - F) in [lo, hi]
    if c == 1 and lo is None and hi == -1:
        return S, other
    if c == -1 and hi is None and lo == 1:
        return S, other
    return None


def status_sites(W):
    r = {}
    for v in ('Confirmed', 'Predicted', 'Disconnected'):
        r[v] = W.constructions('InputStatus', v)
    return r


def o1(W, ob):
    st = status_sites(W)
    total = sum(len(x) for x in st.values())
    ob.require_count(total, 7, 'InputStatus construction sites')
    # Predicted: only InputQueue::input
    for f, s in st['Predicted']:
        ob.check(match_path(f.path, IQ + '::input'), 'Predicted|constructor|%s' % short(f.path),
                 'Predicted is produced by InputQueue::input', 'InputStatus::Predicted is constructed in %s' % short(f.path),
                 where(f, s.line))
    f = W.fn(IQ + '::input')
    cx = W.ctx(f)
    G = W.guards(f)
    # what is returned with each status: find the tuple aggregates (value, status)
    tuples = [s for s in f.stmts() if s.k == 'assign' and s.rv.k == 'agg' and s.rv.j.get('ak') == 'tuple' and len(s.rv.ops) == 2
              and s.place.is_local() and s.place.local == 0]
    ob.require_count(len(tuples), 2, 'return tuples of InputQueue::input')
    for s in tuples:
        stat = cx.expr_operand(s.rv.ops[1])
        val = key(cx.expr_operand(s.rv.ops[0]))
        g = G.guard(s.bb)
        if stat[0] == 'variant' and stat[2] == 'Confirmed':
            hit = every_disjunct_has(g, lambda a: a[0] == 'lin' and a[2] == a[3] == 0 and
                                     any(k == 'arg2' for k, _ in a[1]) and any(k.startswith('self.inputs[') and k.endswith('.frame') for k, _ in a[1]))
            inrange = every_disjunct_has(g, lambda a: a[0] == 'lin' and any(k == 'self.length' for k, _ in a[1]) and len(a[1]) == 2)
            nopred = every_disjunct_has(g, lambda a: match_lin(a, [(exact('self.prediction.frame'), 1)], hi=-1))
            ob.check(hit and inrange and nopred and val.startswith('self.inputs[') and val.endswith('.input'),
                     'InputQueue::input|confirmed',
                     'Confirmed carries the stored input of exactly the requested frame, only outside prediction mode',
                     'Confirmed return: frame-equality=%s in-range=%s not-predicting=%s value=%s' % (hit, inrange, nopred, val),
                     where(f, s.line))
        elif stat[0] == 'variant' and stat[2] == 'Predicted':
            ob.check('self.prediction' in val and val.endswith('input'), 'InputQueue::input|predicted-value',
                     'Predicted carries the sticky prediction', 'Predicted return carries `%s`' % val, where(f, s.line))
        else:
            ob.fail('InputQueue::input|status|%s' % key(stat), 'InputQueue::input returns status %s' % key(stat), where(f, s.line))
    # the prediction itself: predictor applied to the newest real input, default when none
    ex, _ = W.writes_to_field('prediction')
    pw = [w for w in ex if w['kind'] == 'store' and 'InputQueue' in (w['fn'].path)]
    for w in pw:
        ob.check(match_path(w['fn'].path, IQ + '::input'), 'prediction|writer|%s' % short(w['fn'].path),
                 'the sticky prediction is (re)built only in InputQueue::input',
                 'InputQueue.prediction is assigned in %s' % short(w['fn'].path), where(w['fn'], w['line']))
    ob.require_count(len(pw), 1, 'assignments of InputQueue.prediction')
    clos = W.closures_of(f)
    pred_calls = [t for c in clos for t in c.calls() if callee_matches(t.callee, 'InputPredictor::predict')]
    ob.check(len(pred_calls) == 1, 'InputQueue::input|predictor', 'the configured predictor is applied',
             'InputQueue::input does not apply InputPredictor::predict exactly once (found %d)' % len(pred_calls), where(f))
    for c in clos:
        for t in c.calls():
            if callee_matches(t.callee, 'InputPredictor::predict'):
                a = key(W.ctx(c).expr_operand(t.args[0]))
                ob.check(a.endswith('.input'), 'InputQueue::input|predictor-arg', 'the predictor sees the previous real input',
                         'predict() is applied to `%s`' % a, where(c, t.line))
    # previous input: None iff requested_frame == 0 or nothing added; else inputs[prev_pos(head)]
    somes = [s for s in f.stmts() if s.k == 'assign' and s.rv.k == 'agg' and s.rv.j.get('ak') == 'adt'
             and s.rv.j['adt'].endswith('Option') and s.rv.j['variant'] == 'Some' and not [m for m in s.macros if not m.startswith('desugar')]]
    okprev = False
    for s in somes:
        v = key(cx.expr_operand(s.rv.ops[0]))
        g = G.guard(s.bb)
        if v == 'self.inputs[InputQueue::prev_pos(self.head)]':
            okprev = every_disjunct_has(g, lambda a: match_lin(a, [(exact('arg2'), 1)], neq=0)) and \
                every_disjunct_has(g, lambda a: match_lin(a, [(exact('self.last_added_frame'), 1)], neq=-1))
    ob.check(okprev, 'InputQueue::input|previous-input',
             'the prediction is based on the newest stored input unless frame 0 is requested or nothing was added',
             'the basis of the prediction is not `inputs[prev_pos(head)]` under `requested != 0 & last_added != NULL`', where(f))
    # Disconnected in synchronized_inputs carries Default::default()
    for fn2, s in st['Disconnected']:
        if match_path(fn2.path, SL + '::synchronized_inputs'):
            # the tuple that uses it
            cx2 = W.ctx(fn2)
            tups = [x for x in fn2.stmts() if x.k == 'assign' and x.rv.k == 'agg' and x.rv.j.get('ak') == 'tuple' and x.bb == s.bb]
            good = False
            for x in tups:
                src = trace_back(W, fn2, x.rv.ops[0])
                if src and src[0] == 'call' and last_seg(src[1].callee.best) == 'default':
                    good = True
            ob.check(good, 'synchronized_inputs|disconnected-default', 'Disconnected carries the default input',
                     'Disconnected in synchronized_inputs does not carry Default::default()', where(fn2, s.line))
    # every construction site lives in a reviewed host
    hosts = {'Confirmed': [IQ + '::input', P2P + '::advance_lockstep_frame', SP + '::inputs_at_frame'],
             'Disconnected': [SL + '::synchronized_inputs', P2P + '::advance_lockstep_frame', SP + '::inputs_at_frame']}
    for v, allowed in hosts.items():
        for fn2, s in st[v]:
            host = fn2.parent if fn2.kind == 'closure' else fn2.path
            ob.check(any(match_path(host, a) for a in allowed), '%s|constructor|%s' % (v, short(host)),
                     '%s constructed in reviewed site %s' % (v, short(host)),
                     'InputStatus::%s is constructed in %s, not a reviewed site' % (v, short(host)), where(fn2, s.line))


def sibling_forms(W, ob, report=True):
    """the cut-off predicate of the four siblings, as (site, S, F) or failures"""
    out = []
    # 1/2: sync layer loops: the block that pushes the blank/default
    for name, marker, F in ((SL + '::synchronized_inputs', 'default', 'self.current_frame'),
                            (SL + '::confirmed_inputs', 'blank_input', 'arg2')):
        f = W.fn(name)
        # the per-player body may be a loop in the function or the closure of a `map` (an iterator chain): look in both
        hosts = [f] + [c for c in W.closures_of(f)]
        bl = [(h, t) for h in hosts for t in h.calls() if last_seg(t.callee.best) == marker]
        ob.require_count(len(bl), 1, 'cut-off branch in %s' % short(f.path))
        for h, t in bl:
            g = W.guards(h).guard(t.bb)
            out.append((h, t.line, g, F))
    # 3: spectator closure: Disconnected construction
    # 4: lockstep debug_assert (debug builds only): the boolean it compares with `frame == NULL`
    for fn2, s in W.constructions('InputStatus', 'Disconnected'):
        host = fn2.parent if fn2.kind == 'closure' else fn2.path
        if match_path(host, SP + '::inputs_at_frame'):
            out.append((fn2, s.line, W.guards(fn2).guard(s.bb), 'arg2'))
    return out


def o2(W, ob):
    forms = sibling_forms(W, ob)
    ob.require_count(len(forms), 3, 'sibling cut-off predicates (sync layer x2, spectator)')
    for f, line, g, F in forms:
        cf = cutoff_form(g)
        ob.check(cf is not None and cf[1] == F, '%s|cutoff-predicate' % short(f.parent or f.path),
                 'cut-off predicate is `disconnected & last_frame < %s`' % F,
                 'the cut-off predicate in %s is `%s`; every sibling must decide `disconnected & last_frame < F` with F = '
                 'the frame being built (%s)' % (short(f.parent or f.path), dnf_str(g)[:300], F), where(f, line))
    # one (input, status) pair per player: in the two sync-layer loops no path through an iteration avoids the push (an `else` that went to the inner of two nested
    # tests leaves a player without a pair, and every later player's pair one index lower)
    for name in (SL + '::synchronized_inputs', SL + '::confirmed_inputs'):
        f = W.fn(name)
        G = W.guards(f)
        cfg = cfg_of(f)
        loops = G.loop_by_header()
        if not loops:
            ob.info('%s has no loop (an iterator chain yields one element per player by construction)' % short(f.path))
        for h, body in loops.items():
            pushes = {t.bb for t in f.calls() if last_seg(t.callee.best) == 'push' and t.bb in body}
            if not pushes:
                continue
            seen, st = set(), [x for x in cfg.succ[h] if x in body and x not in pushes]
            around = False
            while st:
                x = st.pop()
                if x in seen:
                    continue
                seen.add(x)
                for y in cfg.succ[x]:
                    if y == h:
                        around = True
                    elif y in body and y not in pushes and not f.blocks[y].cleanup:
                        st.append(y)
            ob.check(not around, '%s|one-pair-per-player' % short(f.path), 'every iteration of the loop in %s pushes a pair' % short(f.path),
                     'an iteration of the per-player loop in %s can complete without pushing an (input, status) pair: the result is shorter than the number of players and later '
                     'players\' pairs move down' % short(f.path), where(f))
    # the debug assertion in advance_lockstep_frame (only with debug assertions)
    if W.fx.debug_assertions:
        ls = [c for c in W.closures_of(W.fn(P2P + '::advance_lockstep_frame'))]
        found = False
        for c in ls:
            G = W.guards(c)
            cx = W.ctx(c)
            for b in c.blocks:
                if b.cleanup:
                    continue
                for s in b.stmts:
                    if s.k == 'assign' and s.rv.k == 'agg' and s.rv.j.get('ak') == 'tuple' and len(s.rv.ops) == 2 \
                            and any(m in ('debug_assert_eq', 'assert_eq') for m in s.macros):
                        # second operand: the && value
                        e = cx.expr_operand(s.rv.ops[1])
                        if e[0] == 'var':
                            d = G.cond_dnf(e, True)
                            d = dnf_simplify(d)
                            # strip the path condition common to the tuple's block
                            base = G.guard(s.bb)
                            cf = cutoff_form([[a for a in c2 if not any(a in bc for bc in base)] for c2 in d]) if d else None
                            found = True
                            ob.check(cf is not None and cf[1] == 'self.sync_layer.current_frame', 'advance_lockstep_frame|cutoff-assert',
                                     'the lockstep debug assertion states the same cut-off predicate',
                                     'the debug assertion in advance_lockstep_frame states `%s`' % dnf_str(d)[:300],
                                     where(c, s.line))
        ob.check(found, 'advance_lockstep_frame|cutoff-assert-missing', 'lockstep cut-off assertion present',
                 'the debug assertion relating NULL_FRAME inputs to the cut-off predicate was not found', None)
    # status selection in the lockstep closure: Disconnected iff frame == NULL
    for fn2, s in W.constructions('InputStatus', 'Disconnected'):
        host = fn2.parent if fn2.kind == 'closure' else fn2.path
        if match_path(host, P2P + '::advance_lockstep_frame'):
            g = W.guards(fn2).guard(s.bb)
            ok = every_disjunct_has(g, lambda a: match_lin(a, [(exact('arg2.frame'), 1)], eq=-1) or
                                    match_lin(a, [(ends('.frame'), 1)], eq=-1))
            ob.check(ok, 'advance_lockstep_frame|disconnected-iff-null',
                     'lockstep reports Disconnected exactly for the NULL_FRAME inputs of confirmed_inputs',
                     'lockstep Disconnected guard: ' + dnf_str(g)[:200], where(fn2, s.line))


def o3(W, ob):
    ls = W.fn(P2P + '::advance_lockstep_frame')
    must_precede(W, ob, ls, P2P + '::register_local_inputs', SL + '::confirmed_inputs', 'O3', first_mode='direct',
                 what='lockstep: local inputs are registered before the inputs of the frame are fetched')
    rb = W.fn(P2P + '::advance_rollback_frame')
    must_precede(W, ob, rb, P2P + '::register_local_inputs', SL + '::synchronized_inputs', 'O3', first_mode='direct',
                 what='rollback: local inputs are registered before the new-frame fetch')
    # register_local_inputs hands every local handle's pending input to the sync layer
    r = W.fn(P2P + '::register_local_inputs')
    adds = [t for t in r.calls() if callee_matches(t.callee, SL + '::add_local_input')]
    ob.require_count(len(adds), 1, 'add_local_input call in register_local_inputs')
    for t in adds:
        g = W.guard(r, t.bb)
        extra = [a for c in g for a in c if a[0] != 'is']
        ob.check(not extra, 'register_local_inputs|unconditional',
                 'every local handle is registered', 'add_local_input is skipped under ' + dnf_str(g)[:200], where(r, t.line))


def o4(W, ob):
    ex, _ = W.writes_to_field('last_frame')
    sites_ = [w for w in ex if w['kind'] == 'store' and 'local_connect_status' in w['ap'].s()]
    allowed = {P2P + '::register_local_inputs': 'local', P2P + '::set_input_delay': 'fill', P2P + '::handle_event': 'remote'}
    ob.require_count(len(sites_), 3, 'stores to local_connect_status[..].last_frame')
    for w in sites_:
        f = w['fn']
        host = f.parent if f.kind == 'closure' else f.path
        kind = None
        for a, k in allowed.items():
            if match_path(host, a):
                kind = k
        if kind is None:
            ob.fail('last_frame|writer|%s' % short(host), 'local_connect_status[..].last_frame is written in %s' % short(host),
                    where(f, w['line']))
            continue
        cx = W.ctx(f)
        g = W.guard(f, w['bb'])
        v = cx.expr_rvalue(w['site'].rv)
        kv = key(v)
        if kind == 'local':
            ok = 'add_local_input(' in kv
            nn = every_disjunct_has(g, lambda a: match_lin(a, [(has('add_local_input('), 1)], neq=-1))
            ob.check(ok and nn, 'register_local_inputs|last_frame-source',
                     'a local last_frame is the frame the sync layer actually stored the input at (never NULL)',
                     'local last_frame := `%s` under %s' % (kv, dnf_str(g)[:200]), where(f, w['line']))
        elif kind == 'fill':
            ok = kv.endswith('.frame') and ('set_frame_delay' in kv or 'iter' in kv)
            src_ok = False
            for t in f.calls():
                if callee_matches(t.callee, SL + '::set_frame_delay'):
                    src_ok = True
            nn = every_disjunct_has(g, lambda a: a[0] == 'ne' and a[2] == -1 and any(k.endswith('.frame') for k, _ in a[1]))
            ob.check(ok and src_ok and nn, 'set_input_delay|last_frame-source',
                     'a fill last_frame is the frame of a fill returned by the sync layer (never NULL)',
                     'fill last_frame := `%s` under %s' % (kv, dnf_str(g)[:200]), where(f, w['line']))
        else:
            ok = kv == 'arg2.input.frame' or kv.endswith('input.frame') or kv.endswith('.frame')
            seq = every_disjunct_has(g, lambda a: a[0] == 'lin' and a[2] == a[3] and len(a[1]) == 2 and
                                     any('last_frame' in k for k, _ in a[1]) or
                                     (a[0] == 'lin' and a[2] == a[3] == -1 and any('last_frame' in k for k, _ in a[1])))
            notdisc = every_disjunct_has(g, lambda a: a[0] == 'bool' and a[1].endswith('.disconnected') and a[2] is False)
            ob.check(ok and seq and notdisc, 'handle_event|last_frame-source',
                     'a remote last_frame is the frame of the received input, in sequence, for a connected player only',
                     'remote last_frame := `%s`; sequence assertion=%s, connected-only=%s' % (kv, seq, notdisc), where(f, w['line']))
            # pairing with add_remote_input
            cfg = cfg_of(f)
            adds = sites(W, f, SL + '::add_remote_input')
            ob.check(bool(adds) and (w['bb'] in adds or cfg.path_from_avoiding(w['bb'], adds) is None), 'handle_event|store-then-add',
                     'the input is added to the queue on every path that raises last_frame',
                     'last_frame is raised on a path that does not add the input to the queue', where(f, w['line']))
            for ab in adds:
                p = cfg.path_avoiding([ab], [w['bb']])
                ob.check(p is None or w['bb'] == ab, 'handle_event|add-without-store',
                         'every remote input added raises last_frame', 'add_remote_input without raising last_frame',
                         where(f, f.blocks[ab].term.line))
    # confirmed_frame(): min over the entries that are not disconnected
    c = W.fn(P2P + '::confirmed_frame')
    cx = W.ctx(c)
    acc = None
    for l in range(c.argc + 1, len(c.locals)):     # the accumulator, whatever it is called: the local one of whose definitions is a `min`
        dl = cx.full_defs(l)
        if len(dl) >= 2 and any((cx.expr_rvalue(d.rv) if k == 'stmt' else cx.expr_call(d))[0] == 'min' for k, d in dl):
            acc = l
    ds = cx.full_defs(acc) if acc is not None else []
    upd = []
    for k, d in ds:
        e = cx.expr_rvalue(d.rv) if k == 'stmt' else cx.expr_call(d)
        if e[0] == 'min':
            upd.append((d, e))
    ok = False
    for d, e in upd:
        ks = [key(a) for a in e[1]]
        g = W.guard(c, d.bb)
        ok = any(k.endswith('.last_frame') for k in ks) and \
            every_disjunct_has(g, lambda a: a[0] == 'bool' and a[1].endswith('.disconnected') and a[2] is False)
    if not upd:
        # the same reduction written with iterators: status.iter().filter(|c| !c.disconnected).map(|c| c.last_frame).min()
        for t in find_min_chain(W, c):
            ch = iter_chain(W, c, t)
            segs = [x for x, _ in ch]
            srcs = [term for seg, term in ch if seg in ('iter', 'into_iter')]
            src_ok = bool(srcs) and srcs[0].args and srcs[0].args[0].is_place() and 'local_connect_status' in cx.ap_carry(srcs[0].args[0].place).s(c)
            filt = mp = False
            for seg, term in ch:
                if seg in ('filter', 'map', 'filter_map') and len(term.args) > 1:
                    cl = closure_of_operand(W, c, term.args[1])
                    if cl and cl[0] == 'closure':
                        e = closure_return_expr(W, cl[1])
                        k = key(e)
                        if seg == 'filter' and e[0] == 'un' and e[1] == 'Not' and k.endswith('.disconnected)'):
                            filt = True
                        if seg == 'map' and k.endswith('.last_frame'):
                            mp = True
            extra = [x for x in segs if x not in ('iter', 'into_iter', 'filter', 'map', 'min', 'fold', 'copied', 'cloned', 'deref', 'as_slice')]
            if src_ok and filt and mp and not extra:
                ok = True
                upd = [t]
    ob.check(ok and len(upd) == 1, 'confirmed_frame|min-connected', 'confirmed_frame() is the min of last_frame over connected players',
             'confirmed_frame() is not a min over `!disconnected` entries', where(c))


from . import helpers


def _c14_o4(W, ob):
    from . import c14
    c14.o4(W, ob)


BINCODE_TOP = {'serialize', 'serialize_into', 'serialized_size', 'deserialize', 'deserialize_from'}
BINCODE_MOD = {'with_fixint_encoding': ('int', 'fixint'), 'with_varint_encoding': ('int', 'varint'), 'with_big_endian': ('endian', 'big'),
               'with_little_endian': ('endian', 'little'), 'with_native_endian': ('endian', 'native')}


def o15(W, ob):
    """writer and reader of each wire use the same serialisation configuration"""
    groups = {'player inputs (InputBytes)': [], 'messages (UdpNonBlockingSocket)': []}
    n = 0
    for f in W.fns():
        if f.derived:
            continue
        cfgmods = {}
        uses = []
        for t in f.calls():
            p = t.callee.path or t.callee.best or ''
            if not p.startswith('bincode::'):
                continue
            seg = last_seg(p)
            if p.startswith('bincode::Options::') or p.startswith('bincode::config::'):
                if seg in BINCODE_MOD:
                    k, v = BINCODE_MOD[seg]
                    cfgmods[k] = v
                elif seg in BINCODE_TOP:
                    uses.append((t, 'options', seg))
            elif seg in BINCODE_TOP:
                uses.append((t, 'top', seg))
        for t, how, seg in uses:
            n += 1
            if how == 'top':
                cls = ('fixint', 'little')
            else:
                cls = (cfgmods.get('int', 'varint'), cfgmods.get('endian', 'little'))
            direction = 'read' if seg.startswith('deserialize') else 'write'
            host = f.parent if f.kind == 'closure' and f.parent else f.path
            if 'InputBytes' in host:
                groups['player inputs (InputBytes)'].append((f, t, cls, direction, seg))
            elif 'udp_socket' in host:
                groups['messages (UdpNonBlockingSocket)'].append((f, t, cls, direction, seg))
            else:
                ob.fail('bincode|unreviewed-site|%s' % short(host), '%s calls bincode::%s: a serialisation site outside the two reviewed wires (player inputs, messages); '
                        'its counterpart must be checked to use the same configuration' % (short(host), seg), where(f, t.line))
    for g, sites_ in groups.items():
        w = {c for _, _, c, d, _ in sites_ if d == 'write'}
        r = {c for _, _, c, d, _ in sites_ if d == 'read'}
        ok = len(w) == 1 and len(r) == 1 and w == r
        f0, t0 = (sites_[0][0], sites_[0][1]) if sites_ else (None, None)
        bad = next(((f, t) for f, t, c, d, _ in sites_ if d == 'read' and c not in w), (f0, t0))
        ob.check(ok, 'bincode|config|%s' % g.split(' (')[0], '%s: %d site(s), writer and reader agree on %s' % (g, len(sites_), sorted(w)),
                 '%s: the writer serialises with %s but the reader deserialises with %s (integer encoding, byte order): what is read is not what was written'
                 % (g, sorted(w), sorted(r)), where(bad[0], bad[1].line) if bad[0] else None)
    ob.require_count(n, 5, 'bincode serialisation sites')



def o16(W, ob):
    """every field of every wire struct travels: the serde-derived impls of the structs in network::messages write and read as many fields as the structs have"""
    structs = sorted(len(a['variants'][0]['fields']) for p2, a in W.fx.adts.items()
                     if 'network::messages::' in p2 and '::_::' not in p2 and not a.get('is_enum') and a.get('variants') and
                     p2.split('::')[-1] not in ('BytesDebug',))
    ser, de = [], []
    for f in W.fx.fn_list:
        if f.kind == 'closure' or 'promoted' in f.path or 'messages' not in f.path:
            continue
        if f.path.endswith('::serialize'):
            n = len([t for t in f.calls() if 'serialize_field' in (t.callee.best or '')])
            if n or any('serialize_struct' in (t.callee.best or '') for t in f.calls()):
                ser.append(n)
        if f.path.endswith('::visit_seq'):
            n = len([t for t in f.calls() if 'next_element' in (t.callee.best or '')])
            if n:
                de.append(n)
    ser.sort()
    de.sort()
    structs_named = [x for x in structs if x > 0]
    ob.require_count(len(structs_named), 9, 'wire structs in network::messages')
    ob.check(ser == structs_named, 'wire|every-field-serialised', 'the %d wire structs serialise all their fields (%s)' % (len(structs_named), structs_named),
             'the derived Serialize impls of the wire structs write %s fields, the structs have %s: a field is skipped (e.g. #[serde(skip)]) and the receiver rebuilds it as '
             'Default::default()' % (ser, structs_named), None)
    ob.check(de == structs_named, 'wire|every-field-deserialised', 'the wire structs deserialise all their fields',
             'the derived Deserialize impls of the wire structs read %s fields, the structs have %s: a field that travels is ignored (or never expected) by the reader' % (de, structs_named), None)


from . import initial

from . import casts

from . import mustcall

from . import removals

from . import vocab

from . import inventory


def _c17_o2(W, ob):
    from . import c17 as _m
    return _m.o2(W, ob)


OBLIGATIONS = [
    ('C03.O1', 'status constructors', 'Predicted only from InputQueue::input (sticky prediction = predictor(newest real '
     'input) or default); Confirmed carries the stored input behind the frame equality; Disconnected carries the default.', o1),
    ('C03.O2', 'one cut-off predicate in all siblings', 'synchronized_inputs, confirmed_inputs, the spectator lookup and the '
     'lockstep assertion all decide `disconnected & last_frame < F` with F the frame being built.', o2),
    ('C03.O3', 'local inputs are confirmed', 'register_local_inputs precedes every input fetch and registers every local handle.', o3),
    ('C03.O5', 'prediction is reset on every rollback, for every queue (= C01.O2b)', 'see C01.O2b', c01.o2b),
    ('C03.O6', 'every rollback resets the prediction before resimulating (= C01.O2)', 'see C01.O2', c01.o2),
    ('C03.O4', 'last_frame provenance', 'local_connect_status[..].last_frame is stored only from inserted local inputs, '
     'inserted fills, and sequential remote inputs of connected players (paired with add_remote_input); confirmed_frame() '
     'is a min over connected players.', o4),
    ('C03.O17', 'canonical handle order on both ends of the wire (= C17.O2)', 'a Confirmed input belongs to the player it is attributed to: sender ascending, receiver handles sorted; see C17.O2', _c17_o2),
    ('C03.H', 'helpers the rules above rely on', 'the bodies of the helpers named by this property\'s rules compute what the rules assume (prev_pos, add_input, player_input, confirmed_input); see rules/helpers.py', helpers.bundle('prev_pos', 'add_input', 'player_input', 'confirmed_input')),
    ('C03.O14', 'received bytes decode to what was sent (= C14.O4)', 'see C14.O4: the reader of the run-length layer uses the writer\'s table', _c14_o4, {'deps': True}),
    ('C03.O15', 'wire configuration: reader = writer', 'every bincode site of the crate belongs to one of the two wires (player inputs in InputBytes, whole messages in the UDP socket); within a wire the sites that write (serialize, serialize_into, serialized_size) and the sites that read (deserialize) use the same integer encoding and byte order (top-level bincode functions = fixed-width little-endian; an Options chain is read from its with_* calls): a Confirmed input is the bytes the remote serialised.', o15),
    ('C03.O16', 'every field of every wire struct travels', 'the serde-derived Serialize / Deserialize impls of the structs in network::messages write / read exactly as many fields as the structs have (multiset comparison, read from the MIR of the derived impls): a #[serde(skip)] or a default-on-missing field makes an acknowledgement, a frame number or a checksum arrive as Default::default().', o16),
    ('C03.I', 'initial state', 'every constructor gives the fields this property\'s rules interpret (NULL_FRAME = none / nothing yet, 0 = first frame, latches open, typestate start) the value listed in tables/initial_state.json; every field compared with NULL_FRAME anywhere is listed; see rules/initial.py', initial.rule_for('C03')),
    ('C03.C', 'lossy integer casts', 'every sign-changing cast (signed -> unsigned; NULL_FRAME is -1) and every narrowing cast to < 32 bits or from 128 bits in the crate is in range by a dominating guard, by the shape of its operand, or listed with a reason in tables/casts.json; see rules/casts.py', casts.rule),
    ('C03.M', 'must-call floor', 'the calls listed for this property in tables/must_call.json are made on every path from the entry of their function to a normal return (interprocedural must-call): a new early return, fast path or extra condition in front of one of them is reported; see rules/mustcall.py', mustcall.rule_for('C03')),
    ('C03.R', 'how map entries are written', 'every write into a map this property\'s rules rely on has the reviewed class (overwrite: the newest value for a key wins; keep-existing: the first one does) -- a local input submitted again before advancing replaces the pending one; see rules/removals.py, tables/removals.json', removals.rule_for('C03')),
    ('C03.V', 'no unreviewed condition in the pinned helpers', 'for each helper whose body this property\'s rules pin (tables/condition_terms.json), the terms its path conditions are built from (fields, parameters, call results -- no constants, operators or local names) are a subset of the reviewed vocabulary: one more `if` in front of a pinned result (a lock that may time out, "only while an endpoint is running") is reported; see rules/vocab.py', vocab.rule_for('C03')),
    ('C03.S', 'state inventory', 'every field of the structs this property\'s rules read (tables/state.json) is known, and is written only by its reviewed writers (or helpers only they call): a new field is new state across calls -- a cache, a flag, a stored deadline -- that nothing has shown to stay in step; a new writer is a second place that resets, re-arms or moves something; see rules/inventory.py', inventory.state_rule_for('C03')),
    ('C03.K', 'call inventory', 'every reviewed call of a function that writes state (tables/call_edges.json, callers in the structs this property\'s rules read) is still made, directly or through helpers: a call deleted as redundant is reported; likewise the arguments of logging / debug-only macros change no state, no unreviewed call of a state-writing function appears (tables/call_edges_all.json), the types of the locals a loop carries from one iteration to the next (tables/carried.json) and, per function and field, how reads and writes of the field are ordered (tables/orders.json: a snapshot taken before instead of after an update) are as reviewed; see rules/inventory.py', inventory.call_rule_for('C03')),
    ('C03.A', 'expression inventory', 'every arithmetic expression handed to a call or stored in a field, and what every closure given to an iterator adaptor / collection method returns, is one of the reviewed expressions of its function (tables/expressions.json; linear / guard normal forms, no local names): a changed literal, operator, operand order, factor, predicate or sort key is reported; see rules/inventory.py', inventory.expr_rule_for('C03')),
    ('C03.P', 'trait-impl inventory', 'each (type, trait) pair among PartialEq / Eq / Hash / Ord / Clone / Default / From / Deref / InputPredictor is derived or hand-written as listed in tables/impls.json: a derive replaced by a hand-written impl (equality by address only, a hash that ignores a field) changes which map keys collide and which inputs match with every call site unchanged; see rules/inventory.py', inventory.impl_rule),
    ('C03.Z', inventory.CONST_TITLE, inventory.CONST_TEXT, inventory.const_rule_for('C03')),
]
