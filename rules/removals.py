"""Who may remove: every call that takes elements out of a collection field of a session / endpoint is inventoried and must be listed in
tables/removals.json as (function, field, class) with the reason why removing there is right.  Two classes only, so that respelling a removal
does not change its identity: `keyed` -- an element of a map / set is taken out by key (`remove`, `remove_entry`, `take`); `bulk` -- everything else
(prune by predicate, drain, clear, pops at the ends of a queue, positional removal from a sequence).

What this decides: histories that must keep an entry until some later event (the first checksum of a frame, the local checksum that every peer's
report is compared against, the decode reference, unacknowledged inputs) lose entries only where the table says so.  A lookup that is turned into a
removal (`get` -> `remove`) is a new `keyed` site in a function that had none."""
import json
import os

from .lib import *
from .sem import key, last_seg

VERIF = os.path.dirname(os.path.dirname(os.path.abspath(__file__)))
SHRINK = {'remove', 'retain', 'clear', 'drain', 'truncate', 'pop', 'pop_front', 'pop_back', 'take', 'split_off', 'swap_remove', 'remove_entry', 'retain_mut', 'dedup',
          'pop_first', 'pop_last', 'extract_if', 'first_entry', 'last_entry', 'split_first', 'split_last'}
KEYED = {'remove', 'remove_entry', 'take', 'extract_if', 'first_entry', 'last_entry'}
MAPS = ('HashMap<', 'HashSet<', 'BTreeMap<', 'BTreeSet<')


def table():
    with open(os.path.join(VERIF, 'tables', 'removals.json')) as f:
        return json.load(f)['sites']


def sites(W):
    out = []
    for w in W.writes():
        if w['kind'] != 'call' or w['callee'] not in SHRINK:
            continue
        f = w['fn']
        if f.derived:
            continue
        ap = w['ap'].s(f, generic=True)
        if not (ap.startswith('self.') or ap.startswith('arg')):
            continue
        t = w['site']
        recv_ty = t.arg_tys[w.get('argi', 0)] if t.arg_tys else ''
        cls = 'keyed' if (w['callee'] in KEYED and any(m in recv_ty for m in MAPS)) else 'bulk'
        host = f.parent if f.kind == 'closure' and f.parent else f.path
        out.append(dict(fn=f, host=short(host), field=ap, cls=cls, callee=w['callee'], line=w['line']))
    return out


INSERT = {'insert': 'overwrite', 'extend': 'overwrite', 'entry': 'keep-existing', 'try_insert': 'keep-existing', 'get_or_insert_with': 'keep-existing'}


def insert_table():
    with open(os.path.join(VERIF, 'tables', 'removals.json')) as f:
        return json.load(f)['inserts']


def insert_sites(W):
    """writes into map / set fields with their class (overwrite / keep-existing)"""
    out = []
    for w in W.writes():
        if w['kind'] != 'call' or w['callee'] not in INSERT:
            continue
        f = w['fn']
        if f.derived or 'sessions::builder' in f.path:
            continue
        ap = w['ap'].s(f, generic=True)
        if not ap.startswith('self.'):
            continue
        t = w['site']
        recv_ty = t.arg_tys[w.get('argi', 0)] if t.arg_tys else ''
        if not any(m in recv_ty for m in MAPS):
            continue
        host = f.parent if f.kind == 'closure' and f.parent else f.path
        out.append(dict(fn=f, host=short(host), field=ap, cls=INSERT[w['callee']], callee=w['callee'], line=w['line']))
    return out


def _inserts(W, ob, pid):
    tab = insert_table()
    mine = [t for t in tab if pid in t['props']]
    fields = {t['field'] for t in mine}
    listed = {(t['fn'], t['field'], t['cls']): t for t in tab}
    seen = set()
    for s in insert_sites(W):
        if s['field'] not in fields and pid != 'C18':
            continue
        k = (s['host'], s['field'], s['cls'])
        t = listed.get(k)
        if t is not None:
            seen.add(k)
            ob.ok('%s: %s write into `%s` (%s) -- %s' % (s['host'], s['cls'], s['field'], s['callee'], t['why'][:160]), where(s['fn'], s['line']))
        else:
            other = [x for x in listed if x[0] == s['host'] and x[1] == s['field']]
            ob.fail('insert|%s|%s|%s' % k, '%s writes into `%s` with `%s` (%s)%s: which value survives a repeated key is not what the reviewed table (tables/removals.json) says'
                    % (s['host'], s['field'], s['callee'], s['cls'], '; the reviewed site there is `%s`' % other[0][2] if other else ', an unreviewed site'), where(s['fn'], s['line']))
    for t in (tab if pid == 'C18' else mine):
        k = (t['fn'], t['field'], t['cls'])
        if k not in seen:
            ob.fail('insert-missing|%s|%s|%s' % k, 'the reviewed %s write %s / `%s` was not found' % (t['cls'], t['fn'], t['field']), None)


def rule_for(pid):
    def rule(W, ob):
        tab = table()
        mine = [t for t in tab if pid in t['props']]
        fields = {t['field'] for t in mine}
        listed = {(t['fn'], t['field'], t['cls']): t for t in tab}
        seen = set()
        n = 0
        if not mine and pid != 'C18':
            _inserts(W, ob, pid)
            return
        for s in sites(W):
            k = (s['host'], s['field'], s['cls'])
            if s['field'] not in fields and pid != 'C18':
                continue
            n += 1
            t = listed.get(k)
            if t is not None:
                seen.add(k)
                ob.ok('%s: %s removal from `%s` (%s) -- %s' % (s['host'], s['cls'], s['field'], s['callee'], t['why'][:160]), where(s['fn'], s['line']))
            else:
                ob.fail('removal|%s|%s|%s' % k, '%s takes elements out of `%s` (%s, a %s removal) and is not one of the reviewed removal sites of that collection '
                        '(tables/removals.json): entries that later code relies on may be gone' % (s['host'], s['field'], s['callee'], s['cls']), where(s['fn'], s['line']))
        want = [t for t in (tab if pid == 'C18' else mine)]
        for t in want:
            k = (t['fn'], t['field'], t['cls'])
            if k not in seen:
                ob.fail('removal-missing|%s|%s|%s' % k, 'the reviewed removal site %s / `%s` (%s) was not found: the collection is no longer pruned / consumed there '
                        '(or the anchor moved)' % k, None)
        ob.require_count(n, len(want), 'removal sites')
        _inserts(W, ob, pid)
    return rule
