"""Fact model: loads the JSON written by engine/ (ggrs-facts) and offers typed accessors.

Nothing here is a rule.  Paths are normalised by removing generic argument lists, so
`ggrs::sync_layer::SyncLayer::<T>::load_frame` becomes `ggrs::sync_layer::SyncLayer::load_frame`.
"""
import json
import re


def strip_generics(p):
    """Remove `::<...>` and `<...>` generic argument lists (bracket matched), keep `<X as Y>::z` qualifiers."""
    if p is None:
        return None
    out = []
    i = 0
    n = len(p)
    depth = 0
    # a leading '<' is a qualified-self form: keep it but normalise its inside recursively
    if p.startswith('<'):
        # find matching '>'
        d = 0
        for j, ch in enumerate(p):
            if ch == '<':
                d += 1
            elif ch == '>':
                d -= 1
                if d == 0:
                    inner = p[1:j]
                    rest = p[j + 1:]
                    if ' as ' in inner:
                        # split at top-level ' as '
                        dd = 0
                        k = 0
                        idx = -1
                        while k < len(inner):
                            if inner[k] == '<':
                                dd += 1
                            elif inner[k] == '>':
                                dd -= 1
                            elif dd == 0 and inner.startswith(' as ', k):
                                idx = k
                                break
                            k += 1
                        if idx >= 0:
                            a = strip_generics(inner[:idx])
                            b = strip_generics(inner[idx + 4:])
                            return '<' + a + ' as ' + b + '>' + strip_generics_tail(rest)
                    return '<' + strip_generics(inner) + '>' + strip_generics_tail(rest)
        return p
    return strip_generics_tail(p)


def strip_generics_tail(p):
    out = []
    depth = 0
    i = 0
    n = len(p)
    while i < n:
        ch = p[i]
        if ch == '<':
            # drop a preceding '::'
            if depth == 0 and len(out) >= 2 and out[-1] == ':' and out[-2] == ':':
                out.pop()
                out.pop()
            depth += 1
        elif ch == '>':
            if i > 0 and p[i - 1] == '-':  # '->' in fn types
                if depth == 0:
                    out.append(ch)
            else:
                depth -= 1
        elif depth == 0:
            out.append(ch)
        i += 1
    return ''.join(out)


class Place:
    __slots__ = ('local', 'proj')

    def __init__(self, j):
        self.local = j['l']
        self.proj = j['p']

    def is_local(self):
        return not self.proj

    def fields(self):
        return [e['f'] for e in self.proj if isinstance(e, dict) and 'f' in e]

    def last_field(self):
        for e in reversed(self.proj):
            if isinstance(e, dict) and 'f' in e:
                return e
        return None

    def __repr__(self):
        s = '_%d' % self.local
        for e in self.proj:
            if e == 'deref':
                s = '(*%s)' % s
            elif isinstance(e, dict):
                if 'f' in e:
                    s += '.' + e['f']
                elif 'idx' in e:
                    s += '[_%d]' % e['idx']
                elif 'cidx' in e:
                    s += '[%d]' % e['cidx']
                elif 'dc' in e:
                    s = '(%s as %s)' % (s, e['dc'])
                elif 'sub' in e:
                    s += '[%d..%d]' % tuple(e['sub'])
            else:
                s += '.?'
        return s


class Operand:
    __slots__ = ('kind', 'place', 'const')

    def __init__(self, j):
        if 'cp' in j:
            self.kind = 'copy'
            self.place = Place(j['cp'])
            self.const = None
        elif 'mv' in j:
            self.kind = 'move'
            self.place = Place(j['mv'])
            self.const = None
        elif 'c' in j:
            self.kind = 'const'
            self.place = None
            self.const = j['c']
        else:
            self.kind = 'other'
            self.place = None
            self.const = {'d': j.get('other')}

    def is_place(self):
        return self.place is not None

    def const_int(self):
        if self.kind == 'const' and 'val' in self.const:
            return int(self.const['val'])
        return None

    def const_def(self):
        if self.kind == 'const':
            return strip_generics(self.const.get('def'))
        return None

    def fn_path(self):
        if self.kind == 'const' and 'fn' in self.const:
            return strip_generics(self.const['fn'])
        return None

    def __repr__(self):
        if self.place is not None:
            return ('move ' if self.kind == 'move' else '') + repr(self.place)
        c = self.const
        if 'fn' in c:
            return 'fn ' + c['fn']
        if 'def' in c:
            return 'const %s(=%s)' % (c['def'], c.get('val', '?'))
        if 'val' in c:
            return 'const %s_%s' % (c['val'], c.get('ty'))
        return 'const ' + str(c.get('d'))


class Rvalue:
    __slots__ = ('k', 'j', 'a', 'b', 'place', 'ops', 'op')

    def __init__(self, j):
        self.k = j['k']
        self.j = j
        self.a = Operand(j['a']) if 'a' in j else None
        self.b = Operand(j['b']) if 'b' in j else None
        self.place = Place(j['p']) if 'p' in j else None
        self.ops = [Operand(o) for o in j['ops']] if 'ops' in j else None
        self.op = j.get('op')

    def operands(self):
        r = []
        if self.a:
            r.append(self.a)
        if self.b:
            r.append(self.b)
        if self.ops:
            r.extend(self.ops)
        return r

    def __repr__(self):
        k = self.k
        if k == 'use':
            return repr(self.a)
        if k == 'ref':
            return ('&mut ' if self.j['mut'] else '&') + repr(self.place)
        if k == 'bin':
            return '%s(%r, %r)' % (self.op, self.a, self.b)
        if k == 'un':
            return '%s(%r)' % (self.op, self.a)
        if k == 'cast':
            return '%r as %s (%s)' % (self.a, self.j['ty'], self.j['ck'])
        if k == 'discr':
            return 'discriminant(%r)' % self.place
        if k == 'agg':
            ak = self.j['ak']
            if ak == 'adt':
                return '%s::%s{%s}' % (self.j['adt'], self.j['variant'],
                                       ', '.join('%s: %r' % (f, o) for f, o in zip(self.j['fields'], self.ops)))
            if ak == 'closure':
                return 'closure %s[%s]' % (self.j['closure'], ', '.join(map(repr, self.ops)))
            return '%s(%s)' % (ak, ', '.join(map(repr, self.ops)))
        if k == 'repeat':
            return '[%r; %s]' % (self.a, self.j['n'])
        return '%s %s' % (k, self.j.get('d', ''))


class Stmt:
    __slots__ = ('k', 'place', 'rv', 'span', 'bb', 'idx', 'variant')

    def __init__(self, j, bb, idx):
        self.k = j['k']
        self.place = Place(j['place'])
        self.rv = Rvalue(j['rv']) if 'rv' in j else None
        self.variant = j.get('v')
        self.span = j['span']
        self.bb = bb
        self.idx = idx

    @property
    def line(self):
        return self.span['line']

    @property
    def macros(self):
        return self.span['mac']

    def __repr__(self):
        if self.k == 'assign':
            return '%r = %r' % (self.place, self.rv)
        return 'discriminant(%r) = %s' % (self.place, self.variant)


class Callee:
    __slots__ = ('path', 'rpath', 'raw', 'rraw', 'local', 'rlocal', 'crate', 'rcrate', 'trait', 'args', 'indirect', 'rkind')

    def __init__(self, j):
        self.indirect = None
        if 'indirect' in j:
            self.indirect = Operand(j['indirect'])
            self.path = self.rpath = self.raw = self.rraw = None
            self.local = self.rlocal = False
            self.crate = self.rcrate = None
            self.trait = None
            self.args = ''
            self.rkind = None
            return
        self.raw = j['path']
        self.path = strip_generics(j['path'])
        self.rraw = j.get('rpath')
        self.rpath = strip_generics(j['rpath']) if 'rpath' in j else None
        self.local = j['local']
        self.rlocal = j.get('rlocal', self.local if 'rkind' in j else False)
        self.crate = j['crate']
        self.rcrate = j.get('rcrate', j['crate'])
        self.trait = strip_generics(j['trait']) if 'trait' in j else None
        self.args = j['args']
        self.rkind = j.get('rkind')

    @property
    def best(self):
        """the most specific known target: resolved impl method when resolution succeeded"""
        return self.rpath or self.path

    def names(self):
        return [p for p in (self.rpath, self.path) if p]

    def __repr__(self):
        if self.indirect is not None:
            return 'indirect(%r)' % self.indirect
        if self.rpath:
            return '%s [=> %s]' % (self.path, self.rpath)
        return self.path


class Term:
    __slots__ = ('k', 'j', 'span', 'bb', 'callee', 'args', 'arg_tys', 'dest', 'target', 'unwind', 'discr', 'dty',
                 'targets', 'otherwise', 'cond', 'expected', 'msg', 'place')

    def __init__(self, j, bb):
        self.k = j['k']
        self.j = j
        self.span = j['span']
        self.bb = bb
        self.callee = None
        self.args = []
        self.arg_tys = []
        self.dest = None
        self.target = j.get('t')
        self.unwind = j.get('unwind')
        self.discr = None
        self.targets = []
        self.otherwise = None
        self.cond = None
        self.expected = None
        self.msg = None
        self.place = None
        self.dty = None
        if self.k == 'call':
            self.callee = Callee(j['callee'])
            self.args = [Operand(a) for a in j['args']]
            self.arg_tys = j['arg_tys']
            self.dest = Place(j['dest'])
        elif self.k == 'switch':
            self.discr = Operand(j['discr'])
            self.dty = j['dty']
            self.targets = [(int(v), b) for v, b in j['targets']]
            bits = {'i8': 8, 'i16': 16, 'i32': 32, 'i64': 64, 'i128': 128, 'isize': 64}.get(self.dty)
            if bits:     # SwitchInt values are raw bits: `match frame { NULL_FRAME => .. }` on an i32 arrives as 4294967295
                self.targets = [(v - (1 << bits) if v >= (1 << (bits - 1)) else v, b) for v, b in self.targets]
            self.otherwise = j['otherwise']
        elif self.k == 'assert':
            self.cond = Operand(j['cond'])
            self.expected = j['expected']
            self.msg = j['msg']
        elif self.k == 'drop':
            self.place = Place(j['place'])

    @property
    def line(self):
        return self.span['line']

    @property
    def macros(self):
        return self.span['mac']

    def succs(self, with_unwind=False):
        k = self.k
        r = []
        if k in ('goto', 'drop', 'assert'):
            r.append(self.target)
        elif k == 'call':
            if self.target is not None:
                r.append(self.target)
        elif k == 'switch':
            r.extend(b for _, b in self.targets)
            r.append(self.otherwise)
        if with_unwind and self.unwind is not None:
            r.append(self.unwind)
        return r

    def __repr__(self):
        k = self.k
        if k == 'call':
            return '%r = %r(%s) -> bb%s' % (self.dest, self.callee, ', '.join(map(repr, self.args)), self.target)
        if k == 'switch':
            return 'switchInt(%r) -> [%s, otherwise: bb%d]' % (
                self.discr, ', '.join('%d: bb%d' % t for t in self.targets), self.otherwise)
        if k == 'assert':
            return 'assert(%s%r, %s) -> bb%d' % ('' if self.expected else '!', self.cond, self.msg['kind'], self.target)
        if k == 'goto':
            return 'goto -> bb%d' % self.target
        if k == 'drop':
            return 'drop(%r) -> bb%d' % (self.place, self.target)
        return k


class Block:
    __slots__ = ('id', 'cleanup', 'stmts', 'term')

    def __init__(self, j, i):
        self.id = i
        self.cleanup = j['cleanup']
        self.stmts = [Stmt(s, i, k) for k, s in enumerate(j['stmts'])]
        self.term = Term(j['term'], i)


class Fn:
    def __init__(self, j, facts):
        self.facts = facts
        self.raw_path = j['path']
        self.path = strip_generics(j['path'])
        self.kind = j['kind']
        self.span = j['span']
        self.file = j['span']['file']
        self.line = j['span']['line']
        self.is_pub = j.get('pub', False)
        self.parent = strip_generics(j.get('parent'))
        self.direct_parent = strip_generics(j.get('direct_parent'))
        self.upvars = j.get('upvars', [])
        self.self_ty = j.get('self_ty')
        self.impl_trait = strip_generics(j.get('impl_trait'))
        self.argc = j['argc']
        self.locals = j['locals']
        self.names = {}
        self.name_places = []
        for n in j['names']:
            pl = Place(n['place'])
            self.name_places.append((n['name'], pl))
            if pl.is_local():
                self.names[pl.local] = n['name']
        self.blocks = [Block(b, i) for i, b in enumerate(j['blocks'])]
        # bodies generated by #[derive(..)]: the whole body span comes from the derive macro
        self.derived = bool(j['span'].get('mac')) and self.kind in ('fn', 'method', 'closure')
        self._cache = {}

    def local_ty(self, l):
        return self.locals[l]['ty']

    def local_name(self, l):
        return self.names.get(l)

    def calls(self):
        for b in self.blocks:
            if b.cleanup:
                continue
            if b.term.k == 'call':
                yield b.term

    def stmts(self):
        for b in self.blocks:
            if b.cleanup:
                continue
            for s in b.stmts:
                yield s

    def loc(self, line=None):
        return '%s:%d' % (self.file, line if line is not None else self.line)

    def dump(self):
        out = ['fn %s  [%s]' % (self.raw_path, self.loc())]
        for i, l in enumerate(self.locals):
            out.append('  let _%d: %s;%s' % (i, l['ty'], ('  // ' + self.names[i]) if i in self.names else ''))
        for b in self.blocks:
            out.append('  bb%d%s:' % (b.id, ' (cleanup)' if b.cleanup else ''))
            for s in b.stmts:
                out.append('    %r;   // L%d %s' % (s, s.line, ','.join(s.macros)))
            out.append('    %r;   // L%d %s' % (b.term, b.term.line, ','.join(b.term.macros)))
        return '\n'.join(out)

    def __repr__(self):
        return 'Fn(%s)' % self.path


class Facts:
    def __init__(self, path):
        with open(path) as f:
            j = json.load(f)
        self.crate = j['crate']
        self.inlined = []
        if j['crate'] == 'ggrs':
            # extracted helpers (functions that did not exist at review time) are spliced back into their callers: see rules/inline.py
            import os
            from . import inline
            tab = os.path.join(os.path.dirname(os.path.dirname(os.path.abspath(__file__))), 'tables', 'call_edges_all.json')
            with open(tab) as tf:
                reviewed = set(json.load(tf)['functions'])
            self.inlined = inline.inline_new_helpers(j, reviewed)
        self.debug_assertions = j['debug_assertions']
        self.overflow_checks = j['overflow_checks']
        self.features = j['features']
        self.unsafe_code_lint = j['unsafe_code_lint']
        self.adts = {strip_generics(a['path']): a for a in j['adts']}
        self.consts = {strip_generics(c['path']): c for c in j['consts']}
        self.fns = {}
        self.fn_list = []
        for fj in j['fns']:
            f = Fn(fj, self)
            self.fn_list.append(f)
            # closures are unique by raw path ({closure#N}); generic-stripped paths may collide for trait impls on
            # different types -- keep a list
            self.fns.setdefault(f.path, []).append(f)

    def fn(self, path):
        """exactly one function with this (generic-stripped) path, else None"""
        l = self.fns.get(path)
        if not l or len(l) != 1:
            return None
        return l[0]

    def find(self, suffix):
        """all non-const functions whose path ends with the given suffix (on a `::` boundary)"""
        r = []
        for p, l in self.fns.items():
            if p == suffix or p.endswith('::' + suffix):
                r.extend(x for x in l if x.kind != 'const')
        return r

    def closures_of(self, fn):
        return [f for f in self.fn_list if f.kind == 'closure' and f.parent == fn.path]

    def const_val(self, path):
        c = self.consts.get(path)
        if c is None:
            for p, cc in self.consts.items():
                if p.endswith('::' + path):
                    c = cc
                    break
        if c is None or 'val' not in c:
            return None
        return int(c['val'])

    def adt(self, path):
        a = self.adts.get(path)
        if a is None:
            for p, aa in self.adts.items():
                if p.endswith('::' + path):
                    return aa
        return a


if __name__ == '__main__':
    import sys
    fx = Facts(sys.argv[1])
    for pat in sys.argv[2:]:
        for f in fx.fn_list:
            if pat in f.path:
                print(f.dump())
                print()
