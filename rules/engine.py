"""Obligation runner: evaluates the obligations of one property on the facts of /repo's current tree,
writes evidence and violation files, applies the known-findings list, prints the verdict lines."""
import importlib
import json
import os
import sys
import time
import traceback

from .facts import Facts
from .world import World, AnchorMissing
from . import extract as extract_mod

VERIF = os.path.dirname(os.path.dirname(os.path.abspath(__file__)))


class Ob:
    """one obligation being evaluated"""

    def __init__(self, oid, title, rule, level='other'):
        self.id = oid
        self.title = title
        self.rule = rule
        self.instances = []      # dicts: status ok|violated|anchor-missing|info
        self.floor = None
        self.counted = 0

    def ok(self, what, where=None, witness=None):
        self.instances.append(dict(status='ok', what=what, where=where, witness=witness))
        self.counted += 1

    def info(self, what, where=None):
        self.instances.append(dict(status='info', what=what, where=where))

    def fail(self, key, what, where=None, witness=None):
        """key: stable identification of the failing construct (function + instance), NO line numbers"""
        self.instances.append(dict(status='violated', key='%s|%s' % (self.id, key), what=what, where=where,
                                   witness=witness))
        self.counted += 1

    def missing(self, what):
        self.instances.append(dict(status='anchor-missing', key='%s|anchor|%s' % (self.id, what), what=what,
                                   where=None))

    def require_count(self, n, floor, what):
        """fail closed when fewer instances were found than were confirmed by hand"""
        if n < floor:
            self.instances.append(dict(status='violated', key='%s|floor|%s' % (self.id, what),
                                       what='%s: found %d instance(s), the reviewed floor is %d -- the rule would pass '
                                            'vacuously' % (what, n, floor), where=None))

    def check(self, cond, key, what_ok, what_fail, where=None, witness=None):
        if cond:
            self.ok(what_ok, where, witness)
        else:
            self.fail(key, what_fail, where, witness)
        return cond

    @property
    def violations(self):
        return [i for i in self.instances if i['status'] in ('violated', 'anchor-missing')]

    @property
    def status(self):
        if any(i['status'] == 'anchor-missing' for i in self.instances):
            return 'anchor-missing'
        if any(i['status'] == 'violated' for i in self.instances):
            return 'violated'
        return 'holds'


def where(fn, line=None):
    return '%s:%d (%s)' % (fn.file, line if line is not None else fn.line, short(fn.path))


def short(path):
    if path is None:
        return '?'
    segs = path.split('::')
    return '::'.join(segs[-2:]) if not path.startswith('<') else path


def load_world(repo, config, deps=False):
    if deps:
        paths, info = extract_mod.extract(repo, config)
        dpaths, dinfo = extract_mod.extract_deps(repo)
        extra = [Facts(dpaths[c]) for c in extract_mod.DEP_CRATES]
        W = World(Facts(paths['ggrs']), extra)
        W.repo = repo
        return W, info
    paths, info = extract_mod.extract(repo, config)
    W = World(Facts(paths['ggrs']))
    W.repo = repo
    return W, info


def known_findings():
    p = os.path.join(VERIF, 'findings', 'known_findings.json')
    if not os.path.exists(p):
        return {'known': [], 'fixed': []}
    with open(p) as f:
        return json.load(f)


def run_obligations(pid, W, tier, config):
    mod = importlib.import_module('rules.%s' % pid.lower())
    obs = []
    for spec in mod.OBLIGATIONS:
        oid, title, rule, func = spec[:4]
        opts = spec[4] if len(spec) > 4 else {}
        if opts.get('tier') == 'thorough' and tier != 'thorough':
            continue
        if opts.get('configs') and config not in opts['configs']:
            continue
        ob = Ob(oid, title, rule)
        try:
            if opts.get('deps'):
                # this rule also reads the typed MIR of the codec dependencies (writer side of the wire format)
                dpaths, _ = extract_mod.extract_deps(getattr(W, 'repo', '/repo'))
                func(World(W.fx, [Facts(dpaths[c]) for c in extract_mod.DEP_CRATES]), ob)
            else:
                func(W, ob)
        except AnchorMissing as e:
            ob.missing(str(e))
        except Exception as e:  # fail closed, but say what happened
            ob.instances.append(dict(status='anchor-missing', key='%s|error|%s' % (oid, type(e).__name__),
                                     what='rule raised %s: %s' % (type(e).__name__, e),
                                     where=None, witness=traceback.format_exc()[-1500:]))
        _scope_filter(pid, ob)
        obs.append(ob)
    return mod, obs


# Whole-crate inventories (call / expression / vocabulary / state / error-exit / cast / trait-impl / must-call / removal tables) are shared by many properties.
# A finding of such an inventory concerns one function; it is reported under a property only if the property is anchored in that function (tables/scope.json:
# the functions its anchors name, their direct callees, the functions its own semantic rules look up) or if the function's file is one of the property's anchor
# files (properties.jsonl).  Everywhere else it is kept as an informational instance.  (VERIF_SCOPE=fn narrows this to the functions alone: measured in round 12,
# it loses 4 of 216 seeded changes whose authors broke their property through a function only its file anchors.)  Round 12: one benign edit in a checksum helper raised the same
# inventory finding under fourteen properties.
INVENTORY_CLASSES = set('KAVSECPMR')
# Frozen-fragment inventories: the pinned expressions (Cxx.A) and the condition vocabulary of pinned helpers (Cxx.V) compare today's spelling of an expression /
# the set of terms a helper branches on with the reviewed one.  Round 12 (independent behaviour-preserving refactorings) showed them firing on 7 resp. 6 of 18
# refactorings -- a hoisted read, a byte count in a trace line, a condition moved into a helper.  A rule that fires on an edit that leaves behaviour unchanged must not
# raise an alarm: their findings are printed as `REVIEW:` lines and recorded in the evidence, they never produce a VIOLATION line or a non-zero exit.
ADVISORY_CLASSES = set('AV')
_SCOPE = None


def _scope_filter(pid, ob):
    global _SCOPE
    cls = ob.id.split('.')[-1]
    if not (len(cls) == 1 and cls in INVENTORY_CLASSES):
        return
    if cls in ADVISORY_CLASSES:
        for i in ob.instances:
            if i['status'] in ('violated', 'anchor-missing'):
                i['status'] = 'advisory'
        return
    if _SCOPE is None:
        try:
            with open(os.path.join(VERIF, 'tables', 'scope.json')) as f:
                _SCOPE = json.load(f)
        except OSError:
            _SCOPE = {}
    sc = _SCOPE.get('scope')
    if not sc:
        return
    import re
    mine = set(sc.get(pid, []))
    owned = set().union(*[set(v) for v in sc.values()])
    files = set(_SCOPE.get('files', {}).get(pid, []))
    for i in ob.instances:
        if i['status'] != 'violated' or '|floor|' in i.get('key', ''):
            continue
        names = set(re.findall(r'[A-Za-z_][A-Za-z0-9_]*::[A-Za-z_][A-Za-z0-9_]*', i['key']))
        names = {n for n in names if n in _SCOPE.get('fn_file', {})}
        if not names or names & mine:
            continue
        if os.environ.get('VERIF_SCOPE') != 'fn' and any(_SCOPE['fn_file'].get(n) in files for n in names):
            continue
        if not (names & owned) and any(_SCOPE['fn_file'].get(n) in files for n in names):
            continue
        i['status'] = 'info'
        i['what'] = '[outside the functions this property is anchored in; reported under the properties that are] ' + i['what']


def check_property(pid, tier='quick', repo='/repo', write=True, quiet=False, configs=None, kill_matrix=None):
    t0 = time.time()
    seed = int(os.environ.get('VERIF_SEED', '0') or 0)
    if configs is None:
        configs = ['default'] if tier == 'quick' else ['default', 'sync-send', 'release']
    all_obs = []
    infos = {}
    stats = dict(functions=0, blocks=0, call_sites=0)
    mod = None
    for config in configs:
        W, info = load_world(repo, config)
        infos[config] = info
        if config == 'default':
            stats['functions'] = len(W.fns())
            stats['blocks'] = sum(len([b for b in f.blocks if not b.cleanup]) for f in W.fns())
            stats['call_sites'] = sum(1 for f in W.fns() for _ in f.calls())
        mod, obs = run_obligations(pid, W, tier, config)
        for ob in obs:
            all_obs.append((config, ob))
    kf = known_findings()
    known = {k['key']: k for k in kf.get('known', []) if k.get('property') == pid}
    violations = []
    known_hits = []
    seen_keys = set()
    for config, ob in all_obs:
        for v in ob.violations:
            if v['key'] in seen_keys:
                continue
            seen_keys.add(v['key'])
            if v['key'] in known and v['status'] == 'violated':
                known_hits.append((config, ob, v, known[v['key']]))
            else:
                violations.append((config, ob, v))
    n_ob = len({ob.id for _, ob in all_obs})
    held = len({ob.id for _, ob in all_obs}) - len({ob.id for _, ob, _ in violations} | {ob.id for _, ob, _, _ in known_hits})
    # output
    lines = []
    vdir = os.path.join(VERIF, 'evidence', 'violations')
    if write:
        os.makedirs(vdir, exist_ok=True)
        for f in os.listdir(vdir):
            if f.startswith(pid + '-'):
                os.remove(os.path.join(vdir, f))
    for config, ob in all_obs:
        if config == configs[0]:
            for i in ob.instances:
                if i['status'] == 'advisory':
                    lines.append('REVIEW: property=%s %s (advisory, not an alarm): %s' % (pid, ob.id, i['what'][:300]))
    for config, ob, v, k in known_hits:
        lines.append('KNOWN-FINDING: property=%s %s [%s] %s' % (pid, v['key'], k.get('id', ''), v['what']))
    for n, (config, ob, v) in enumerate(violations):
        path = os.path.join(vdir, '%s-%d.json' % (pid, n))
        rec = dict(property=pid, obligation=ob.id, title=ob.title, rule=ob.rule, config=config, status=v['status'],
                   key=v['key'], what=v['what'], where=v.get('where'), witness=v.get('witness'))
        if write:
            with open(path, 'w') as f:
                json.dump(rec, f, indent=1, default=str)
        lines.append('VIOLATION property=%s replay=%s' % (pid, path))
        lines.append('  %s %s: %s%s' % (ob.id, v['status'], v['what'], (' @ ' + v['where']) if v.get('where') else ''))
    wall = round(time.time() - t0, 2)
    if write:
        samples = []
        for config, ob in all_obs:
            if config != configs[0]:
                continue
            inst = [i for i in ob.instances if i['status'] != 'info']
            samples.append(dict(obligation=ob.id, title=ob.title, status=ob.status, rule=ob.rule,
                                instances=len(inst),
                                examples=[dict(status=i['status'], what=i['what'], where=i.get('where'))
                                          for i in inst[:4]]))
        total_instances = sum(len([i for i in ob.instances if i['status'] != 'info']) for _, ob in all_obs)
        ev = dict(
            property_id=pid, tier=tier, seed=seed, level=getattr(mod, 'LEVEL', 'other'),
            coverage=dict(
                explanation=getattr(mod, 'EXPLANATION', ''),
                obligations=n_ob,
                discharged=held,
                known_findings=len(known_hits),
                rule_instances_checked=total_instances,
                configurations=configs,
                functions_analysed=stats['functions'],
                basic_blocks=stats['blocks'],
                call_sites=stats['call_sites'],
                checker_cmd='./check %s --tier %s' % (pid, tier),
                trusted_base=['rustc MIR construction and Instance resolution (nightly 1.97)',
                              'engine/ fact extractor', 'rules/ analyses (cfg, sem, world)',
                              'tables/ reviewed instance tables'],
                not_decided=getattr(mod, 'NOT_DECIDED', []),
                samples=samples,
                advisory_findings=[dict(obligation=ob.id, what=i['what'][:300]) for c, ob in all_obs if c == configs[0] for i in ob.instances if i['status'] == 'advisory'],
                advisory_classes='Cxx.A (pinned expressions) and Cxx.V (condition vocabulary) are advisory: REVIEW lines, never an alarm (DESIGN 9.17)',
                fact_extraction={c: i for c, i in infos.items()},
                **({'kill_matrix': kill_matrix} if kill_matrix is not None else {}),
            ),
            assumptions=getattr(mod, 'ASSUMPTIONS', []),
            wall_s=wall,
            violations=len(violations),
        )
        os.makedirs(os.path.join(VERIF, 'evidence'), exist_ok=True)
        with open(os.path.join(VERIF, 'evidence', '%s.json' % pid), 'w') as f:
            json.dump(ev, f, indent=1, default=str)
    if not quiet:
        print('%s tier=%s configs=%s obligations=%d held=%d known=%d violations=%d wall=%.1fs' % (
            pid, tier, ','.join(configs), n_ob, held, len(known_hits), len(violations), wall))
        for config, ob in all_obs:
            if config == configs[0]:
                n_inst = len([i for i in ob.instances if i['status'] != 'info'])
                print('  %-9s %-14s %3d instance(s)  %s' % (ob.id, ob.status, n_inst, ob.title))
        for l in lines:
            print(l)
    return violations, known_hits, all_obs


def explain(argv):
    """./check explain <violation.json>: print the recorded violation and re-evaluate that obligation on /repo's current tree
    (exit 1 if the same key is still reported, 0 if it is gone)."""
    if not argv or not os.path.exists(argv[0]):
        print('usage: ./check explain evidence/violations/Cxx-n.json')
        return 2
    with open(argv[0]) as f:
        rec = json.load(f)
    print('property   : %s' % rec.get('property'))
    print('obligation : %s -- %s' % (rec.get('obligation'), rec.get('title')))
    print('rule       : %s' % rec.get('rule'))
    print('construct  : %s' % (rec.get('where') or '(see text)'))
    print('key        : %s' % rec.get('key'))
    print('reported   : [%s, config %s] %s' % (rec.get('status'), rec.get('config'), rec.get('what')))
    if rec.get('witness'):
        print('witness    : %s' % json.dumps(rec['witness'], default=str)[:2000])
    pid = rec.get('property')
    violations, known_hits, all_obs = check_property(pid, 'quick', '/repo', write=False, quiet=True)
    again = [(c, ob, v) for c, ob, v in violations if v['key'] == rec.get('key')]
    if again:
        c, ob, v = again[0]
        print('current tree: STILL REPORTED -- %s%s' % (v['what'], (' @ ' + v['where']) if v.get('where') else ''))
        return 1
    print('current tree: this key is not reported any more (%d other violation(s) of %s)' % (len(violations), pid))
    return 0


def main(argv):
    import argparse
    if argv and argv[0] == 'explain':
        return explain(argv[1:])
    ap = argparse.ArgumentParser()
    ap.add_argument('property')
    ap.add_argument('--tier', default=os.environ.get('VERIF_TIER') or 'quick')
    ap.add_argument('--repo', default='/repo')
    ap.add_argument('--no-write', action='store_true')
    ap.add_argument('--verbose', action='store_true')
    a = ap.parse_args(argv)
    if a.property == 'explain':
        return 0
    km = None
    if a.tier == 'thorough' and not a.no_write and a.repo == '/repo':
        # self-test on the tree being judged: mutants of this property must be reported, neutral rewrites must stay quiet
        from . import killmatrix
        km = killmatrix.run(a.property, quiet=True)
    violations, known_hits, all_obs = check_property(a.property, a.tier, a.repo, write=not a.no_write, kill_matrix=km)
    if km is not None:
        print('self-test (kill matrix on scratch copies of the current tree): %s' % km['summary'])
        for r in km['results']:
            if r['status'] in ('missed', 'FALSE-ALARM', 'error'):
                print('  SELFTEST-%s %s %s' % (r['status'], r['id'], r.get('detail', '')[:120]))
    if a.verbose:
        for config, ob in all_obs:
            for i in ob.instances:
                print('    [%s] %s %s: %s %s' % (config, ob.id, i['status'], i['what'], i.get('where') or ''))
    return 1 if violations else 0


if __name__ == '__main__':
    sys.exit(main(sys.argv[1:]))
