"""Must-call floor: the calls listed in tables/must_call.json happen on every path from the entry of their function to a normal return.
The must-call relation is interprocedural (a call counts if the callee, transitively, must make it), so extracting or inlining helpers does not
change it; what changes it is a new early return, fast path or condition in front of the call -- the shape of the "hardening" and "optimisation"
edits that leave every existing statement in place."""
import json
import os

from .lib import *

VERIF = os.path.dirname(os.path.dirname(os.path.abspath(__file__)))


def table():
    with open(os.path.join(VERIF, 'tables', 'must_call.json')) as f:
        return json.load(f)['pairs']


def rule_for(pid):
    def rule(W, ob):
        n = 0
        for e in table():
            if pid not in e['props']:
                continue
            f = W.fn(e['fn'])
            n += 1
            ok = W.cg.fn_must_call(f, e['callee'])
            wit = None
            if not ok and e.get('after_growth_of'):
                # the obligation is about what follows a growth of the named collection: no path from a push to a return avoids the call
                cfg = cfg_of(f)
                marked = [t.bb for t in f.calls() if W.cg.call_must_reach(t, e['callee'])]
                grow = [w['bb'] for w in W.writes_to_field(e['after_growth_of'])[0] if w['fn'] is f and w['kind'] == 'call' and
                        (w.get('callee') or '').split('::')[-1] in ('push_back', 'push', 'push_front', 'insert', 'extend')]
                bad = [b for b in grow if b not in marked and cfg.path_from_avoiding(b, marked) is not None]
                ok = bool(grow) and not bad
                if bad:
                    wit = path_str(f, cfg.path_from_avoiding(bad[0], marked))
            elif not ok:
                cfg = cfg_of(f)
                marked = [t.bb for t in f.calls() if W.cg.call_must_reach(t, e['callee'])]
                p = cfg.path_avoiding(cfg.returns, marked) if cfg.returns else None
                wit = path_str(f, p) if p else None
            ob.check(ok, 'must-call|%s|%s' % (short(f.path), short(e['callee'])), '%s always calls %s' % (short(f.path), short(e['callee'])),
                     '%s can return without calling %s -- %s' % (short(f.path), short(e['callee']), e['why']), where(f), witness=wit)
        ob.require_count(n, 1, 'must-call pairs for %s' % pid)
    return rule
