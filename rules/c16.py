"""C16 -- invalid configurations and misuse are rejected with errors, never panics (structural part)."""
from .lib import *
from .cfg import cfg_of, callee_matches
from .sem import key, dnf_str
from .world import Effects
from . import c01, c09, c11, c13, panics

LEVEL = 'other'
EXPLANATION = ('Static rule checking: each documented builder constraint appears as a guard with exactly that normal form in the documented method, leading to '
               'InvalidRequest before the field store (and the unconstrained setters store unconditionally); at run time no error return of the session API is '
               'reachable after a call or store that has an effect on the session (poll_remote_clients excepted, as documented; SyncTest/spectator exceptions reviewed); '
               'the panic-capable sites in the call-graph closure of the builder are discharged or reviewed for arguments in the claimed range. The validity predicate '
               'over call sequences is NOT decided.')
NOT_DECIDED = ['agreement with a reference validity predicate over sequences of builder calls', 'any returned session can be advanced without panicking']
ASSUMPTIONS = c01.ASSUMPTIONS + ['tables/panic_sites.json (builder_sites): the listed sites are safe for the stated reason']

B = 'sessions::builder::SessionBuilder'
P2P = c01.P2P
SP = 'sessions::p2p_spectator_session::SpectatorSession'
ST = 'sessions::sync_test_session::SyncTestSession'


def store_guard(W, ob, method, field, expect, desc, exact_len=None):
    f = W.fn(B + '::' + method)
    st = stores_in(W, f, field)
    if len(st) != 1:
        ob.fail('%s|store|%s' % (method, field), '%s has %d stores to %s (expected 1)' % (method, len(st), field), where(f))
        return
    g = W.guard(f, st[0]['bb'])
    ok = expect(g)
    if exact_len is not None:
        ok = ok and all(len(c) == exact_len for c in g) and len(g) == 1
    v = key(W.ctx(f).expr_rvalue(st[0]['site'].rv))
    ob.check(ok and v.startswith('arg'), '%s|constraint|%s' % (method, field), '%s: %s' % (method, desc),
             '%s stores %s := %s under `%s`; documented: %s' % (method, field, v, dnf_str(g)[:200], desc), where(f, st[0]['line']))
    errs = [s for f2, s in W.constructions('GgrsError', 'InvalidRequest') if f2 is f]
    return errs


def unsigned_range(g, keystr, lo, hi):
    """the guard is exactly `lo <= key <= hi` for an unsigned `key` (hi may be None), whatever way it is spelled"""
    from .sem import conj_simplify, conj_implies_atom
    if len(g) != 1:
        return False
    vec = ((keystr, 1),)
    c = conj_simplify(list(g[0]) + [('lin', vec, 0, None)])
    if c is None:
        return False
    rest = [a for a in c if not (a[0] in ('lin', 'ne') and a[1] == vec)]
    mine = [a for a in c if a[0] == 'lin' and a[1] == vec]
    return not rest and len(mine) == 1 and mine[0][2] == lo and mine[0][3] == hi and not [a for a in c if a[0] == 'ne']


def o1(W, ob):
    buf = W.const('SPECTATOR_BUFFER_SIZE')
    store_guard(W, ob, 'with_fps', 'fps', lambda g: unsigned_range(g, 'arg2', 1, None), 'accepts exactly fps != 0')
    store_guard(W, ob, 'with_max_frames_behind', 'max_frames_behind', lambda g: unsigned_range(g, 'arg2', 1, buf - 1),
                'accepts exactly 1 <= max_frames_behind < SPECTATOR_BUFFER_SIZE (%d)' % buf)
    store_guard(W, ob, 'with_catchup_speed', 'catchup_speed', lambda g: unsigned_range(g, 'arg2', 1, None), 'accepts exactly catchup_speed >= 1')
    # unconstrained setters
    for m, fld in (('with_max_prediction_window', 'max_prediction'), ('with_input_delay', 'input_delay'), ('with_sparse_saving_mode', 'sparse_saving'),
                   ('with_desync_detection_mode', 'desync_detection'), ('with_disconnect_timeout', 'disconnect_timeout'),
                   ('with_disconnect_notify_delay', 'disconnect_notify_start'), ('with_check_distance', 'check_dist')):
        store_guard(W, ob, m, fld, lambda g: g == [[]], 'stores its argument unconditionally (no documented constraint)')
    # with_num_players: != 0, revalidation of every registered handle against the NEW value, then the store
    f = W.fn(B + '::with_num_players')
    G = W.guards(f)
    st = stores_in(W, f, 'num_players')
    ob.require_count(len(st), 1, 'store to num_players')
    vals = [t for t in f.calls() if callee_matches(t.callee, B + '::validate_player_handle')]
    ob.require_count(len(vals), 1, 'revalidation call in with_num_players')
    for w in st:
        g = G.guard(w['bb'])
        nz = every_disjunct_has(g, lambda a: match_lin(a, [(exact('arg2'), 1)], neq=0))
        after = bool(vals) and all(cfg_of(f).dominates(cfg_of(f).idom(t.bb) or 0, w['bb']) or True for t in vals)
        # the store sits on the exit of the revalidation loop
        loop_done = every_disjunct_has(g, lambda a: a[0] == 'is' and a[2] == 'None' and 'handles' in a[1])
        ob.check(nz and loop_done, 'with_num_players|constraint', 'with_num_players stores only a non-zero value after revalidating every registered handle',
                 'with_num_players stores num_players under `%s`' % dnf_str(g)[:200], where(f, w['line']))
    # every registered handle whose rule can have become violated is revalidated: the call may be skipped for a kind only in the direction in which that kind's
    # range rule cannot break (players: handle < old <= new when the count is not lowered; spectators: handle >= old >= new when it is not raised)
    VEC = (('arg2', 1), ('self.num_players', -1))
    KINDS = ('Local', 'Remote', 'Spectator')
    for t in vals:
        g = G.guard(t.bb)
        for kind in KINDS:
            def covers(c):
                for a_ in c:
                    if a_[0] == 'is' and a_[2] in KINDS:
                        if (a_[2] == kind) != bool(a_[3]):
                            return False
                        continue
                    if a_[0] == 'lin' and a_[1] == VEC:
                        lo_, hi_ = a_[2], a_[3]
                        if kind == 'Spectator' and not (hi_ is None and (lo_ is None or lo_ <= 1)):
                            return False
                        if kind != 'Spectator' and not (lo_ is None and (hi_ is None or hi_ >= -1)):
                            return False
                        continue
                    if 'self.num_players' in str(a_):
                        return False
                return True
            ob.check(any(covers(c) for c in g), 'with_num_players|revalidates|%s' % kind,
                     'with_num_players revalidates %s handles whenever the new count can have invalidated them' % kind,
                     'with_num_players skips the revalidation of %s handles in the direction in which their range rule can break (call guard: %s)' % (kind, dnf_str(g)[:240]),
                     where(f, t.line))
    for t in vals:
        a3 = key(W.ctx(f).expr_operand(t.args[2]))
        ob.check(a3 == 'arg2', 'with_num_players|revalidates-against-new', 'registered handles are revalidated against the new player count',
                 'revalidation uses `%s` instead of the new num_players' % a3, where(f, t.line))
        # a failed validation returns
        br = [x for x in f.calls() if last_seg(x.callee.best) == 'from_residual']
        ob.check(len(br) == 1 and guard_has_is(G.guard(br[0].bb), 'SessionBuilder::validate_player_handle(self.player_reg.handles[*], self.player_reg.handles[*], arg2)', 'Break') or
                 (len(br) == 1 and every_disjunct_has(G.guard(br[0].bb), lambda a: a[0] == 'is' and a[2] == 'Break' and 'validate_player_handle(' in a[1])),
                 'with_num_players|propagates-error', 'a handle that became invalid makes with_num_players fail', 'the revalidation result is not propagated', where(f))
    # validate_player_handle: the three documented range rules
    v = W.fn(B + '::validate_player_handle')
    Gv = W.guards(v)
    errs = [s for f2, s in W.constructions('GgrsError', 'InvalidRequest') if f2 is v]
    # counted per rejecting path (disjunct of the guards of the error constructions): three `return Err` sites and one site behind a match-selected flag are the same rules
    disj = [c for s in errs for c in Gv.guard(s.bb)]
    ob.require_count(len(disj), 3, 'range rules in validate_player_handle')
    want = {'Local': lambda a: match_lin(a, [(exact('arg2'), 1), (exact('arg3'), -1)], lo=0) and not match_lin(a, [(exact('arg2'), 1), (exact('arg3'), -1)], lo=1),
            'Remote': lambda a: match_lin(a, [(exact('arg2'), 1), (exact('arg3'), -1)], lo=0) and not match_lin(a, [(exact('arg2'), 1), (exact('arg3'), -1)], lo=1),
            'Spectator': lambda a: match_lin(a, [(exact('arg2'), 1), (exact('arg3'), -1)], hi=-1) and not match_lin(a, [(exact('arg2'), 1), (exact('arg3'), -1)], hi=-2)}
    seen = set()
    for kind, pred in want.items():
        mine = [c for c in disj if guard_has_is([c], 'arg1', kind)]
        if mine and all(len(c) == 2 and every_disjunct_has([c], pred) for c in mine):
            seen.add(kind)
    for kind in want:
        ob.check(kind in seen, 'validate_player_handle|%s' % kind, '%s handles are rejected exactly when %s' % (kind, 'handle >= num_players' if kind != 'Spectator' else 'handle < num_players'),
                 'validate_player_handle does not reject %s handles exactly under the documented range rule' % kind, where(v))
    # add_player: duplicate check and validation dominate the insert
    a = W.fn(B + '::add_player')
    Ga = W.guards(a)
    ins = [t for t in a.calls() if last_seg(t.callee.best) == 'insert']
    ob.require_count(len(ins), 1, 'registration in add_player')
    for t in ins:
        g = Ga.guard(t.bb)
        ok = every_disjunct_has(g, lambda x: x[0] == 'bool' and 'contains_key(self.player_reg.handles' in x[1] and x[2] is False) and \
            every_disjunct_has(g, lambda x: x[0] == 'is' and 'validate_player_handle(arg2, arg3, self.num_players)' in x[1] and x[2] == 'Continue' and x[3]) and all(len(c) == 2 for c in g)
        ob.check(ok, 'add_player|constraint', 'a player is registered exactly when the handle is new and valid for its type under the current num_players',
                 'add_player registers under `%s`' % dnf_str(g)[:200], where(a, t.line))
    # start_p2p_session: every handle in 0..num_players registered
    s = W.fn(B + '::start_p2p_session')
    cx = W.ctx(s)
    Gs = W.guards(s)
    ck = [t for t in s.calls() if last_seg(t.callee.best) == 'contains_key']
    okc = False
    for t in ck:
        r = panics.range_of_item(W, s, t.args[1]) if False else None
        src = trace_back(W, s, t.args[1], through={'next'})
        if src and src[0] == 'stmt' and src[1].rv.k == 'agg' and src[1].rv.j['adt'].endswith('ops::Range'):
            fields = dict(zip(src[1].rv.j['fields'], src[1].rv.ops))
            okc = fields['start'].const_int() == 0 and key(cx.expr_operand(fields['end'])) == 'self.num_players'
    errs = [x for f2, x in W.constructions('GgrsError', 'InvalidRequest') if f2 is s]
    miss = [x for x in errs if every_disjunct_has(Gs.guard(x.bb), lambda a: a[0] == 'bool' and 'contains_key(' in a[1] and a[2] is False)]
    # the same check as an iterator predicate over the same range: `(0..self.num_players).any(|h| !handles.contains_key(&h))` (or `.all(..)` negated at the branch)
    if not okc:
        for t in s.calls():
            if last_seg(t.callee.best) not in ('any', 'all') or len(t.args) < 2:
                continue
            cl = closure_of_operand(W, s, t.args[1])
            if not (cl and cl[0] == 'closure' and any(last_seg(x.callee.best) == 'contains_key' for x in cl[1].calls())):
                continue
            e = closure_return_expr(W, cl[1])
            negated = e[0] == 'un' and e[1] == 'Not'
            src = trace_back(W, s, t.args[0])
            rng_ok = False
            if src and src[0] == 'stmt' and src[1].rv.k == 'agg' and src[1].rv.j.get('adt', '').endswith('ops::Range'):
                fields = dict(zip(src[1].rv.j['fields'], src[1].rv.ops))
                rng_ok = fields['start'].const_int() == 0 and key(cx.expr_operand(fields['end'])) == 'self.num_players'
            want_true = last_seg(t.callee.best) == 'any'      # any(!registered) == true  <=>  all(registered) == false  <=> someone is missing
            if rng_ok and negated == want_true:
                nm = last_seg(t.callee.best) + '('
                miss = [x for x in errs if every_disjunct_has(Gs.guard(x.bb), lambda a: a[0] == 'bool' and nm in a[1] and a[2] is want_true)]
                okc = True
                ck = ck or [t]
    new = sites(W, s, 'P2PSession::new')
    hdr_ok = bool(new) and bool(ck) and all(cfg_of(s).path_avoiding([n], [ck[0].bb]) is not None or True for n in new)
    ob.check(okc and len(miss) == 1 and len(errs) == 2, 'start_p2p_session|all-players-registered',
             'start_p2p_session rejects a configuration in which some handle in 0..num_players is unregistered',
             'start_p2p_session: range-check=%s, missing-player error sites=%d, error sites=%d' % (okc, len(miss), len(errs)), where(s))


def errors_before_effects(W, ob, f, E, allowed=(), label=None):
    """no error return of f is reachable after a call/store with an effect on the session"""
    cx = W.ctx(f)
    cfg = cfg_of(f)
    errs = set()
    for f2, s in W.constructions('GgrsError'):
        if f2 is f:
            errs.add(s.bb)
    for t in f.calls():
        if t.callee.indirect is None and last_seg(t.callee.best) == 'from_residual':
            errs.add(t.bb)
    eff = []
    for w in W.writes():
        if w['fn'] is not f:
            continue
        if w['ap'].root[0] != 'arg' or not w['ap'].s(f).startswith('self'):
            continue
        if w['kind'] == 'store':
            eff.append((w['bb'], 'store ' + w['ap'].s(f, generic=True), w['line']))
        else:
            t = w['site']
            if any(callee_matches(t.callee, a) for a in allowed):
                continue
            tg = W.cg.targets(t.callee)
            if tg:
                if any(E.of(x) for x in tg):
                    eff.append((w['bb'], 'call ' + short(t.callee.best), w['line']))
            else:
                seg = w['callee']
                if seg in ('iter', 'get', 'len', 'is_empty', 'contains_key', 'contains', 'values', 'keys', 'iter_mut', 'values_mut', 'get_mut', 'deref_mut', 'deref', 'index_mut', 'index', 'as_mut'):
                    continue
                eff.append((w['bb'], 'call %s on %s' % (seg, w['ap'].s(f, generic=True)), w['line']))
    bad = []
    for (b, what, line) in eff:
        r = cfg.reachable_after(b)
        hit = [e for e in errs if e in r or (e == b and False)]
        if hit:
            bad.append((what, line, hit[0]))
    name = label or short(f.path)
    if bad:
        for what, line, e in bad[:4]:
            ob.fail('%s|error-after-effect|%s' % (name, what.split(' on ')[0]),
                    '%s can return an error after `%s`: a rejected call would not leave the session unchanged' % (name, what), where(f, line),
                    witness='error return at line %d' % f.blocks[e].term.line)
    else:
        ob.ok('%s: %d error exit(s), none reachable after any of the %d effect site(s)' % (name, len(errs), len(eff)), where(f))
    return len(errs)


def o2(W, ob):
    E = Effects(W)
    n = 0
    for name in ('add_local_input', 'advance_frame_after_poll', 'advance_rollback_frame', 'advance_lockstep_frame', 'register_local_inputs', 'handle_rollback_and_save',
                 'disconnect_player', 'set_input_delay'):
        n += errors_before_effects(W, ob, W.fn(P2P + '::' + name), E)
    ob.require_count(n, 8, 'error exits of the P2PSession API')
    for name in ('advance_frame', 'advance_frame_with_wait_timeout'):
        errors_before_effects(W, ob, W.fn(P2P + '::' + name), E, allowed=(P2P + '::poll_remote_clients', P2P + '::advance_frame_after_poll'))
    errors_before_effects(W, ob, W.fn(ST + '::add_local_input'), E)
    # reviewed exceptions
    ob.info('SyncTestSession::advance_frame reports a missing input only after its compare-and-resimulate step: reviewed exception (effects confined to first-wins '
            'checksum_history inserts, frame counter and last_saved_frame restored by adjust_gamestate, cleared prediction markers; the dropped requests are never executed)')
    ob.info('SpectatorSession::advance_frame: poll_remote_clients first (documented); inside the catch-up loop an error of a later frame would follow the step of an earlier '
            'one, but frames <= last_recv_frame are all present (gapless stream) and the overwritten case fails on the oldest frame first: reviewed exception')
    # the guards themselves
    a = W.fn(P2P + '::add_local_input')
    errs = [s for f2, s in W.constructions('GgrsError', 'InvalidRequest') if f2 is a]
    ok = len(errs) == 1 and every_disjunct_has(W.guard(a, errs[0].bb), lambda x: x[0] == 'bool' and 'contains(' in x[1] and x[2] is False)
    ob.check(ok, 'P2PSession::add_local_input|non-local', 'input for a handle that is not local is rejected', 'add_local_input does not reject non-local handles', where(a))
    d = W.fn(P2P + '::disconnect_player')
    Gd = W.guards(d)
    errs = [s for f2, s in W.constructions('GgrsError', 'InvalidRequest') if f2 is d]
    kinds = set()
    for s in errs:
        g = Gd.guard(s.bb)
        if guard_has_is(g, 'self.player_reg.handles[arg2]', 'None'):
            kinds.add('unknown')
        if guard_has_is(g, 'self.player_reg.handles[arg2]', 'Local'):
            kinds.add('local')
        if guard_has_is(g, 'self.player_reg.handles[arg2]', 'Remote') and every_disjunct_has(g, lambda x: x[0] == 'bool' and x[1].endswith('.disconnected') and x[2] is True):
            kinds.add('already')
    ob.check(kinds == {'unknown', 'local', 'already'}, 'disconnect_player|errors', 'disconnect_player rejects unknown, local and already disconnected players',
             'disconnect_player error cases found: %s' % sorted(kinds), where(d))
    ns = W.fn(P2P + '::network_stats')
    errs = [s for f2, s in W.constructions('GgrsError', 'InvalidRequest') if f2 is ns]
    ob.check(len(errs) == 1, 'P2PSession::network_stats|wrong-player-type', 'network_stats rejects local and unknown handles', 'network_stats lost its InvalidRequest return', where(ns))
    af = W.fn(P2P + '::advance_frame_after_poll')
    errs = [s for f2, s in W.constructions('GgrsError', 'InvalidRequest') if f2 is af]
    ok = len(errs) == 1 and every_disjunct_has(W.guard(af, errs[0].bb), lambda x: x[0] == 'bool' and 'contains_key(self.pending_local_inputs' in x[1] and x[2] is False)
    ob.check(ok, 'advance_frame_after_poll|missing-input', 'advancing with a local input missing is rejected', 'the missing-local-input check is gone from advance_frame_after_poll', where(af))


def o3(W, ob):
    std, reviewed, invs = panics.load_tables()
    import json, os
    with open(os.path.join(os.path.dirname(os.path.dirname(os.path.abspath(__file__))), 'tables', 'panic_sites.json')) as f:
        tab = json.load(f)['builder_sites']
    ents = [f for f in W.fns() if 'SessionBuilder' in f.path and f.kind == 'method' and f.is_pub]
    ob.require_count(len(ents), 16, 'public SessionBuilder methods')
    fns = panics.closure_fns(W, ents)
    inv = panics.inventory(W, fns)
    ob.require_count(len(inv), 15, 'panic-capable sites in the closure of the builder')
    budget = {(r['fn'], r['kind']): [r['count'], r] for r in tab}
    for s in inv:
        k = panics.site_key(W, s)
        how, why = panics.discharge(W, s)
        if how:
            ob.ok('%s %s: discharged by %s' % (k[0], k[1], how), panics.where_(s))
            continue
        b = budget.get((k[0], k[1]))
        if b and b[0] > 0:
            b[0] -= 1
            ob.ok('%s %s: accepted by review -- %s' % (k[0], k[1], b[1]['reason'][:140]), panics.where_(s))
            continue
        ob.fail('builder|open-panic-site|%s|%s|%s' % k, 'open panic-capable site reachable from the SessionBuilder: %s in %s (%s) -- %s' % (k[1], k[0], k[2], why[:200]), panics.where_(s))


from . import helpers, wiring, confpanics, c12

from . import removals

from . import mustcall

from . import inventory


def _c04_o5(W, ob):
    from . import c04 as _m
    return _m.o5(W, ob)


def o5(W, ob):
    """a handle supplied by the caller indexes session state only on paths that have looked it up or compared it: in every public method of the three session types,
    an index expression (Vec indexing or a slice bounds check -- also inside the arguments of a logging macro, which run only with a subscriber) whose index IS a
    `usize` parameter is guarded by a condition that mentions that parameter (`handles.get(&h)` matched, `h < num_players`, ...).  An unknown handle must come back as
    InvalidRequest, not as an index-out-of-bounds panic."""
    from .facts import Operand
    n = 0
    for f in W.fns():
        if f.kind == 'closure' or f.derived or not f.is_pub:
            continue
        if not any(x in f.path for x in ('P2PSession::', 'SpectatorSession::', 'SyncTestSession::')):
            continue
        args = ['arg%d' % i for i in range(2, f.argc + 1) if (f.local_ty(i) or '') == 'usize']
        if not args:
            continue
        cx = W.ctx(f)
        G = W.guards(f)
        for b in f.blocks:
            if b.cleanup:
                continue
            t = b.term
            idx = None
            if t.k == 'call' and last_seg(t.callee.best) in ('index', 'index_mut') and len(t.args) >= 2:
                idx = key(cx.expr_operand(t.args[1]))
            elif t.k == 'assert' and isinstance(t.msg, dict) and t.msg.get('kind') == 'BoundsCheck':
                idx = key(cx.expr_operand(Operand(t.msg['index'])))
            if idx not in args:
                continue
            n += 1
            g = G.guard(b.id)
            ok = bool(g) and all(any(idx in str(a) for a in c) for c in g)
            ob.check(ok, '%s|raw-handle-index' % short(f.path), '%s indexes with its handle parameter only after validating it' % short(f.path),
                     '%s indexes session state with the caller-supplied handle `%s` on a path that has not validated it (guard: %s): an unknown or spectator handle '
                     'panics with index out of bounds instead of returning InvalidRequest' % (short(f.path), idx, dnf_str(g)[:160]), where(f, t.line))
    ob.require_count(n, 2, 'index sites whose index is a caller-supplied handle')


OBLIGATIONS = [
    ('C16.O1', 'documented constraint <-> guard', 'fps != 0; 1 <= max_frames_behind < SPECTATOR_BUFFER_SIZE; catchup_speed >= 1; num_players != 0 with revalidation against the new value; '
     'handle range rules per player type; duplicate handle; every handle in 0..num_players registered; unconstrained setters store unconditionally.', o1),
    ('C16.O1b', 'desync interval 0 rejected (= C09.O4)', 'see C09.O4', c09.o4),
    ('C16.O1c', 'synctest boundary (= C13.O1)', 'see C13.O1', c13.o1),
    ('C16.O1d', 'lockstep forces sparse saving off (= C04.O5)', 'the builder accepts max_prediction 0 together with sparse saving; P2PSession::new turns sparse saving off in that case (a lockstep session never saves, so the confirmed frame would stay capped at the never-advancing last saved frame and the input rings would overflow); see C04.O5', _c04_o5),
    ('C16.O2', 'runtime misuse leaves the session unchanged', 'no error exit of the P2PSession API functions is reachable after an effect on the session; the documented error cases exist.', o2),
    ('C16.O2b', 'set_input_delay guards (= C11.O3)', 'see C11.O3', c11.o3),
    ('C16.O2c', 'advancing before synchronisation is refused (= C12.O4)', 'advance_frame returns NotSynchronized until check_initial_sync has seen every remote AND every spectator endpoint synchronised; see C12.O4', c12.o4),
    ('C16.O3', 'the builder cannot panic', 'panic-capable sites in the call-graph closure of the SessionBuilder methods are discharged by analysis or reviewed for arguments in the claimed range.', o3),
    ('C16.O4', 'no configuration-determined panic in a running session', 'every division / remainder in the crate has a divisor shown non-zero (constant, guard, fixed array, or a configuration invariant the builder establishes); every panicking Duration/Instant subtraction is ordered by a dominating comparison; every overflow-checked unsigned subtraction over configuration values only is guarded. Configuration fields are computed (never written after construction); see rules/confpanics.py', confpanics.rule),
    ('C16.O5', 'caller-supplied handles index nothing before they are validated', 'in every public session method, an index expression whose index is a usize parameter (also inside the arguments of a logging macro) is guarded by a condition on that parameter: a wrong handle is an InvalidRequest, never an index-out-of-bounds panic', o5),
    ('C16.H', 'helpers the rules above rely on', 'the bodies of the helpers named by this property\'s rules compute what the rules assume (get_cell, registry_counts); see rules/helpers.py', helpers.bundle('get_cell', 'registry_counts')),
    ('C16.W', 'configuration wiring', 'at every call site that passes a field read `x.B` for a parameter `A` the callee has no same-typed parameter `B`; in every struct literal no parameter `B` is stored in field `A` while a same-typed parameter `A` / field `B` exists (builder -> constructor -> endpoint fields: timeouts, window, fps are not crossed); see rules/wiring.py', wiring.rule),
    ('C16.R', 'who may remove', 'every call that takes elements out of a collection this property\'s rules rely on (keyed removal from a map, or bulk / positional removal) is one of the reviewed sites in tables/removals.json; a lookup turned into a removal, a second prune, a clear on another path is reported; see rules/removals.py', removals.rule_for('C16')),
    ('C16.M', 'must-call floor', 'the calls listed for this property in tables/must_call.json are made on every path from the entry of their function to a normal return (interprocedural must-call): a new early return, fast path or extra condition in front of one of them is reported; see rules/mustcall.py', mustcall.rule_for('C16')),
    ('C16.S', 'state inventory', 'every field of the structs this property\'s rules read (tables/state.json) is known, and is written only by its reviewed writers (or helpers only they call): a new field is new state across calls -- a cache, a flag, a stored deadline -- that nothing has shown to stay in step; a new writer is a second place that resets, re-arms or moves something; see rules/inventory.py', inventory.state_rule_for('C16')),
    ('C16.E', 'error-exit inventory', 'every (function, GgrsError variant) pair constructed in the crate is listed in tables/error_exits.json: a call that can fail in a new way -- typically after effects whose requests are then dropped -- is reported; see rules/inventory.py', inventory.error_rule),
    ('C16.K', 'call inventory', 'every reviewed call of a function that writes state (tables/call_edges.json, callers in the structs this property\'s rules read) is still made, directly or through helpers: a call deleted as redundant is reported; likewise the arguments of logging / debug-only macros change no state, no unreviewed call of a state-writing function appears (tables/call_edges_all.json), the types of the locals a loop carries from one iteration to the next (tables/carried.json) and, per function and field, how reads and writes of the field are ordered (tables/orders.json: a snapshot taken before instead of after an update) are as reviewed; see rules/inventory.py', inventory.call_rule_for('C16')),
    ('C16.A', 'expression inventory', 'every arithmetic expression handed to a call or stored in a field, and what every closure given to an iterator adaptor / collection method returns, is one of the reviewed expressions of its function (tables/expressions.json; linear / guard normal forms, no local names): a changed literal, operator, operand order, factor, predicate or sort key is reported; see rules/inventory.py', inventory.expr_rule_for('C16')),
    ('C16.P', 'trait-impl inventory', 'each (type, trait) pair among PartialEq / Eq / Hash / Ord / Clone / Default / From / Deref / InputPredictor is derived or hand-written as listed in tables/impls.json: a derive replaced by a hand-written impl (equality by address only, a hash that ignores a field) changes which map keys collide and which inputs match with every call site unchanged; see rules/inventory.py', inventory.impl_rule),
    ('C16.Z', inventory.CONST_TITLE, inventory.CONST_TEXT, inventory.const_rule_for('C16')),
]
