"""Liveness of MIR locals and loop-carried state.

A local is *carried* by a loop when its value at the loop header may be used before being overwritten (live-in at the header) and some
block of the loop body assigns it: its value in one iteration depends on the previous one.  Used by the record-local-state rule of the
codec (C14.O5): when a loop decodes one record per iteration, whatever survives from one record to the next is state shared between records."""
from .cfg import cfg_of


def _place_uses(pl, out):
    for e in pl.proj:
        if isinstance(e, dict) and 'idx' in e:
            out.add(e['idx'])


def _operand_uses(op, out):
    if op is not None and op.is_place():
        out.add(op.place.local)
        _place_uses(op.place, out)


def block_use_def(b):
    """(locals read before any full assignment in the block, locals fully assigned in the block)"""
    use, kill = set(), set()

    def u(l):
        if l not in kill:
            use.add(l)
    for s in b.stmts:
        if s.k == 'assign':
            tmp = set()
            rv = s.rv
            for op in rv.operands():
                _operand_uses(op, tmp)
            if rv.place is not None:
                tmp.add(rv.place.local)
                _place_uses(rv.place, tmp)
            if s.place.proj:
                tmp.add(s.place.local)      # a partial write keeps the rest of the value
                _place_uses(s.place, tmp)
            for l in tmp:
                u(l)
            if not s.place.proj:
                kill.add(s.place.local)
        elif s.k == 'setdiscr':
            u(s.place.local)
    t = b.term
    tmp = set()
    if t.k == 'call':
        for a in t.args:
            _operand_uses(a, tmp)
        if t.dest.proj:
            tmp.add(t.dest.local)
            _place_uses(t.dest, tmp)
    elif t.k == 'switch':
        _operand_uses(t.discr, tmp)
    elif t.k == 'assert':
        _operand_uses(t.cond, tmp)
    for l in tmp:
        u(l)
    if t.k == 'call' and not t.dest.proj:
        kill.add(t.dest.local)
    if t.k == 'return':
        u(0)
    return use, kill


def assigned_in(b):
    """locals written in the block in any way: full or partial assignment, call destination, mutable borrow"""
    w = set()
    for s in b.stmts:
        if s.k in ('assign', 'setdiscr'):
            w.add(s.place.local)
            if s.k == 'assign' and s.rv.k == 'ref' and s.rv.j.get('mut') and s.rv.place is not None:
                w.add(s.rv.place.local)
    if b.term.k == 'call':
        w.add(b.term.dest.local)
    return w


def live_in(fn):
    cfg = cfg_of(fn)
    ud = {b.id: block_use_def(b) for b in fn.blocks if not b.cleanup and b.id in cfg.reach}
    live = {b: set() for b in ud}
    changed = True
    while changed:
        changed = False
        for b in ud:
            out = set()
            for s in cfg.succ[b]:
                if s in live:
                    out |= live[s]
            use, kill = ud[b]
            n = use | (out - kill)
            if n != live[b]:
                live[b] = n
                changed = True
    return live


def carried(fn, header, body):
    """locals whose value flows from one iteration of the loop (header, body) to the next"""
    lv = live_in(fn)
    w = set()
    for b in body:
        blk = fn.blocks[b]
        if not blk.cleanup:
            w |= assigned_in(blk)
    return sorted(l for l in lv.get(header, ()) if l in w)


CMP_OPS = {'Eq', 'Ne', 'Lt', 'Le', 'Gt', 'Ge'}


def control_only(fn, local):
    """does the value of `local` influence anything but branch conditions and its own next value?  Forward propagation through assignments; the
    result of a comparison is control, not data.  Returns (True, None) or (False, description of the first data use)."""
    cfg = cfg_of(fn)
    taint = {local}
    changed = True
    blocks = [b for b in fn.blocks if not b.cleanup and b.id in cfg.reach]

    def reads(s):
        r = set()
        for op in s.rv.operands():
            _operand_uses(op, r)
        if s.rv.place is not None:
            r.add(s.rv.place.local)
            _place_uses(s.rv.place, r)
        return r
    while changed:
        changed = False
        for b in blocks:
            for s in b.stmts:
                if s.k != 'assign' or not (reads(s) & taint):
                    continue
                if s.rv.k == 'bin' and s.rv.op in CMP_OPS:
                    continue
                if s.place.local not in taint and not s.place.proj:
                    taint.add(s.place.local)
                    changed = True
    for b in blocks:
        for s in b.stmts:
            if s.k != 'assign':
                continue
            idx = set()
            _place_uses(s.place, idx)
            if s.rv.place is not None:
                _place_uses(s.rv.place, idx)
            if idx & taint:
                return False, 'used as an index at line %d' % s.line
            if s.place.proj and (reads(s) & taint) and not (s.rv.k == 'bin' and s.rv.op in CMP_OPS):
                return False, 'stored into a structure at line %d' % s.line
            if not s.place.proj and s.place.local == 0 and (reads(s) & taint):
                return False, 'returned (line %d)' % s.line
        t = b.term
        if t.k == 'call':
            u = set()
            for a in t.args:
                _operand_uses(a, u)
            if u & taint:
                seg = (t.callee.best or '?').split('::')[-1] if t.callee.indirect is None else 'indirect call'
                if seg in ('eq', 'ne', 'lt', 'le', 'gt', 'ge', 'cmp', 'partial_cmp'):
                    continue
                return False, 'passed to `%s` at line %d' % (seg, t.line)
    return True, None
