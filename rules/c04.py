"""C04 -- speculation bounded by the prediction window; lockstep never speculates (structural part)."""
from .lib import *
from .cfg import cfg_of, callee_matches
from .sem import key, dnf_str
from . import c01, c03

LEVEL = 'other'
EXPLANATION = ('Static rule checking: the frames-ahead gate (as an implication, both on the NULL and non-NULL path), the '
               'lockstep gate, no save/load call reachable without `max_prediction != 0`, no prediction reachable from the '
               'lockstep path, sparse saving forced off in lockstep. The load-window invariant is NOT decided.')
NOT_DECIDED = ['never asks to load more than max_prediction frames behind (run-time assertion of load_frame; inductive '
               'invariant over calls)']
ASSUMPTIONS = c01.ASSUMPTIONS

P2P = c01.P2P
SL = c01.SL
IQ = c01.IQ
CUR = 'self.sync_layer.current_frame'
LCF = 'self.sync_layer.last_confirmed_frame'
MP = 'self.max_prediction'


def gate_ok(conj):
    null_path = any(match_lin(a, [(exact(LCF), 1)], eq=-1) for a in conj)
    if null_path:
        return any(match_lin(a, [(exact(CUR), 1), (exact(MP), -1)], hi=-1) for a in conj)
    return any(match_lin(a, [(exact(CUR), 1), (exact(LCF), -1), (exact(MP), -1)], hi=-1) for a in conj)


def o1(W, ob):
    f = W.fn(P2P + '::advance_rollback_frame')
    G = W.guards(f)
    steps = sites(W, f, SL + '::advance_frame') + sites(W, f, SL + '::synchronized_inputs')
    ob.require_count(len(steps), 2, 'new-frame fetch and step in advance_rollback_frame')
    for b in steps:
        g = G.guard(b)
        ok = bool(g) and all(gate_ok(c) for c in g)
        ob.check(ok, 'advance_rollback_frame|gate',
                 'a new frame is simulated only while current - last_confirmed < max_prediction (current < max_prediction '
                 'before anything is confirmed)',
                 'the guard of the new-frame step does not imply `frames ahead < max_prediction`: ' + dnf_str(g)[:500],
                 where(f, f.blocks[b].term.line))
    # the AdvanceFrame request of this function sits behind the same gate
    for fn2, s in W.constructions('GgrsRequest', 'AdvanceFrame'):
        if fn2 is f:
            g = G.guard(s.bb)
            ob.check(bool(g) and all(gate_ok(c) for c in g), 'advance_rollback_frame|gate-request',
                     'the AdvanceFrame request sits behind the gate', 'AdvanceFrame is built outside the gate: ' + dnf_str(g)[:300],
                     where(f, s.line))


def o2(W, ob):
    f = W.fn(P2P + '::advance_lockstep_frame')
    G = W.guards(f)
    steps = sites(W, f, SL + '::advance_frame')
    ob.require_count(len(steps), 1, 'frame step in advance_lockstep_frame')
    cons = [s for fn2, s in W.constructions('GgrsRequest', 'AdvanceFrame') if fn2 is f]
    blocks = steps + [s.bb for s in cons] + sites(W, f, SL + '::confirmed_inputs')

    def confirmed(a):
        return match_lin(a, [(has('confirmed_frame('), 1), (exact(CUR), -1)], lo=0)
    for b in blocks:
        g = G.guard(b)
        ob.check(every_disjunct_has(g, confirmed), 'advance_lockstep_frame|gate',
                 'lockstep steps only when every connected player\'s input for the current frame is there',
                 'lockstep step is not guarded by `confirmed_frame() >= current_frame`: ' + dnf_str(g)[:300],
                 where(f, f.blocks[b].term.line))


def reaches_save_load(W, t):
    return W.cg.call_may_reach(t, SL + '::save_current_state') or W.cg.call_may_reach(t, SL + '::load_frame')


def o3(W, ob):
    memo = {}
    guarded_sites = []

    def rollback_only(a):
        return match_lin(a, [(exact(MP), 1)], neq=0) or match_lin(a, [(exact(MP), 1)], lo=1)

    def safe(f, stack=()):
        if f in memo:
            return memo[f]
        if f in stack:
            return True
        bad = []
        G = W.guards(f)
        for t in f.calls():
            if not reaches_save_load(W, t):
                continue
            g = G.guard(t.bb)
            if every_disjunct_has(g, rollback_only):
                guarded_sites.append((f, t))
                continue
            tg = W.cg.targets(t.callee)
            if tg and all(match_path(x.path, P2P + '::' + x.path.rsplit('::', 1)[-1]) for x in tg) and \
                    all(safe(x, stack + (f,)) == [] for x in tg):
                continue
            bad.append((f, t, g))
        memo[f] = bad
        return bad
    entries = [f for f in W.fns() if f.kind == 'method' and f.is_pub and match_path(f.path, P2P + '::' + f.path.rsplit('::', 1)[-1])]
    ob.require_count(len(entries), 15, 'public P2PSession methods')
    allbad = []
    for e in entries:
        for (f, t, g) in safe(e):
            if (f, t) not in [(x, y) for x, y, _ in allbad]:
                allbad.append((f, t, g))
    for f, t, g in allbad:
        ob.fail('%s|save-load-reachable|%s' % (short(f.path), last_seg(t.callee.best)),
                'a SaveGameState/LoadGameState request is reachable in lockstep mode: the call to %s in %s is not '
                'guarded by `max_prediction != 0` (guard: %s)' % (short(t.callee.best), short(f.path), dnf_str(g)[:200]),
                where(f, t.line))
    uniq = {(f.path, last_seg(t.callee.best)) for f, t in guarded_sites}
    for f, t in guarded_sites:
        ob.ok('save/load-reaching call to %s is behind `max_prediction != 0`' % last_seg(t.callee.best), where(f, t.line))
    # zero-count rule: the reviewed positive examples must be found on every run
    ob.require_count(len(uniq), 2, 'guarded save/load-reaching call sites (frame-0 save, advance_rollback_frame)')


def o4(W, ob):
    f = W.fn(P2P + '::advance_lockstep_frame')
    chain = W.cg.may_reach(f, lambda c: callee_matches(c, IQ + '::input'))
    ob.check(chain is None, 'advance_lockstep_frame|prediction-reachable',
             'InputQueue::input (the only producer of Predicted) is not reachable from the lockstep path',
             'InputQueue::input is reachable from advance_lockstep_frame: ' +
             (' -> '.join(short(getattr(x, 'path', None) or (x.callee.best if hasattr(x, 'callee') else '?')) for x in chain) if chain else ''),
             where(f))
    # positive example for this zero-count rule: the rollback path does reach it
    rb = W.fn(P2P + '::advance_rollback_frame')
    ob.check(W.cg.may_reach(rb, lambda c: callee_matches(c, IQ + '::input')) is not None,
             'selfcheck|prediction-reachable-from-rollback', 'positive example: the rollback path reaches InputQueue::input',
             'self-check failed: the reachability analysis no longer finds InputQueue::input from advance_rollback_frame', where(rb))
    for fn2, s in W.constructions('InputStatus', 'Predicted'):
        host = fn2.parent if fn2.kind == 'closure' else fn2.path
        ob.check(not match_path(host, P2P + '::advance_lockstep_frame'), 'advance_lockstep_frame|predicted-constructed',
                 'no Predicted status is constructed on the lockstep path', 'Predicted is constructed in the lockstep path',
                 where(fn2, s.line))
    st = [(fn2, s) for v in ('Confirmed', 'Disconnected') for fn2, s in W.constructions('InputStatus', v)
          if match_path(fn2.parent or '', P2P + '::advance_lockstep_frame')]
    ob.require_count(len(st), 2, 'statuses constructed on the lockstep path')
    # the lockstep path takes its inputs from confirmed_inputs (which panics rather than predicts)
    for fn2, s in W.constructions('GgrsRequest', 'AdvanceFrame'):
        if fn2 is f:
            src = trace_back(W, f, s.rv.ops[0])
            ob.check(bool(src) and src[0] == 'call' and callee_matches(src[1].callee, SL + '::confirmed_inputs'),
                     'advance_lockstep_frame|inputs-source', 'lockstep inputs come from confirmed_inputs',
                     'lockstep AdvanceFrame inputs do not come from SyncLayer::confirmed_inputs', where(f, s.line))


def o5(W, ob):
    f = W.fn(P2P + '::new')
    cons = [(fn2, s) for fn2, s in W.constructions('P2PSession') if fn2 is f]
    ob.require_count(len(cons), 1, 'P2PSession constructor aggregate')
    G = W.guards(f)
    cx = W.ctx(f)
    mp = None
    for fn2, s in cons:
        fields0 = dict(zip(s.rv.j['fields'], s.rv.ops))
        src0 = trace_back(W, f, fields0['max_prediction'])
        if src0 and src0[0] == 'place' and not src0[1].proj and 1 <= src0[1].local <= f.argc:
            mp = 'arg%d' % src0[1].local
    if mp is None:
        from .world import AnchorMissing
        raise AnchorMissing('the max_prediction field of P2PSession is not initialised from a parameter of P2PSession::new')
    for fn2, s in cons:
        fields = dict(zip(s.rv.j['fields'], s.rv.ops))
        src = trace_back(W, f, fields['sparse_saving'])
        ok = False
        desc = repr(src)
        if src and src[0] == 'place':
            pd = G.phi_defs(src[1].local)
            if pd:
                vals = {key(v): G.guard(b) for b, v in pd}
                desc = ', '.join('%s when %s' % (k, dnf_str(g)[:100]) for k, g in vals.items())
                fz = vals.get('0')
                ok = fz is not None and every_disjunct_has(fz, lambda a: match_lin(a, [(exact(mp), 1)], eq=0))
                # and the false branch is taken whenever max_prediction == 0 and sparse: the other branch must exclude it
                oth = [g for k, g in vals.items() if k != '0']
                ok = ok and all(all(any(match_lin(a, [(exact(mp), 1)], neq=0) or (a[0] == 'bool' and a[2] is False) for a in c)
                                    for c in g) for g in oth)
        ob.check(ok, 'P2PSession::new|sparse-off-in-lockstep', 'lockstep forces sparse saving off',
                 'P2PSession::new does not force sparse_saving = false when max_prediction == 0: ' + desc, where(f, s.line))


from . import helpers, wiring

from . import initial

from . import casts

from . import mustcall

from . import vocab

from . import timers

from . import inventory

OBLIGATIONS = [
    ('C04.O1', 'the gate', 'The new-frame step implies current - last_confirmed < max_prediction (current < max_prediction '
     'while nothing is confirmed). A stricter gate passes, a weaker one does not.', o1),
    ('C04.O2', 'lockstep gate', 'The lockstep step implies confirmed_frame() >= current_frame.', o2),
    ('C04.O3', 'no save/load in lockstep', 'Every call site of a public P2PSession method from which save_current_state or '
     'load_frame is reachable is guarded by max_prediction != 0.', o3),
    ('C04.O4', 'no prediction in lockstep', 'InputQueue::input is not in the may-call closure of advance_lockstep_frame; its '
     'inputs come from confirmed_inputs; only Confirmed/Disconnected are built there.', o4),
    ('C04.O6', 'the confirmed frame both gates read is the min over connected players (= C03.O4)', 'see C03.O4', c03.o4),
    ('C04.O5', 'sparse saving off in lockstep', 'P2PSession::new stores sparse_saving = false when max_prediction == 0.', o5),
    ('C04.H', 'helpers the rules above rely on', 'the bodies of the helpers named by this property\'s rules compute what the rules assume (player_input, get_cell); see rules/helpers.py', helpers.bundle('player_input', 'get_cell')),
    ('C04.W', 'configuration wiring', 'at every call site that passes a field read `x.B` for a parameter `A` the callee has no same-typed parameter `B`; in every struct literal no parameter `B` is stored in field `A` while a same-typed parameter `A` / field `B` exists (builder -> constructor -> endpoint fields: timeouts, window, fps are not crossed); see rules/wiring.py', wiring.rule),
    ('C04.I', 'initial state', 'every constructor gives the fields this property\'s rules interpret (NULL_FRAME = none / nothing yet, 0 = first frame, latches open, typestate start) the value listed in tables/initial_state.json; every field compared with NULL_FRAME anywhere is listed; see rules/initial.py', initial.rule_for('C04')),
    ('C04.C', 'lossy integer casts', 'every sign-changing cast (signed -> unsigned; NULL_FRAME is -1) and every narrowing cast to < 32 bits or from 128 bits in the crate is in range by a dominating guard, by the shape of its operand, or listed with a reason in tables/casts.json; see rules/casts.py', casts.rule),
    ('C04.M', 'must-call floor', 'the calls listed for this property in tables/must_call.json are made on every path from the entry of their function to a normal return (interprocedural must-call): a new early return, fast path or extra condition in front of one of them is reported; see rules/mustcall.py', mustcall.rule_for('C04')),
    ('C04.V', 'no unreviewed condition in the pinned helpers', 'for each helper whose body this property\'s rules pin (tables/condition_terms.json), the terms its path conditions are built from (fields, parameters, call results -- no constants, operators or local names) are a subset of the reviewed vocabulary: one more `if` in front of a pinned result (a lock that may time out, "only while an endpoint is running") is reported; see rules/vocab.py', vocab.rule_for('C04')),
    ('C04.T', 'who counts as connected is decided by the timer table', 'the speculation bound is relative to the newest input of every player the session considers connected; a live peer that is wrongly timed out stops bounding it. Dependency, shared with C05.T / C12.T: timestamps are clock readings taken where the packet is handled, each timer has its own field, guard and re-arm site; see rules/timers.py', timers.rule),
    ('C04.S', 'state inventory', 'every field of the structs this property\'s rules read (tables/state.json) is known, and is written only by its reviewed writers (or helpers only they call): a new field is new state across calls -- a cache, a flag, a stored deadline -- that nothing has shown to stay in step; a new writer is a second place that resets, re-arms or moves something; see rules/inventory.py', inventory.state_rule_for('C04')),
    ('C04.K', 'call inventory', 'every reviewed call of a function that writes state (tables/call_edges.json, callers in the structs this property\'s rules read) is still made, directly or through helpers: a call deleted as redundant is reported; likewise the arguments of logging / debug-only macros change no state, no unreviewed call of a state-writing function appears (tables/call_edges_all.json), the types of the locals a loop carries from one iteration to the next (tables/carried.json) and, per function and field, how reads and writes of the field are ordered (tables/orders.json: a snapshot taken before instead of after an update) are as reviewed; see rules/inventory.py', inventory.call_rule_for('C04')),
    ('C04.A', 'expression inventory', 'every arithmetic expression handed to a call or stored in a field, and what every closure given to an iterator adaptor / collection method returns, is one of the reviewed expressions of its function (tables/expressions.json; linear / guard normal forms, no local names): a changed literal, operator, operand order, factor, predicate or sort key is reported; see rules/inventory.py', inventory.expr_rule_for('C04')),
    ('C04.Z', inventory.CONST_TITLE, inventory.CONST_TEXT, inventory.const_rule_for('C04')),
]
