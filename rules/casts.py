"""Lossy-cast obligations.  An `as` cast between integer types silently changes the value when the target cannot represent it.  Two kinds
matter for the properties here and are inventoried on every run over the whole crate:

  S  signed -> unsigned (a frame is an i32 and NULL_FRAME is -1: `frame as usize` of an unset frame is 2^64-1);
  N  narrowing to fewer than 32 bits, or from a 128-bit value (checksums, wall-clock stamps).

Narrowing a 64-bit *count* to 32 bits (usize -> i32 of a window size, an index, an fps value) is NOT inventoried: it misbehaves only
beyond 2^31 elements and no property quantifies over such configurations (stated limit).

Each site is discharged by analysis --
  guard     the path condition bounds the operand inside the target range (>= 0 for S; <= max for N),
  shape     the operand is an expression whose range is inside the target by construction (a masked value, a remainder, a length
            for S, a comparison result, a constant),
-- or must be listed in tables/casts.json with the reason why the wrapped value is harmless (e.g. a ring index whose slot tag is compared
with the frame afterwards).  An unlisted, undischarged site is reported: that is how a new `current_frame() as usize -
last_confirmed_frame() as usize` or a `checksum as u64` shows up."""
import json
import os
import re

from .lib import *
from .sem import key, dnf_str, linearise, conj_implies_atom, canon_vec

VERIF = os.path.dirname(os.path.dirname(os.path.abspath(__file__)))
SIGNED = {'i8': 8, 'i16': 16, 'i32': 32, 'i64': 64, 'i128': 128, 'isize': 64}
UNSIGNED = {'u8': 8, 'u16': 16, 'u32': 32, 'u64': 64, 'u128': 128, 'usize': 64}


def table():
    with open(os.path.join(VERIF, 'tables', 'casts.json')) as f:
        return json.load(f)['sites']


def width(t):
    return SIGNED.get(t) or UNSIGNED.get(t)


def classify(st, dt):
    """'S', 'N' or None"""
    if st not in SIGNED and st not in UNSIGNED or dt not in SIGNED and dt not in UNSIGNED:
        return None
    if st in SIGNED and dt in UNSIGNED:
        return 'S'
    ws, wd = width(st), width(dt)
    if wd < ws and (wd < 32 or ws == 128):
        return 'N'
    if st in UNSIGNED and dt in SIGNED and wd <= ws and (wd < 32 or ws == 128):
        return 'N'
    return None


def sites(W):
    out = []
    for f in W.fx.fn_list:
        if f.derived:
            continue
        cx = None
        for b in f.blocks:
            if b.cleanup:
                continue
            for s in b.stmts:
                if s.k != 'assign' or s.rv.k != 'cast' or s.rv.j.get('ck') != 'IntToInt':
                    continue
                a = s.rv.a
                dt = s.rv.j['ty']
                if a.is_place():
                    st = f.local_ty(a.place.local) if not a.place.proj else None
                else:
                    st = a.j.get('ty') if hasattr(a, 'j') and isinstance(a.j, dict) else None
                if st is None:
                    st = '?'
                kind = classify(st, dt) if st != '?' else ('N' if dt in UNSIGNED or dt in SIGNED else None)
                if kind is None:
                    continue
                if s.span_from_expansion() if hasattr(s, 'span_from_expansion') else False:
                    continue
                cx = cx or W.ctx(f)
                out.append(dict(fn=f, bb=b.id, stmt=s, src=st, dst=dt, kind=kind, expr=cx.expr_operand(a)))
    return out


def shape_bounded(e, kind, dst):
    """range of the expression is inside the target by construction"""
    t = e[0]
    if t == 'cst' and len(e) > 2 and e[2] is not None:
        t, e = 'int', ('int', int(e[2]))
    if t == 'int':
        v = e[1]
        if kind == 'S':
            return v >= 0
        return 0 <= v < (1 << width(dst))
    if t == 'bin':
        op = e[1]
        if op == 'BitAnd':
            for x in (e[2], e[3]):
                if x[0] == 'int' and 0 <= x[1] and (kind == 'S' or x[1] < (1 << width(dst))):
                    return True
        if op == 'Rem' and kind == 'S':
            return shape_bounded(e[2], kind, dst)
        if op in ('Eq', 'Ne', 'Lt', 'Le', 'Gt', 'Ge'):
            return True
    if t == 'call' and kind == 'S':
        k = key(e)
        if k.startswith('len(') or '::len(' in k or k.startswith('count(') or 'unsigned_abs(' in k:
            return True
    if t == 'cast':
        return shape_bounded(e[1], kind, dst) if len(e) > 1 and isinstance(e[1], tuple) else False
    return False


def guard_bounded(W, f, bb, e, kind, dst):
    G = W.guards(f)
    g = G.stable_guard(bb)
    if not g:
        return False
    try:
        vec, c = linearise(e)
    except Exception:
        return False
    if not vec:
        return False
    # lo <= S + c <= hi  in canonical form
    lo, hi = 0, (None if kind == 'S' else (1 << width(dst)) - 1)
    cv, cc, flipped = canon_vec(vec, c)
    if flipped:
        lo, hi = (None if hi is None else -hi), (None if lo is None else -lo)
    atom = ('lin', cv, None if lo is None else lo - cc, None if hi is None else hi - cc)
    return all(conj_implies_atom(cj, atom) for cj in g)


def site_key(s):
    return '%s|%s->%s|%s' % (short(s['fn'].path), s['src'], s['dst'], key(s['expr'])[:120])


def rule(W, ob):
    tab = {t['key']: t for t in table()}
    seen = set()
    n = 0
    for s in sites(W):
        n += 1
        k = site_key(s)
        f = s['fn']
        what = '%s: `%s as %s` (%s, %s)' % (short(f.path), key(s['expr'])[:70], s['dst'], s['src'], 'sign-changing' if s['kind'] == 'S' else 'narrowing')
        if shape_bounded(s['expr'], s['kind'], s['dst']):
            ob.ok(what + ' -- in range by construction', where(f, s['stmt'].line))
        elif guard_bounded(W, f, s['bb'], s['expr'], s['kind'], s['dst']):
            ob.ok(what + ' -- in range under the dominating guard', where(f, s['stmt'].line), witness=dnf_str(W.guards(f).stable_guard(s['bb']))[:300])
        elif k in tab:
            seen.add(k)
            ob.ok(what + ' -- reviewed: ' + tab[k]['why'], where(f, s['stmt'].line))
        else:
            ob.fail('cast|' + k, what + ': the operand is not shown to fit the target type (no dominating bound, no bounded shape, not in tables/casts.json); '
                    'a value outside the target range is silently wrapped or truncated', where(f, s['stmt'].line),
                    witness='guard: ' + dnf_str(W.guards(f).stable_guard(s['bb']))[:400])
    for k, t in tab.items():
        if k not in seen:
            ob.info('table entry `%s` matched no site (stale entry, harmless)' % k)
    ob.require_count(n, 8, 'sign-changing / narrowing integer casts in the crate')
