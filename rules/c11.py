"""C11 -- changing input delay at run time keeps all peers in agreement (structural part)."""
from .lib import *
from .cfg import cfg_of, callee_matches
from .sem import key, dnf_str
from .world import Effects
from . import c01, c03

LEVEL = 'other'
EXPLANATION = ('Static rule checking: what is announced to remotes (last_frame, outgoing queue) comes from a sync-layer call that inserts '
               'into the input ring, and every fill reported by set_frame_delay was inserted with the same frame; what was inserted is '
               'announced and sent; both fill loops start at the successor of the newest queued frame and step by one; set_input_delay '
               'has no effect on its error paths; dropped submissions are never announced. Equality of inputs across peers for all delay '
               'sequences is NOT decided.')
NOT_DECIDED = ['equality of the inputs used by owner, remotes and spectators for all sequences of delay changes']
ASSUMPTIONS = c01.ASSUMPTIONS

P2P = c01.P2P
SL = c01.SL
IQ = c01.IQ


def o1(W, ob):
    E = Effects(W)
    for name in (SL + '::set_frame_delay', SL + '::add_local_input'):
        f = W.fn(name)
        eff = E.of(f)
        ob.check(any(e.startswith('self.input_queues[*].inputs') for e in eff), '%s|inserts-into-ring' % short(f.path),
                 '%s writes the input ring (what it reports is really stored)' % short(f.path),
                 '%s reports frames but its effect summary does not include the input ring: %s' % (short(f.path), sorted(eff)[:6]), where(f))
    # inside InputQueue::set_frame_delay every reported fill is inserted first, with the same frame
    s = W.fn(IQ + '::set_frame_delay')
    cx = W.ctx(s)
    cfg = cfg_of(s)
    pushes = [t for t in s.calls() if last_seg(t.callee.best) == 'push']
    adds = [t for t in s.calls() if callee_matches(t.callee, IQ + '::add_input_by_frame')]
    ob.require_count(len(pushes), 1, 'fill report site in set_frame_delay')
    ob.require_count(len(adds), 1, 'fill insertion site in set_frame_delay')
    for p in pushes:
        ob.check(cfg.path_avoiding([p.bb], [a.bb for a in adds]) is None, 'set_frame_delay|report-only-inserted',
                 'a fill is reported only after it was inserted into the queue',
                 'set_frame_delay can report a fill input that was not inserted into the queue (remotes would be told about a frame the owner does not hold)',
                 where(s, p.line))
        pe = cx.expr_operand(p.args[1])
        fr = None
        if pe[0] == 'agg':
            fr = dict(pe[2]).get('frame')
        elif pe[0] == 'call' and pe[2]:
            fr = pe[2][0]
        af = [cx.expr_operand(a.args[2]) for a in adds]
        ob.check(fr is not None and af and all(key(x) == key(fr) for x in af), 'set_frame_delay|report-frame-equals-inserted-frame',
                 'the frame reported is the frame inserted', 'set_frame_delay reports frame `%s` but inserts `%s`' % (key(fr) if fr else '?', [key(x) for x in af]),
                 where(s, p.line))
        # same input value
    # and the result is what the function returns
    r0 = trace_back(W, s, __import__('rules.lib', fromlist=['_place_operand'])._place_operand(__import__('rules.facts', fromlist=['Place']).Place({'l': 0, 'p': []})))
    src_push = trace_back(W, s, pushes[0].args[0]) if pushes else None
    ob.check(bool(r0) and bool(src_push) and r0[0] == src_push[0] and (r0[1] is src_push[1] or getattr(r0[1], 'local', None) == getattr(src_push[1], 'local', 0)),
             'set_frame_delay|returns-reported', 'the reported fills are what is returned', 'set_frame_delay does not return the vector it fills', where(s))
    # the fills replicate the newest input
    for a in adds:
        v = key(cx.expr_operand(a.args[1]))
        ob.check(v == 'self.inputs[InputQueue::prev_pos(self.head)]', 'set_frame_delay|replicates-last', 'fills replicate the newest queued input',
                 'fills are copies of `%s`' % v, where(s, a.line))


def o1b(W, ob):
    # register_local_inputs / set_input_delay: inserted => announced (store + queue), then sent
    for name, src_pat in ((P2P + '::register_local_inputs', 'add_local_input('), (P2P + '::set_input_delay', 'set_frame_delay(')):
        f = W.fn(name)
        cx = W.ctx(f)
        cfg = cfg_of(f)
        G = W.guards(f)
        st = [w for w in stores_in(W, f, 'last_frame') if 'local_connect_status' in w['ap'].s(f)]
        qs = [t for t in f.calls() if callee_matches(t.callee, P2P + '::queue_outgoing_local_input')]
        ob.require_count(len(st), 1, 'last_frame store in %s' % short(f.path))
        ob.require_count(len(qs), 1, 'queue_outgoing_local_input call in %s' % short(f.path))
        for w in st:
            for q in qs:
                same = w['bb'] == q.bb or cfg.path_from_avoiding(w['bb'], [q.bb]) is None
                ob.check(same, '%s|announce-and-queue' % short(f.path), 'every announced frame is also queued for sending',
                         '%s raises last_frame on a path that does not queue the input for the remotes' % short(f.path), where(f, w['line']))
                qa = key(cx.expr_operand(q.args[2]))
                ob.check(src_pat in qa, '%s|queued-is-inserted' % short(f.path), 'what is queued is what the sync layer inserted',
                         '%s queues `%s`' % (short(f.path), qa[:100]), where(f, q.line))
            g = G.guard(w['bb'])
            # the only condition is frame != NULL (plus iteration / handle-kind atoms)
            extra = [a for c in g for a in c if a[0] != 'is' and not (a[0] == 'ne' and a[2] == -1 and len(a[1]) == 1 and
                                                                    (a[1][0][0].endswith('.frame') or 'add_local_input(' in a[1][0][0]))]
            ob.check(not extra, '%s|announce-unconditionally' % short(f.path), 'every inserted frame (!= NULL) is announced',
                     'the announcement in %s is additionally conditioned: %s' % (short(f.path), dnf_str(g)[-200:]), where(f, w['line']))
        sends = sites(W, f, P2P + '::send_ready_outgoing_inputs_to_remotes')
        ob.require_count(len(sends), 1, 'send_ready_outgoing_inputs_to_remotes call in %s' % short(f.path))
        for q in qs:
            ob.check(cfg.path_from_avoiding(q.bb, sends) is None, '%s|queued-then-sent' % short(f.path), 'queued inputs are flushed before returning',
                     '%s can return without flushing the outgoing inputs' % short(f.path), where(f, q.line))
    queue_is_unconditional(W, ob)
    # the constructor ignores the (all-default) fills: reviewed exception, listed
    n = W.fn(P2P + '::new')
    cs = [t for t in n.calls() if callee_matches(t.callee, SL + '::set_frame_delay')]
    ob.info('P2PSession::new calls set_frame_delay %d time(s) and ignores the fills: reviewed exception (before the first submission every frame '
            'below the delay is the default input on every peer by definition; the remote fills them lazily from the NULL reference)' % len(cs), where(n))
    others = [(f, t) for f, t in W.calls_to(SL + '::set_frame_delay') if not any(match_path(f.path, a) for a in
              (P2P + '::new', P2P + '::set_input_delay', 'SyncTestSession::new'))]
    for f, t in others:
        ob.fail('set_frame_delay|caller|%s' % short(f.path), 'SyncLayer::set_frame_delay is called from %s, which does not announce its fills' % short(f.path), where(f, t.line))


def queue_is_unconditional(W, ob):
    """"queued" means stored: queue_outgoing_local_input keeps (frame -> handle -> input) whenever the session has remote endpoints -- also
    before the session is running, when set_input_delay's fills are announced"""
    q = W.fn(P2P + '::queue_outgoing_local_input')
    cx, G = W.ctx(q), W.guards(q)
    ins = [t for t in q.calls() if last_seg(t.callee.best) == 'insert']
    ent = [t for t in q.calls() if last_seg(t.callee.best) == 'entry']
    ob.require_count(len(ins), 1, 'insert in queue_outgoing_local_input')
    for t in ins:
        eg = G.essential_guard(t.bb)
        ok = eg == [[('bool', 'HashMap::is_empty(self.player_reg.remotes)', False)]]
        ob.check(ok, 'queue_outgoing_local_input|only-condition', 'the input is stored whenever there are remote endpoints (no other condition)',
                 'queue_outgoing_local_input stores the input only under `%s`; announced frames can be lost before they are sent' % dnf_str(eg)[:200], where(q, t.line))
        a = [key(cx.expr_operand(x)) for x in t.args[1:]]
        tgt = key(cx.expr_operand(t.args[0]))
        ek = [key(cx.expr_operand(e.args[1])) for e in ent]
        ob.check(a == ['arg2', 'arg3'] and ek == ['arg3.frame'] and 'self.outgoing_local_inputs' in tgt, 'queue_outgoing_local_input|what-is-stored',
                 'stored under the input\'s frame and the player\'s handle, unchanged', 'queue_outgoing_local_input stores %s under %s into %s' % (a, ek, tgt[:80]), where(q, t.line))


def fill_counter_inits(W, f):
    """for the add_input_by_frame calls inside a loop of f: the loop-carried frame counter passed as frame, its initial values and step"""
    cx = W.ctx(f)
    G = W.guards(f)
    out = []
    for t in f.calls():
        if not callee_matches(t.callee, IQ + '::add_input_by_frame'):
            continue
        body = [b for b in G.loops() if t.bb in b]
        if not body:
            continue
        e = cx.expr_operand(t.args[2])
        if e[0] != 'var':
            out.append((t, None, None, 'frame argument `%s` is not a loop-carried counter' % key(e)))
            continue
        var = e[1]
        inits, steps = [], []
        for k, d in cx.full_defs(var):
            v = cx.expr_rvalue(d.rv) if k == 'stmt' else cx.expr_call(d)
            if any(d.bb in b for b in body):
                steps.append(key(v))
            else:
                inits.append((key(v), G.guard(d.bb)))
        out.append((t, inits, steps, None))
    return out


def o2(W, ob):
    n = 0
    for name in (IQ + '::set_frame_delay', IQ + '::advance_queue_head'):
        f = W.fn(name)
        for t, inits, steps, err in fill_counter_inits(W, f):
            n += 1
            if err:
                ob.fail('%s|fill-counter' % short(f.path), err, where(f, t.line))
                continue
            ok_step = len(steps) == 1 and steps[0].endswith(' Add 1)') and '#' in steps[0]
            ok_init = bool(inits)
            for k, g in inits:
                succ = k in ('(self.last_added_frame Add 1)', '(self.inputs[InputQueue::prev_pos(self.head)].frame Add 1)')
                zero = k == '0' and every_disjunct_has(g, lambda a: a == ('bool', 'self.first_frame', True))
                if succ:
                    # allowed unless on the first_frame path only the zero start is right: accept
                    pass
                if not (succ or zero):
                    ok_init = False
            ob.check(ok_step and ok_init, '%s|fill-starts-after-newest' % short(f.path),
                     'the fill loop of %s starts at the frame after the newest queued input (0 for an empty queue) and steps by one' % short(f.path),
                     'the fill loop of %s starts at %s and steps with %s: it must start at the successor of the newest queued frame, otherwise '
                     'frames already in the queue are re-added (sequence assertion) or a gap is left' % (short(f.path), [k for k, _ in inits], steps),
                     where(f, t.line))
    ob.require_count(n, 2, 'fill loops (set_frame_delay, advance_queue_head)')
    # the bound of the eager fill is the frame the next submission lands on
    s = W.fn(IQ + '::set_frame_delay')
    G = W.guards(s)
    for t in [t for t in s.calls() if callee_matches(t.callee, IQ + '::add_input_by_frame')]:
        g = G.guard(t.bb)
        ok = every_disjunct_has(g, lambda a: a[0] == 'lin' and {k.split('#')[0] for k, _ in a[1]} >= {'arg2', 'self.last_user_frame'} and len(a[1]) == 3)
        ob.check(ok, 'set_frame_delay|fill-bound', 'fills stop before last_user_frame + 1 + delay (where the next submission lands)',
                 'the eager fill is bounded by ' + dnf_str(g)[:200], where(s, t.line))
    st = stores_in(W, s, 'frame_delay')
    ob.check(len(st) == 1 and key(W.ctx(s).expr_rvalue(st[0]['site'].rv)) == 'arg2' and G.guard(st[0]['bb']) == [[]], 'set_frame_delay|stores-delay',
             'the new delay is stored unconditionally', 'set_frame_delay does not unconditionally store the new delay', where(s))


def o3(W, ob):
    f = W.fn(P2P + '::set_input_delay')
    G = W.guards(f)
    E = Effects(W)
    errs = [s for f2, s in W.constructions('GgrsError', 'InvalidRequest') if f2 is f]
    ob.require_count(len(errs), 2, 'InvalidRequest returns of set_input_delay')
    for t in f.calls():
        tg = W.cg.targets(t.callee)
        has_eff = any(E.of(x) for x in tg) or (not tg and any(ty.startswith('&mut ') for ty in t.arg_tys) and
                                                t.args and t.args[0].is_place() and W.ctx(f).ap_carry(t.args[0].place).root[0] == 'arg')
        if not has_eff:
            continue
        g = G.guard(t.bb)
        ob.check(guard_has_is(g, 'self.player_reg.handles[arg2]', 'Local'), 'set_input_delay|effect-only-for-local|%s' % last_seg(t.callee.best),
                 '%s happens only for a local handle' % last_seg(t.callee.best), '%s in set_input_delay is reachable for a non-local or unknown handle' % last_seg(t.callee.best),
                 where(f, t.line))
    for w in W.writes():
        if w['fn'] is f and w['kind'] == 'store' and w['ap'].root[0] == 'arg':
            g = G.guard(w['bb'])
            ob.check(guard_has_is(g, 'self.player_reg.handles[arg2]', 'Local'), 'set_input_delay|store-only-for-local',
                     'stores happen only for a local handle', 'set_input_delay stores `%s` for a non-local handle' % w['ap'].s(f), where(f, w['line']))
    for s in errs:
        g = G.guard(s.bb)
        ob.check(guard_has_is(g, 'self.player_reg.handles[arg2]', 'Local', False) or guard_has_is(g, 'self.player_reg.handles[arg2]', 'None'),
                 'set_input_delay|error-for-non-local', 'InvalidRequest is returned for remote, spectator and unknown handles',
                 'InvalidRequest guard: ' + dnf_str(g)[:200], where(f, s.line))
    # decrease: a submission that lands on an already filled frame is dropped, and dropped submissions are never announced (C03.O4)
    a = W.fn(IQ + '::advance_queue_head')
    Ga = W.guards(a)
    cfg = cfg_of(a)
    cx = W.ctx(a)
    ok = False
    for b in a.blocks:
        if b.cleanup or b.id not in cfg.reach:
            continue
        for s in b.stmts:
            if s.k == 'assign' and s.place.is_local() and s.place.local == 0 and key(cx.expr_rvalue(s.rv)) in ('NULL_FRAME', '-1'):
                g = Ga.guard(b.id)
                ok = every_disjunct_has(g, lambda x: x[0] == 'lin' and len(x[1]) == 2 and any('expected_frame' in k for k, _ in x[1]) and any('input_frame' in k for k, _ in x[1]))
    ob.check(ok, 'advance_queue_head|drop-on-decrease', 'a submission whose frame is already filled is dropped (NULL_FRAME)',
             'advance_queue_head does not return NULL_FRAME under expected_frame > input_frame', where(a))


from . import helpers

from . import initial

from . import removals

from . import mustcall

from . import vocab

from . import inventory

OBLIGATIONS = [
    ('C11.O1', 'what is announced was inserted', 'set_frame_delay / add_local_input write the input ring; every fill reported by InputQueue::set_frame_delay was '
     'inserted first, with the same frame, replicating the newest input; the filled vector is what is returned.', o1),
    ('C11.O1b', 'what was inserted is announced', 'every non-NULL frame returned by add_local_input / set_frame_delay is stored to last_frame, queued and flushed '
     'before returning; set_frame_delay has no caller that drops the fills (constructor excepted).', o1b),
    ('C11.O2', 'fill loops agree on where the queue ends', 'both fill loops (eager in set_frame_delay, lazy in advance_queue_head) start at the successor of the newest '
     'queued frame (0 for an empty queue), step by one; the eager one stops at last_user_frame + 1 + delay.', o2),
    ('C11.O3', 'guards of the API', 'set_input_delay has effects only for a local handle and returns InvalidRequest otherwise; submissions landing on filled frames are '
     'dropped and never announced.', o3),
    ('C11.O4', 'announced frames come from the sync layer (= C03.O4)', 'see C03.O4', c03.o4),
    ('C11.O5', 'every queue a delay change makes wrong is repaired (= C01.O7)', 'a run-time delay increase sends fill frames and the next real input as one burst; a remote peer predicting ahead then finds several players mispredicted at DIFFERENT first frames in the same tick.  All peers use the same inputs afterwards only if the rollback starts at the earliest of them: check_simulation_consistency is a NULL-aware min-reduction; see C01.O7', c01.o7),
    ('C11.H', 'helpers the rules above rely on', 'the bodies of the helpers named by this property\'s rules compute what the rules assume (prev_pos, add_input, next_complete); see rules/helpers.py', helpers.bundle('prev_pos', 'add_input', 'next_complete', 'set_frame_delay')),
    ('C11.I', 'initial state', 'every constructor gives the fields this property\'s rules interpret (NULL_FRAME = none / nothing yet, 0 = first frame, latches open, typestate start) the value listed in tables/initial_state.json; every field compared with NULL_FRAME anywhere is listed; see rules/initial.py', initial.rule_for('C11')),
    ('C11.R', 'who may remove', 'every call that takes elements out of a collection this property\'s rules rely on (keyed removal from a map, or bulk / positional removal) is one of the reviewed sites in tables/removals.json; a lookup turned into a removal, a second prune, a clear on another path is reported; see rules/removals.py', removals.rule_for('C11')),
    ('C11.M', 'must-call floor', 'the calls listed for this property in tables/must_call.json are made on every path from the entry of their function to a normal return (interprocedural must-call): a new early return, fast path or extra condition in front of one of them is reported; see rules/mustcall.py', mustcall.rule_for('C11')),
    ('C11.V', 'no unreviewed condition in the pinned helpers', 'for each helper whose body this property\'s rules pin (tables/condition_terms.json), the terms its path conditions are built from (fields, parameters, call results -- no constants, operators or local names) are a subset of the reviewed vocabulary: one more `if` in front of a pinned result (a lock that may time out, "only while an endpoint is running") is reported; see rules/vocab.py', vocab.rule_for('C11')),
    ('C11.S', 'state inventory', 'every field of the structs this property\'s rules read (tables/state.json) is known, and is written only by its reviewed writers (or helpers only they call): a new field is new state across calls -- a cache, a flag, a stored deadline -- that nothing has shown to stay in step; a new writer is a second place that resets, re-arms or moves something; see rules/inventory.py', inventory.state_rule_for('C11')),
    ('C11.K', 'call inventory', 'every reviewed call of a function that writes state (tables/call_edges.json, callers in the structs this property\'s rules read) is still made, directly or through helpers: a call deleted as redundant is reported; likewise the arguments of logging / debug-only macros change no state, no unreviewed call of a state-writing function appears (tables/call_edges_all.json), the types of the locals a loop carries from one iteration to the next (tables/carried.json) and, per function and field, how reads and writes of the field are ordered (tables/orders.json: a snapshot taken before instead of after an update) are as reviewed; see rules/inventory.py', inventory.call_rule_for('C11')),
    ('C11.A', 'expression inventory', 'every arithmetic expression handed to a call or stored in a field, and what every closure given to an iterator adaptor / collection method returns, is one of the reviewed expressions of its function (tables/expressions.json; linear / guard normal forms, no local names): a changed literal, operator, operand order, factor, predicate or sort key is reported; see rules/inventory.py', inventory.expr_rule_for('C11')),
    ('C11.Z', inventory.CONST_TITLE, inventory.CONST_TEXT, inventory.const_rule_for('C11')),
]
