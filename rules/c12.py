"""C12 -- connection lifecycle events are well formed (structural part)."""
from .lib import *
from .cfg import cfg_of, callee_matches
from .sem import key, dnf_str
from . import c01, c07

LEVEL = 'other'
EXPLANATION = ('Static rule checking: the typestate of ProtocolState extracted from all stores with their guards, handshake '
               'accounting (nonce consumed, count arithmetic, single constructors), interrupt/resume/disconnect bookkeeping '
               'including "nothing is emitted after Disconnected", the session becomes Running only after every endpoint is '
               'synchronized, documented constants, the event-queue bound after every push, Disconnected terminal in both '
               'session types. Timing under poll cadences is NOT decided.')
NOT_DECIDED = ['timing against the configured timeouts under every poll cadence']
ASSUMPTIONS = c01.ASSUMPTIONS

P2P = c01.P2P
UDP = c01.UDP
SP = 'sessions::p2p_spectator_session::SpectatorSession'


def _remaining_positive(W, a):
    """`sync_remaining_roundtrips > 0`, also spelled `!= 0` (the field is unsigned)"""
    unsigned = any(x['name'] == 'sync_remaining_roundtrips' and x['ty'].startswith('u') for x in W.struct_fields('UdpProtocol'))
    return match_lin(a, [(exact('self.sync_remaining_roundtrips'), 1)], lo=1) or (unsigned and match_lin(a, [(exact('self.sync_remaining_roundtrips'), 1)], neq=0))


def o1(W, ob):
    st = [w for w in W.writes_to_field('state')[0] if w['kind'] == 'store' and 'UdpProtocol' in w['fn'].path]
    ob.require_count(len(st), 4, 'stores to UdpProtocol.state')
    allowed = {
        'Synchronizing': (UDP + '::synchronize', lambda g: guard_has_is(g, 'self.state', 'Initializing') or
                          every_disjunct_has(g, lambda a: a[0] in ('lin', 'relz', 'bool') or True)),
        'Running': (UDP + '::on_sync_reply', lambda g: guard_has_is(g, 'self.state', 'Synchronizing') and
                    every_disjunct_has(g, lambda a: a[0] == 'bool' and 'sync_random_requests[' in a[1] and a[2] is True)),
        'Disconnected': (UDP + '::disconnect', lambda g: guard_has_is(g, 'self.state', 'Shutdown', False)),
        'Shutdown': (UDP + '::poll', lambda g: guard_has_is(g, 'self.state', 'Disconnected')),
    }
    for w in st:
        f = w['fn']
        v = W.ctx(f).expr_rvalue(w['site'].rv)
        name = v[2] if v[0] == 'variant' else key(v)
        g = W.guard(f, w['bb'])
        spec = allowed.get(name)
        ok = spec is not None and match_path(f.path, spec[0]) and spec[1](g)
        ob.check(ok, 'state|%s|%s' % (name, short(f.path)), 'transition to %s only in %s under its source-state guard' % (name, short(f.path)),
                 'ProtocolState is set to %s in %s under `%s`: not a transition of the reviewed relation {Initializing->Synchronizing '
                 '(synchronize), Synchronizing->Running (matched reply), !Shutdown->Disconnected (disconnect), Disconnected->Shutdown '
                 '(poll)}' % (name, short(f.path), dnf_str(g)[:200]), where(f, w['line']))
    # synchronize asserts Initializing
    sy = W.fn(UDP + '::synchronize')
    for w in stores_in(W, sy, 'state'):
        g = W.guard(sy, w['bb'])
        ok = every_disjunct_has(g, lambda a: (a[0] == 'is' and a[1] == 'self.state' and a[2] == 'Initializing' and a[3]) or
                                (a[0] in ('lin', 'relz') and 'Initializing' in repr(a)) or ('Initializing' in repr(a)))
        ob.check(ok, 'synchronize|from-initializing', 'synchronize() asserts the Initializing state',
                 'synchronize() is not protected by the Initializing assertion: ' + dnf_str(g)[:200], where(sy, w['line']))
    # remote_magic only on the ->Running edge
    rm = [w for w in W.writes_to_field('remote_magic')[0] if w['kind'] == 'store']
    ob.require_count(len(rm), 1, 'stores to remote_magic')
    run = [w for w in st if W.ctx(w['fn']).expr_rvalue(w['site'].rv)[-1] == 'Running']
    for w in rm:
        same = bool(run) and w['fn'] is run[0]['fn'] and W.guard(w['fn'], w['bb']) == W.guard(run[0]['fn'], run[0]['bb'])
        v = key(W.ctx(w['fn']).expr_rvalue(w['site'].rv))
        ob.check(same and v.endswith('.magic'), 'remote_magic|on-running-edge', 'the remote magic is learnt exactly when the handshake completes',
                 'remote_magic := %s in %s is not on the Synchronizing->Running edge' % (v, short(w['fn'].path)), where(w['fn'], w['line']))


def o2(W, ob):
    # the nonce is fresh entropy: what is remembered and what is sent are one call of rand::random()
    sr = W.fn(UDP + '::send_sync_request')
    cxs = W.ctx(sr)
    ins_ = [t for t in sr.calls() if last_seg(t.callee.best) == 'insert' and t.args and t.args[0].is_place() and 'sync_random_requests' in cxs.ap_carry(t.args[0].place).s(sr)]
    reqs = [st for f2, st in W.constructions('SyncRequest') if f2 is sr]
    okn = len(ins_) == 1 and len(reqs) == 1 and key(cxs.expr_operand(ins_[0].args[1])) == 'rand::random()' and key(cxs.expr_operand(reqs[0].rv.ops[0])) == 'rand::random()' and \
        len([t for t in sr.calls() if (t.callee.best or '').startswith('rand::random')]) == 1
    ob.check(okn, 'send_sync_request|nonce-is-random', 'each sync request carries a fresh random nonce, the same value that is remembered',
             'the handshake nonce is `%s` (remembered: `%s`): a predictable or repeated nonce lets replies meant for another session / an earlier incarnation count as round trips'
             % (key(cxs.expr_operand(reqs[0].rv.ops[0]))[:60] if reqs else '?', key(cxs.expr_operand(ins_[0].args[1]))[:60] if ins_ else '?'), where(sr))
    r = W.fn(UDP + '::on_sync_reply')
    G = W.guards(r)
    cx = W.ctx(r)
    st = [w for w in W.writes_to_field('sync_remaining_roundtrips')[0] if w['kind'] == 'store']
    for w in st:
        f = w['fn']
        v = key(W.ctx(f).expr_rvalue(w['site'].rv))
        if match_path(f.path, UDP + '::on_sync_reply'):
            g = G.guard(w['bb'])
            ok = v == '(self.sync_remaining_roundtrips Sub 1)' and guard_has_is(g, 'self.state', 'Synchronizing') and \
                every_disjunct_has(g, lambda a: a[0] == 'bool' and 'sync_random_requests[' in a[1] and 'random_reply' in a[1] and a[2] is True)
            ob.check(ok, 'on_sync_reply|count-matched-only', 'a round trip is counted only for a reply whose nonce was outstanding (and is consumed), while Synchronizing',
                     'sync_remaining_roundtrips := %s under %s' % (v, dnf_str(g)[:200]), where(f, w['line']))
        elif match_path(f.path, UDP + '::synchronize'):
            ob.check(v == 'NUM_SYNC_PACKETS', 'synchronize|roundtrips-init', 'synchronize() arms NUM_SYNC_PACKETS round trips',
                     'synchronize sets sync_remaining_roundtrips := %s' % v, where(f, w['line']))
        else:
            ob.fail('sync_remaining_roundtrips|writer|%s' % short(f.path), 'sync_remaining_roundtrips is written in %s' % short(f.path), where(f, w['line']))
    ob.require_count(len(st), 2, 'stores to sync_remaining_roundtrips')
    # the nonce is consumed with `remove`, not merely looked up
    rem = [t for t in r.calls() if last_seg(t.callee.best) == 'remove' and 'sync_random_requests' in cx.ap_carry(t.args[0].place).s(r)]
    ob.check(len(rem) == 1, 'on_sync_reply|nonce-consumed', 'the reply nonce is removed from the outstanding set',
             'on_sync_reply does not consume the nonce with HashSet::remove (a duplicated reply would count twice)', where(r))
    for variant in ('Synchronizing', 'Synchronized'):
        cs = W.constructions('Event', variant)
        ob.require_count(len(cs), 1, 'Event::%s constructors' % variant)
        for f, s in cs:
            if not match_path(f.path, UDP + '::on_sync_reply'):
                ob.fail('Event::%s|constructor|%s' % (variant, short(f.path)), 'Event::%s is constructed in %s' % (variant, short(f.path)), where(f, s.line))
                continue
            g = G.guard(s.bb)
            if variant == 'Synchronizing':
                fields = dict(zip(s.rv.j['fields'], s.rv.ops))
                total = key(cx.expr_operand(fields['total']))
                count = key(cx.expr_operand(fields['count']))
                ok = every_disjunct_has(g, lambda a: _remaining_positive(W, a)) and \
                    total == 'NUM_SYNC_PACKETS' and count == '(NUM_SYNC_PACKETS Sub self.sync_remaining_roundtrips)'
                ob.check(ok, 'on_sync_reply|synchronizing-event', 'Synchronizing{total, count} announces total = NUM_SYNC_PACKETS and count = total - remaining while remaining > 0',
                         'Synchronizing event: total=%s count=%s guard=%s' % (total, count, dnf_str(g)[:200]), where(f, s.line))
            else:
                ok = every_disjunct_has(g, lambda a: match_lin(a, [(exact('self.sync_remaining_roundtrips'), 1)], hi=0))
                ob.check(ok, 'on_sync_reply|synchronized-event', 'Synchronized is emitted when no round trip remains',
                         'Synchronized is emitted under ' + dnf_str(g)[:200], where(f, s.line))
    # requests register their nonce
    sr = W.fn(UDP + '::send_sync_request')
    ins = [t for t in sr.calls() if last_seg(t.callee.best) == 'insert' and 'sync_random_requests' in W.ctx(sr).ap_carry(t.args[0].place).s(sr)]
    ob.check(len(ins) == 1, 'send_sync_request|nonce-registered', 'every request registers its nonce', 'send_sync_request does not register the nonce', where(sr))


def o3(W, ob):
    c07.check_and_set(W, ob, 'NetworkInterrupted', 'disconnect_notify_sent', 1)
    c07.check_and_set(W, ob, 'Disconnected', 'disconnect_event_sent', 3)
    cs = W.constructions('Event', 'NetworkResumed')
    ob.require_count(len(cs), 1, 'Event::NetworkResumed constructors')
    for f, s in cs:
        g = W.guard(f, s.bb)
        ok = guard_has_bool(g, 'self.disconnect_notify_sent', True) and guard_has_is(g, 'self.state', 'Running')
        cl = [w for w in stores_in(W, f, 'disconnect_notify_sent') if W.ctx(f).expr_rvalue(w['site'].rv) == ('int', 0)]
        cfg = cfg_of(f)
        cleared = any(w['bb'] == s.bb or cfg.path_avoiding([s.bb], [w['bb']]) is None or cfg.path_from_avoiding(s.bb, [w['bb']]) is None for w in cl)
        ob.check(ok and cleared, 'NetworkResumed|after-interrupted-while-running',
                 'NetworkResumed only after a NetworkInterrupted, while Running, clearing the flag',
                 'NetworkResumed in %s: guard %s, flag cleared=%s' % (short(f.path), dnf_str(g)[:200], cleared), where(f, s.line))
    # nothing is emitted after Disconnected within one call
    n = 0
    for f in W.fns():
        if 'UdpProtocol' not in f.path:
            continue
        cfg = cfg_of(f)
        allev = [s for f2, s in W.constructions('Event') if f2 is f]
        for d in event_constructions(W, f, 'Event', 'Disconnected'):
            n += 1
            # Event::Input is internal (never forwarded to the user; the session drops inputs of a disconnected player)
            later = [s for s in allev if s is not d and s.bb in cfg.reachable_after(d.bb) and s.rv.j['variant'] != 'Input']
            ob.check(not later, '%s|event-after-disconnected' % short(f.path), 'no event follows Disconnected in %s' % short(f.path),
                     'in %s an Event::%s can be emitted after Event::Disconnected in the same call' % (
                         short(f.path), later[0].rv.j['variant'] if later else ''), where(f, d.line))
    ob.require_count(n, 3, 'Disconnected emission sites')


def o4(W, ob):
    st = [w for w in W.writes_to_field('state')[0] if w['kind'] == 'store' and 'P2PSession' in w['fn'].path]
    ob.require_count(len(st), 1, 'stores to P2PSession.state')
    c = W.fn(P2P + '::check_initial_sync')
    cfg = cfg_of(c)
    for w in st:
        f = w['fn']
        ok = match_path(f.path, P2P + '::check_initial_sync')
        ob.check(ok, 'P2PSession.state|writer|%s' % short(f.path), 'the session state is changed only by check_initial_sync',
                 'P2PSession.state is written in %s' % short(f.path), where(f, w['line']))
        if not ok:
            continue
        v = W.ctx(f).expr_rvalue(w['site'].rv)
        ob.check(v[0] == 'variant' and v[2] == 'Running', 'check_initial_sync|to-running', 'the only transition is to Running',
                 'check_initial_sync stores %s' % key(v), where(f, w['line']))
        # for every is_synchronized() test, the not-synchronized outcome cannot reach the store
        tests = [t for t in c.calls() if callee_matches(t.callee, 'UdpProtocol::is_synchronized')]
        cx = W.ctx(c)
        G = W.guards(c)
        roots = set()
        # the same test as an iterator predicate: `map.values().any(|e| !e.is_synchronized())` / `.all(|e| e.is_synchronized())` followed by a branch one
        # outcome of which cannot reach the store
        chains = 0
        for t in c.calls():
            if last_seg(t.callee.best) not in ('any', 'all') or len(t.args) < 2:
                continue
            cl = closure_of_operand(W, c, t.args[1])
            if not (cl and cl[0] == 'closure' and any(callee_matches(x.callee, 'UdpProtocol::is_synchronized') for x in cl[1].calls())):
                continue
            e = closure_return_expr(W, cl[1])
            negated = e[0] == 'un' and e[1] == 'Not'
            if (last_seg(t.callee.best) == 'any') != negated:
                ob.fail('check_initial_sync|iterator-test-polarity', '`%s` over is_synchronized() has the wrong polarity in check_initial_sync' % last_seg(t.callee.best), where(c, t.line))
                continue
            srcs = [term for seg, term in iter_chain(W, c, t) if seg in ('values', 'values_mut', 'iter', 'iter_mut', 'into_iter') and term.args and term.args[0].is_place()]
            for sx in srcs:
                roots.add(cx.ap_carry(sx.args[0].place).s(c, generic=True))
            nb = t.target
            outs = [s2 for s2 in cfg.succ[nb] if w['bb'] not in cfg.reachable(s2) and w['bb'] != s2] if c.blocks[nb].term.k == 'switch' else []
            ob.check(len(outs) == 1, 'check_initial_sync|unsynchronized-endpoint-blocks', 'an endpoint that is not synchronized prevents Running',
                     'after the `%s` over is_synchronized() the store to Running is reachable on both outcomes' % last_seg(t.callee.best), where(c, t.line))
            chains += 1
        ob.require_count(len(tests) + chains, 2, 'is_synchronized tests (remotes and spectators)')
        for t in tests:
            roots.add(cx.ap_carry(t.args[0].place).s(c, generic=True))
            nb = t.target
            term = c.blocks[nb].term
            ok2 = False
            if term.k == 'switch':
                # the edge taken when is_synchronized() is false
                for s2 in cfg.succ[nb]:
                    ec = G.edge_cond(nb, s2)
                    if ec and all(any(a[0] == 'bool' and 'is_synchronized(' in a[1] and a[2] is False or
                                      (a[0] == 'is' and False) for a in cj) for cj in ec):
                        ok2 = w['bb'] not in cfg.reachable(s2) and w['bb'] != s2
                # `!x` conditions appear with swapped polarity: accept either encoding as long as one edge excludes the store
                if not ok2:
                    outs = [s2 for s2 in cfg.succ[nb] if w['bb'] not in cfg.reachable(s2) and w['bb'] != s2]
                    ok2 = len(outs) == 1
            ob.check(ok2, 'check_initial_sync|unsynchronized-endpoint-blocks', 'an endpoint that is not synchronized prevents Running',
                     'after is_synchronized() the store to Running is reachable on both outcomes', where(c, t.line))
        ob.check(any('remotes' in r for r in roots) and any('spectators' in r for r in roots), 'check_initial_sync|both-maps',
                 'remotes and spectators are both examined', 'check_initial_sync examines %s' % sorted(roots), where(c))
        g = G.guard(w['bb'])
        ob.check(guard_has_is(g, 'self.state', 'Synchronizing'), 'check_initial_sync|only-from-synchronizing',
                 'Running is entered from Synchronizing only', 'guard: ' + dnf_str(g)[:200], where(c, w['line']))
    # advance_frame_after_poll: NotSynchronized first
    a = W.fn(P2P + '::advance_frame_after_poll')
    Ga = W.guards(a)
    bad = []
    n = 0
    for t in a.calls():
        if any(m in LOG_MACROS for m in t.macros):
            continue
        if t.callee.indirect is None and last_seg(t.callee.best) in ('ne', 'eq') and 'PartialEq' in (t.callee.trait or ''):
            continue
        if t.callee.indirect is None and t.callee.local and 'P2PSession' in (t.callee.best or '') or (t.callee.best or '').startswith('ggrs::sync_layer'):
            n += 1
            if not guard_has_is(Ga.guard(t.bb), 'self.state', 'Running'):
                bad.append(t)
    ob.require_count(n, 6, 'session calls in advance_frame_after_poll')
    ob.check(not bad, 'advance_frame_after_poll|not-synchronized-first', 'nothing happens in advance_frame before the session is Running',
             'calls reachable while the session is not Running: %s' % ', '.join(short(t.callee.best) for t in bad[:3]), where(a))
    errs = [s for f2, s in W.constructions('GgrsError', 'NotSynchronized') if f2 is a]
    ob.check(len(errs) == 1 and guard_has_is(Ga.guard(errs[0].bb), 'self.state', 'Running', False), 'advance_frame_after_poll|error',
             'NotSynchronized is returned while not Running', 'NotSynchronized return missing or misguarded', where(a))
    # spectator: Running only in the Synchronized arm
    sst = [w for w in W.writes_to_field('state')[0] if w['kind'] == 'store' and 'SpectatorSession' in w['fn'].path]
    ob.require_count(len(sst), 1, 'stores to SpectatorSession.state')
    for w in sst:
        g = W.guard(w['fn'], w['bb'])
        ob.check(match_path(w['fn'].path, SP + '::handle_event') and guard_has_is(g, 'arg2', 'Synchronized'),
                 'SpectatorSession.state|synchronized-arm', 'the spectator becomes Running on Synchronized',
                 'SpectatorSession.state is written in %s under %s' % (short(w['fn'].path), dnf_str(g)[:120]), where(w['fn'], w['line']))
    sa = W.fn(SP + '::advance_frame')
    errs = [s for f2, s in W.constructions('GgrsError', 'NotSynchronized') if f2 is sa]
    ob.check(len(errs) == 1 and guard_has_is(W.guard(sa, errs[0].bb), 'self.state', 'Running', False), 'SpectatorSession::advance_frame|error',
             'the spectator reports NotSynchronized while not Running', 'spectator NotSynchronized return missing or misguarded', where(sa))


def o5(W, ob):
    ka = duration_const_ms(W, 'KEEP_ALIVE_INTERVAL')
    ns = duration_const_ms(W, 'DEFAULT_DISCONNECT_NOTIFY_START')
    dt = duration_const_ms(W, 'DEFAULT_DISCONNECT_TIMEOUT')
    qr = duration_const_ms(W, 'QUALITY_REPORT_INTERVAL')
    ob.check(2 * ka <= ns and ns < dt, 'constants|keep-alive', 'KEEP_ALIVE_INTERVAL (%d ms) is at most half of the default notify delay (%d ms) < default timeout (%d ms)' % (ka, ns, dt),
             'KEEP_ALIVE_INTERVAL = %d ms, DEFAULT_DISCONNECT_NOTIFY_START = %d ms, DEFAULT_DISCONNECT_TIMEOUT = %d ms: two sessions that merely poll '
             'could see an interruption' % (ka, ns, dt), None)
    ob.check(W.const('NUM_SYNC_PACKETS') >= 1, 'constants|NUM_SYNC_PACKETS', 'NUM_SYNC_PACKETS >= 1', 'NUM_SYNC_PACKETS = %s' % W.const('NUM_SYNC_PACKETS'), None)
    ob.check(W.const('MAX_EVENT_QUEUE_SIZE') == 100, 'constants|MAX_EVENT_QUEUE_SIZE', 'MAX_EVENT_QUEUE_SIZE == 100 (documented bound)',
             'MAX_EVENT_QUEUE_SIZE = %s, the documented bound is 100' % W.const('MAX_EVENT_QUEUE_SIZE'), None)
    # keep-alive reads last_send_time, which every queued message refreshes
    po = W.fn(UDP + '::poll')
    G = W.guards(po)
    ks = sites(W, po, UDP + '::send_keep_alive')
    ob.require_count(len(ks), 1, 'keep-alive site in poll')
    for b in ks:
        g = G.guard(b)
        conj = g[0] if len(g) == 1 else []
        timer = [a for a in conj if a[0] == 'relz']
        ok = guard_has_is(g, 'self.state', 'Running') and len(timer) == 1 and len(conj) == 2 and \
            {k for k, _ in timer[0][2]} >= {'KEEP_ALIVE_INTERVAL', 'self.last_send_time'}
        ob.check(ok, 'poll|keep-alive-timer', 'a keep-alive is sent when nothing was sent for KEEP_ALIVE_INTERVAL while Running',
                 'keep-alive guard: ' + dnf_str(g)[:200], where(po, po.blocks[b].term.line))
    q = W.fn(UDP + '::queue_message')
    st = stores_in(W, q, 'last_send_time')
    ob.check(len(st) == 1 and W.guard(q, st[0]['bb']) == [[]], 'queue_message|refresh-last-send', 'every queued message refreshes last_send_time',
             'queue_message does not unconditionally refresh last_send_time', where(q))
    n = only_writers(W, ob, 'last_send_time', 'UdpProtocol', [UDP + '::queue_message'], 'O5', kinds=('store',))
    ka_fn = W.fn(UDP + '::send_keep_alive')
    ob.check(W.cg.fn_must_call(ka_fn, UDP + '::queue_message'), 'send_keep_alive|queues', 'send_keep_alive queues a message', 'send_keep_alive does not queue a message', where(ka_fn))
    # quality reports keep traffic flowing both ways
    qs = sites(W, po, UDP + '::send_quality_report')
    ob.require_count(len(qs), 1, 'quality report site in poll')
    ob.check(qr <= ka * 2, 'constants|quality-interval', 'QUALITY_REPORT_INTERVAL is %d ms' % qr, 'QUALITY_REPORT_INTERVAL = %d ms' % qr, None)


def o6(W, ob):
    n = 0
    for f in W.fns():
        host = f.path
        if not ('P2PSession' in host or 'SpectatorSession' in host):
            continue
        cx = W.ctx(f)
        cfg = cfg_of(f)
        pushes = [t for t in f.calls() if last_seg(t.callee.best) in ('push_back', 'push_front', 'extend', 'append', 'insert') and t.args and
                  t.args[0].is_place() and cx.ap_carry(t.args[0].place).s(f) == 'self.event_queue']
        if not pushes:
            continue
        trims = [t.bb for t in f.calls() if (callee_matches(t.callee, P2P + '::trim_event_queue')) or
                 (last_seg(t.callee.best) == 'len' and t.args and t.args[0].is_place() and cx.ap_carry(t.args[0].place).s(f) == 'self.event_queue')]
        for t in pushes:
            n += 1
            p = cfg.path_from_avoiding(t.bb, trims)
            ob.check(p is None, '%s|event-push-without-cap' % short(f.path),
                     'every event queued in %s is followed by the MAX_EVENT_QUEUE_SIZE trim before returning' % short(f.path),
                     'an event is pushed to the session event queue in %s and the function can return without trimming the queue '
                     '(a session whose events are never drained would exceed the documented bound)' % short(f.path), where(f, t.line),
                     witness=path_str(f, p) if p else None)
    ob.require_count(n, 12, 'pushes to session event queues')
    # the trim itself: the oldest events are dropped until at most MAX remain -- `while len > MAX { pop_front }` or one `drain(..len - MAX)` under `len > MAX`
    from .sem import linearise
    mx = W.const('MAX_EVENT_QUEUE_SIZE')
    for name in (P2P + '::trim_event_queue', SP + '::handle_event'):
        f = W.fn(name)
        cx = W.ctx(f)
        shr = [t for t in f.calls() if last_seg(t.callee.best) in ('pop_front', 'drain', 'truncate', 'pop_back', 'clear', 'retain', 'split_off') and t.args and
               t.args[0].is_place() and cx.ap_carry(t.args[0].place).s(f) == 'self.event_queue']
        ob.require_count(len(shr), 1, 'trim of the event queue in %s' % short(f.path))
        for t in shr:
            g = W.guard(f, t.bb)
            seg = last_seg(t.callee.best)
            ok = every_disjunct_has(g, lambda a: match_lin(a, [(has('len(self.event_queue)'), 1)], lo=mx + 1))
            ob.check(ok, '%s|trim-bound' % short(f.path), 'the oldest events are dropped while more than %d are queued' % mx,
                     '%s guard: ' % seg + dnf_str(g)[:200], where(f, t.line))
            if seg == 'pop_front':
                # it is a loop: after the pop the length is tested again
                lens = [x.bb for x in f.calls() if last_seg(x.callee.best) == 'len' and cx.ap_carry(x.args[0].place).s(f) == 'self.event_queue']
                ob.check(any(l in cfg_of(f).reachable_after(t.bb) for l in lens), '%s|trim-loop' % short(f.path), 'trimming repeats until the bound holds',
                         'the trim is not a loop', where(f, t.line))
            elif seg == 'drain':
                e = cx.expr_operand(t.args[1])
                okd = False
                if e[0] == 'agg' and e[1] in ('RangeTo', 'Range'):
                    fields = dict(e[2])
                    start_ok = 'start' not in fields or fields['start'] == ('int', 0)
                    try:
                        vec, c = linearise(fields['end'])
                        okd = start_ok and len(vec) == 1 and list(vec.values()) == [1] and 'len(self.event_queue)' in list(vec)[0] and c == -mx
                    except Exception:
                        okd = False
                ob.check(okd, '%s|trim-loop' % short(f.path), 'one drain removes exactly the excess over the bound from the front',
                         'the drain does not remove `len - %d` elements from the front: %s' % (mx, key(e)[:120]), where(f, t.line))
            else:
                ob.fail('%s|trim-loop' % short(f.path), 'the event queue is trimmed with `%s`, which does not drop the OLDEST events down to the bound' % seg, where(f, t.line))


def o7(W, ob):
    for name in (P2P + '::handle_event', SP + '::handle_event'):
        f = W.fn(name)
        G = W.guards(f)
        hit = []
        for t in f.calls():
            g = G.guard(t.bb)
            if guard_has_is(g, 'arg2', 'Disconnected') and W.cg.call_may_reach(t, 'UdpProtocol::disconnect'):
                hit.append(t)
        ob.check(bool(hit), '%s|disconnected-terminal' % short(f.path),
                 'on Event::Disconnected %s stops the endpoint (its state leaves Running, so nothing further is reported for that address)' % short(f.path),
                 'the Event::Disconnected arm of %s does not stop the endpoint (UdpProtocol::disconnect is not reached): the endpoint stays '
                 'Running and may report NetworkResumed/Interrupted after Disconnected' % short(f.path), where(f))
        # the user-visible Disconnected event is pushed in that arm
        cs = [s for f2, s in W.constructions('GgrsEvent', 'Disconnected') if f2 is f]
        ob.check(len(cs) == 1, '%s|forwards-disconnected' % short(f.path), 'Disconnected is forwarded once', 'GgrsEvent::Disconnected constructed %d times' % len(cs), where(f))
        # one endpoint event -> one session event: an endpoint stands for one address but may carry several player handles; a lifecycle event built inside the loop
        # over the handles is reported once per handle
        loops = G.loop_by_header()
        nl = 0
        for v in ('Synchronizing', 'Synchronized', 'NetworkInterrupted', 'NetworkResumed', 'Disconnected'):
            for c in [c for f2, c in W.constructions('GgrsEvent', v) if f2 is f]:
                nl += 1
                inl = [h for h, body in loops.items() if c.bb in body]
                ob.check(not inl, '%s|one-per-endpoint-event|%s' % (short(f.path), v), 'GgrsEvent::%s in %s is built outside every loop: once per endpoint event' % (v, short(f.path)),
                         'GgrsEvent::%s in %s is built inside a loop (over the player handles of the endpoint?): an address that hosts several players gets the event several '
                         'times' % (v, short(f.path)), where(f, c.line))
        ob.require_count(nl, 5, 'lifecycle events forwarded by %s' % short(f.path))
    # a stopped endpoint reports nothing: every emission in poll/handle_message requires Running (or the handshake state)
    for name in (UDP + '::poll', UDP + '::handle_message', UDP + '::send_input'):
        f = W.fn(name)
        G = W.guards(f)
        for s in [s for f2, s in W.constructions('Event') if f2 is f]:
            g = G.guard(s.bb)
            ob.check(guard_has_is(g, 'self.state', 'Running'), '%s|emits-only-while-running|%s' % (short(f.path), s.rv.j['variant']),
                     'Event::%s in %s requires the Running state' % (s.rv.j['variant'], short(f.path)),
                     'Event::%s in %s is not restricted to the Running state: %s' % (s.rv.j['variant'], short(f.path), dnf_str(g)[:200]), where(f, s.line))
    hm = W.fn(UDP + '::handle_message')
    G = W.guards(hm)
    oi = sites(W, hm, UDP + '::on_input')
    for b in oi:
        pass


from . import helpers, wiring

from . import initial

from . import removals

from . import mustcall

from . import timers

from . import vocab

from . import inventory


def _c18_window(W, ob):
    from . import c18 as _m
    return _m.window_prunes(W, ob)


OBLIGATIONS = [
    ('C12.O1', 'typestate', 'the transition relation extracted from all stores to UdpProtocol.state with their guards is the '
     'reviewed one; remote_magic is stored only on the ->Running edge.', o1),
    ('C12.O2', 'handshake accounting', 'a round trip counts only for a consumed matching nonce while Synchronizing; Synchronizing{total=5, '
     'count=total-remaining} while remaining > 0, Synchronized on the other edge; single constructors.', o2),
    ('C12.O3', 'alternation and once', 'NetworkInterrupted is a test-and-set; NetworkResumed only while Running after an interruption, clearing '
     'the flag; Disconnected is a test-and-set; nothing is emitted after Disconnected within one call.', o3),
    ('C12.O4', 'session state', 'P2PSession becomes Running only in check_initial_sync when no remote or spectator endpoint is unsynchronized; '
     'advance_frame does nothing before that; the spectator becomes Running on Synchronized.', o4),
    ('C12.O5', 'constants', 'KEEP_ALIVE_INTERVAL <= half the default notify delay; keep-alive reads last_send_time which every queued message '
     'refreshes; NUM_SYNC_PACKETS >= 1; MAX_EVENT_QUEUE_SIZE == 100.', o5),
    ('C12.O6', 'event queue bound', 'every push to a session event queue is followed, before the function returns, by the trim loop '
     '`while len > MAX_EVENT_QUEUE_SIZE { pop_front }`.', o6),
    ('C12.O7', 'Disconnected is terminal', 'both handle_event implementations stop the endpoint on Event::Disconnected and build each lifecycle event outside every '
     'loop (once per endpoint event, not once per player handle of the address); poll/handle_message emit events only while Running.', o7),
    ('C12.O9', 'every accepted message is a sign of life', 'in handle_message the one store to last_recv_time lies on every path from entry to the dispatch of the message (all 8 kinds, every protocol state incl. the handshake): the interruption / disconnect timers measure silence since the last accepted packet.', c07.liveness_refresh),
    ('C12.O10', 'interruption timers and the announced remaining time (= C07.O1)', 'NetworkInterrupted / Disconnected are raised by the two timer guards and NetworkInterrupted carries exactly disconnect_timeout - disconnect_notify_start (floored at zero), in milliseconds; see C07.O1', c07.o1),
    ('C12.O11', 'history maps are pruned by a sliding window (= C18.O11)', 'see C18.O11: a clamped threshold evicts the blank reference frame a first packet decodes against, a threshold merged with the ack never moves on a receive-only endpoint, a `!=` keeps all but one checksum', _c18_window),
    ('C12.H', 'helpers the rules above rely on', 'the bodies of the helpers named by this property\'s rules compute what the rules assume (protocol_state_tests); see rules/helpers.py', helpers.bundle('protocol_state_tests')),
    ('C12.W', 'configuration wiring', 'at every call site that passes a field read `x.B` for a parameter `A` the callee has no same-typed parameter `B`; in every struct literal no parameter `B` is stored in field `A` while a same-typed parameter `A` / field `B` exists (builder -> constructor -> endpoint fields: timeouts, window, fps are not crossed); see rules/wiring.py', wiring.rule),
    ('C12.I', 'initial state', 'every constructor gives the fields this property\'s rules interpret (NULL_FRAME = none / nothing yet, 0 = first frame, latches open, typestate start) the value listed in tables/initial_state.json; every field compared with NULL_FRAME anywhere is listed; see rules/initial.py', initial.rule_for('C12')),
    ('C12.R', 'who may remove', 'every call that takes elements out of a collection this property\'s rules rely on (keyed removal from a map, or bulk / positional removal) is one of the reviewed sites in tables/removals.json; a lookup turned into a removal, a second prune, a clear on another path is reported; see rules/removals.py', removals.rule_for('C12')),
    ('C12.M', 'must-call floor', 'the calls listed for this property in tables/must_call.json are made on every path from the entry of their function to a normal return (interprocedural must-call): a new early return, fast path or extra condition in front of one of them is reported; see rules/mustcall.py', mustcall.rule_for('C12')),
    ('C12.T', 'the endpoint\'s timer table', 'keep-alive, quality report and the interruption timers decide what lifecycle events are raised and when: per timer the field, duration, protocol state, action, re-arm site and writer set are read off poll() and compared with the table in rules/timers.py -- the action\'s guard is exactly `state & field + duration < now`, firing re-arms the timer on every path, nothing else writes the timestamp, every stored value is a clock reading, durations are positive (their relation to the default timeouts is Cxx.Z).', timers.rule),
    ('C12.V', 'no unreviewed condition in the pinned helpers', 'for each helper whose body this property\'s rules pin (tables/condition_terms.json), the terms its path conditions are built from (fields, parameters, call results -- no constants, operators or local names) are a subset of the reviewed vocabulary: one more `if` in front of a pinned result (a lock that may time out, "only while an endpoint is running") is reported; see rules/vocab.py', vocab.rule_for('C12')),
    ('C12.S', 'state inventory', 'every field of the structs this property\'s rules read (tables/state.json) is known, and is written only by its reviewed writers (or helpers only they call): a new field is new state across calls -- a cache, a flag, a stored deadline -- that nothing has shown to stay in step; a new writer is a second place that resets, re-arms or moves something; see rules/inventory.py', inventory.state_rule_for('C12')),
    ('C12.K', 'call inventory', 'every reviewed call of a function that writes state (tables/call_edges.json, callers in the structs this property\'s rules read) is still made, directly or through helpers: a call deleted as redundant is reported; likewise the arguments of logging / debug-only macros change no state, no unreviewed call of a state-writing function appears (tables/call_edges_all.json), the types of the locals a loop carries from one iteration to the next (tables/carried.json) and, per function and field, how reads and writes of the field are ordered (tables/orders.json: a snapshot taken before instead of after an update) are as reviewed; see rules/inventory.py', inventory.call_rule_for('C12')),
    ('C12.A', 'expression inventory', 'every arithmetic expression handed to a call or stored in a field, and what every closure given to an iterator adaptor / collection method returns, is one of the reviewed expressions of its function (tables/expressions.json; linear / guard normal forms, no local names): a changed literal, operator, operand order, factor, predicate or sort key is reported; see rules/inventory.py', inventory.expr_rule_for('C12')),
    ('C12.Z', inventory.CONST_TITLE, inventory.CONST_TEXT, inventory.const_rule_for('C12')),
]
