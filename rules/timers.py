"""The endpoint's timer table.  UdpProtocol keeps one timestamp per timer and compares `timestamp + duration < now` in poll().  The table below
says, per timer: which field, which duration, in which protocol state, what runs when it fires, where the timestamp is re-armed, and who else may
write it.  All of it is read off the typed MIR on every run:

  guard     the action's essential guard in poll() is exactly `state is S` and `now - field - duration > 0` (the pair is not mixed with another timer's);
  re-arm    firing re-arms the timer: the action must-calls the function that stores the field, and that store happens on every path of that function;
  writers   nothing else writes the field; every value stored is a clock reading taken in the storing function (never another timer's field, a
            parameter, or a constant), shutdown_timeout being now + UDP_SHUTDOWN_TIMER;
  values    every duration is positive (their relation to the default timeouts is a constant relation, Cxx.Z).

Why it matters: a timer that shares a timestamp with another (the 0.12 handshake regression), is re-armed by unrelated traffic, or is not re-armed when
it fires either floods the peer or never fires again."""
from .lib import *
from .sem import key, dnf_str

UDP = 'network::protocol::UdpProtocol'
TIMERS = [
    # field, duration const, state, action fired in poll, function that re-arms (stores the field), all writers
    ('last_sync_request_time', 'SYNC_RETRY_INTERVAL', 'Synchronizing', 'send_sync_request', 'send_sync_request', ['send_sync_request']),
    ('running_last_input_recv', 'RUNNING_RETRY_INTERVAL', 'Running', 'send_pending_output', 'poll', ['poll', 'on_input']),
    ('running_last_quality_report', 'QUALITY_REPORT_INTERVAL', 'Running', 'send_quality_report', 'send_quality_report', ['send_quality_report']),
    ('last_send_time', 'KEEP_ALIVE_INTERVAL', 'Running', 'send_keep_alive', 'queue_message', ['queue_message']),
]


def _timer_atom(a, field, dur):
    if a[0] != 'relz' or a[3] != 0:
        return False
    v = dict(a[2])
    want = {'Instant::now()': 1, 'self.' + field: -1, dur: -1}
    if v == want:
        return a[1] in ('Gt', 'Ge')
    if v == {k: -c for k, c in want.items()}:
        return a[1] in ('Lt', 'Le')
    return False


def rule(W, ob):
    p = W.fn(UDP + '::poll')
    G = W.guards(p)
    cfg = cfg_of(p)
    for field, dur, state, action, rearm, writers_ in TIMERS:
        W.require_field('UdpProtocol', field)
        ms = duration_const_ms(W, dur)
        ob.check(ms > 0, 'timer|%s|duration' % field, '%s is a positive duration (%d ms)' % (dur, ms), '%s = %s ms: a timer of zero length fires on every poll' % (dur, ms), None)
        acts = [t for t in p.calls() if callee_matches(t.callee, UDP + '::' + action)]
        ob.check(len(acts) == 1, 'timer|%s|action-site' % field, 'poll fires %s at one site' % action, 'poll has %d call(s) of %s' % (len(acts), action), where(p))
        for t in acts:
            eg = G.essential_guard(t.bb)
            ok = bool(eg) and all(len(c) == 2 and any(a == ('is', 'self.state', state, True) for a in c) and any(_timer_atom(a, field, dur) for a in c) for c in eg)
            ob.check(ok, 'timer|%s|guard' % field, '%s fires exactly while %s and %s + %s < now' % (action, state, field, dur),
                     '%s is fired under `%s`; expected exactly `state is %s & %s + %s < now`' % (action, dnf_str(eg)[:300], state, field, dur), where(p, t.line))
            # firing re-arms
            rf = W.fn(UDP + '::' + rearm)
            st = stores_in(W, rf, field)
            if rf is p:
                okr = any(cfg.path_from_avoiding(t.bb, [w['bb']]) is None for w in st)
            else:
                okr = (rearm == action or W.cg.fn_must_call(W.fn(UDP + '::' + action), UDP + '::' + rearm)) and \
                    any(cfg_of(rf).path_avoiding(cfg_of(rf).returns, [w['bb']]) is None for w in st)
            ob.check(okr, 'timer|%s|re-arm' % field, 'firing %s re-arms %s (stored in %s on every path)' % (action, field, rearm),
                     'after %s fired, %s is not re-armed on every path (%s): the action repeats on every poll, or never again' % (action, field, rearm), where(rf))
        only_writers(W, ob, field, 'UdpProtocol', [UDP + '::' + w for w in writers_], 'timer', kinds=('store',))
    # every timestamp stored is a clock reading
    n = 0
    for w in W.writes():
        if w['kind'] != 'store':
            continue
        f = w['fn']
        if f.derived or not match_path(f.parent if f.kind == 'closure' and f.parent else f.path, UDP + '::*') and UDP not in f.path:
            continue
        ap = w['ap'].s(f, generic=True)
        fld = ap[5:] if ap.startswith('self.') else None
        if fld not in ('last_sync_request_time', 'running_last_input_recv', 'running_last_quality_report', 'last_send_time', 'last_recv_time', 'shutdown_timeout'):
            continue
        site = w['site']
        cx = W.ctx(f)
        v = key(cx.expr_rvalue(site.rv)) if hasattr(site, 'rv') else key(cx.expr_call(site))
        n += 1
        if fld == 'shutdown_timeout':
            ok = v in ('(Instant::now() Add Duration::from_millis(UDP_SHUTDOWN_TIMER))', 'Add::add(Instant::now(), Duration::from_millis(UDP_SHUTDOWN_TIMER))',
                       'Instant::add(Instant::now(), Duration::from_millis(UDP_SHUTDOWN_TIMER))')
        else:
            ok = v == 'Instant::now()'
        ob.check(ok, 'timer|%s|value|%s' % (fld, short(f.path)), '%s stores a clock reading into %s' % (short(f.path), fld),
                 '%s stores `%s` into %s: a timer must be armed from the clock, not from another timer, a parameter or a computed instant' % (short(f.path), v[:100], fld), where(f, w['line']))
    ob.require_count(n, 7, 'timestamp stores in the endpoint')
    ob.check(W.const('UDP_SHUTDOWN_TIMER') > 0, 'timer|shutdown|duration', 'the shutdown linger is positive (%s ms)' % W.const('UDP_SHUTDOWN_TIMER'), 'UDP_SHUTDOWN_TIMER = %s' % W.const('UDP_SHUTDOWN_TIMER'), None)
    # the shutdown transition: Disconnected -> Shutdown under shutdown_timeout < now
    stt = [w for w in stores_in(W, p, 'state')]
    for w in stt:
        g = G.guard(w['bb'])
        ok = every_disjunct_has(g, lambda a: a == ('is', 'self.state', 'Disconnected', True)) and \
            every_disjunct_has(g, lambda a: a[0] == 'relz' and dict(a[2]) in ({'Instant::now()': 1, 'self.shutdown_timeout': -1}, {'Instant::now()': -1, 'self.shutdown_timeout': 1}))
        ob.check(ok, 'timer|shutdown|guard', 'a disconnected endpoint shuts down once shutdown_timeout has passed', 'poll changes the state under `%s`' % dnf_str(g)[:200], where(p, w['line']))
