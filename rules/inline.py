"""Helper inlining on the fact file (before any rule sees it).

A function of the crate that did not exist when the tables were reviewed (tables/call_edges_all.json lists the functions that did) is an EXTRACTED
HELPER: the code it holds used to stand in its callers.  Every rule is written against the callers, so the body of such a helper is spliced back into
each call site -- arguments become assignments to the callee's parameter locals, `return` becomes a jump to the call's continuation with the callee's
`_0` copied into the call's destination.  The effect: extracting a helper (the commonest behaviour-preserving edit there is) leaves every rule looking
at the control-flow graph it was written for, and a slip made inside the extracted helper is seen at the place the rule looks.

Bounds: at most 6 rounds (helpers calling helpers), at most 60 splices per function, no recursion (a helper that reaches itself is left alone).  The
standalone copy of the helper stays in the fact file (inventories still see that it exists).  Closures defined in a helper that has exactly one caller are
re-parented to that caller, so that capture resolution finds the closure aggregate where it now stands."""
import copy

from .facts import strip_generics


def _short(path):
    segs = path.split('::')
    return '::'.join(segs[-2:]) if not path.startswith('<') else path


def _shift_place(p, off):
    q = {'l': p['l'] + off, 'p': []}
    for e in p['p']:
        if isinstance(e, dict) and 'idx' in e:
            e = dict(e)
            e['idx'] = e['idx'] + off
        q['p'].append(e)
    return q


def _shift_operand(o, off):
    if 'cp' in o:
        return {'cp': _shift_place(o['cp'], off)}
    if 'mv' in o:
        return {'mv': _shift_place(o['mv'], off)}
    return o


def _shift_rv(rv, off):
    rv = dict(rv)
    for k in ('a', 'b'):
        if k in rv:
            rv[k] = _shift_operand(rv[k], off)
    if 'p' in rv:
        rv['p'] = _shift_place(rv['p'], off)
    if 'ops' in rv:
        rv['ops'] = [_shift_operand(o, off) for o in rv['ops']]
    return rv


def _shift_block(b, off, boff, ret_to, dest):
    nb = {'cleanup': b['cleanup'], 'stmts': []}
    for s in b['stmts']:
        s2 = dict(s)
        s2['place'] = _shift_place(s['place'], off)
        if 'rv' in s:
            s2['rv'] = _shift_rv(s['rv'], off)
        nb['stmts'].append(s2)
    t = dict(b['term'])
    k = t['k']
    for key in ('t', 'unwind', 'otherwise'):
        if t.get(key) is not None and isinstance(t.get(key), int):
            t[key] = t[key] + boff
    if k == 'switch':
        t['discr'] = _shift_operand(t['discr'], off)
        t['targets'] = [[v, bb + boff] for v, bb in t['targets']]
    elif k == 'call':
        t['args'] = [_shift_operand(a, off) for a in t['args']]
        t['dest'] = _shift_place(t['dest'], off)
        c = t['callee']
        if 'indirect' in c:
            c = dict(c)
            c['indirect'] = _shift_operand(c['indirect'], off)
            t['callee'] = c
    elif k == 'assert':
        t['cond'] = _shift_operand(t['cond'], off)
        if isinstance(t.get('msg'), dict):
            t['msg'] = {mk: (_shift_operand(mv, off) if isinstance(mv, dict) and ('cp' in mv or 'mv' in mv) else mv) for mk, mv in t['msg'].items()}
    elif k == 'drop':
        t['place'] = _shift_place(t['place'], off)
    elif k == 'return':
        nb['stmts'].append({'k': 'assign', 'place': dest, 'rv': {'k': 'use', 'a': {'mv': {'l': off, 'p': []}}}, 'span': t['span']})
        t = {'k': 'goto', 't': ret_to, 'span': t['span']}
    nb['term'] = t
    return nb


def inline_new_helpers(j, reviewed, max_rounds=6, max_splices=60):
    """j: the raw fact dict of the ggrs crate; reviewed: set of short names of the functions that existed at review time.  Returns the list of
    (helper, caller) splices performed."""
    fns = j['fns']
    by_path = {}
    for f in fns:
        if f['kind'] in ('fn', 'method'):
            by_path.setdefault(strip_generics(f['path']), []).append(f)

    def is_new(p, f):
        return not f['span'].get('mac') and 'tests' not in p and _short(p) not in reviewed and not p.startswith('<') and f.get('blocks')
    new = {p: l[0] for p, l in by_path.items() if len(l) == 1 and is_new(p, l[0])}
    if not new:
        return []

    def callee_of(t):
        c = t.get('callee') or {}
        for key in ('rpath', 'path'):
            p = strip_generics(c.get(key)) if c.get(key) else None
            if p in new:
                return p
        return None
    # helpers that can reach themselves are left alone
    reach = {p: {callee_of(b['term']) for b in g['blocks'] if b['term']['k'] == 'call'} - {None} for p, g in new.items()}
    changed = True
    while changed:
        changed = False
        for p in reach:
            add = set().union(*[reach[q] for q in reach[p]]) if reach[p] else set()
            if not add <= reach[p]:
                reach[p] |= add
                changed = True
    new = {p: g for p, g in new.items() if p not in reach[p]}
    pristine = {p: copy.deepcopy(g) for p, g in new.items()}
    done = []
    for _ in range(max_rounds):
        any_splice = False
        for f in fns:
            fpath = strip_generics(f['path'])
            n = 0
            bi = 0
            while bi < len(f['blocks']) and n < max_splices:
                b = f['blocks'][bi]
                t = b['term']
                gp = callee_of(t) if t['k'] == 'call' and not b['cleanup'] else None
                if gp is None or gp == fpath or t.get('t') is None:
                    bi += 1
                    continue
                g = pristine[gp]
                off = len(f['locals'])
                boff = len(f['blocks']) + 1
                f['locals'].extend(copy.deepcopy(g['locals']))
                entry = {'cleanup': False, 'stmts': [], 'term': {'k': 'goto', 't': boff, 'span': t['span']}}
                for i, a in enumerate(t['args']):
                    entry['stmts'].append({'k': 'assign', 'place': {'l': off + 1 + i, 'p': []}, 'rv': {'k': 'use', 'a': a}, 'span': t['span']})
                f['blocks'].append(entry)
                for gb in g['blocks']:
                    f['blocks'].append(_shift_block(gb, off, boff, t['t'], t['dest']))
                b['term'] = {'k': 'goto', 't': boff - 1, 'span': t['span']}
                done.append((gp, fpath))
                n += 1
                any_splice = True
                bi += 1
        if not any_splice:
            break
    # closures of a helper with one caller now live in that caller
    callers = {}
    for gp, fp in done:
        callers.setdefault(gp, set()).add(fp)
    for f in fns:
        if f['kind'] == 'closure':
            for key in ('parent', 'direct_parent'):
                p = strip_generics(f.get(key)) if f.get(key) else None
                hops = 0
                while p in callers and len(callers[p]) == 1 and hops < 6:
                    tgt = next(iter(callers[p]))
                    host = [x for x in fns if strip_generics(x['path']) == tgt]
                    if host and host[0]['kind'] == 'closure' and key == 'parent':
                        tgt = strip_generics(host[0].get('parent') or tgt)
                    f[key] = tgt
                    p = tgt
                    hops += 1
    # a helper whose every call was spliced is fully represented in its callers: the standalone copy would only show the rules a fragment out of context
    # (an AdvanceFrame built from a parameter, a store with no guard in sight) -- drop it unless something still calls or names it
    spliced = {gp for gp, _ in done}
    still = set()
    for f in fns:
        if strip_generics(f['path']) in spliced:
            continue
        for b in f['blocks']:
            t = b['term']
            if t['k'] == 'call':
                gp = callee_of(t)
                if gp:
                    still.add(gp)
            for s2 in b['stmts']:
                for o in [s2.get('rv', {}).get('a'), s2.get('rv', {}).get('b')] + list(s2.get('rv', {}).get('ops', [])):
                    if o and 'c' in o and isinstance(o['c'], dict) and o['c'].get('fn') and strip_generics(o['c']['fn']) in spliced:
                        still.add(strip_generics(o['c']['fn']))
            for a in (t.get('args') or []):
                if 'c' in a and isinstance(a['c'], dict) and a['c'].get('fn') and strip_generics(a['c']['fn']) in spliced:
                    still.add(strip_generics(a['c']['fn']))
    gone = {gp for gp in spliced if gp not in still and not new[gp].get('pub')}
    j['fns'] = [f for f in fns if strip_generics(f['path']) not in gone]
    return done
