"""C15 -- time-sync estimates right, wait advice sane (structural part)."""
import re
from .lib import *
from .cfg import cfg_of, callee_matches
from .sem import key, dnf_str
from . import c01

LEVEL = 'other'
EXPLANATION = ('Static rule checking: the single WaitRecommendation constructor is guarded by frames_ahead >= MIN_RECOMMENDATION(3) and '
               'current_frame > next_recommended_sleep, carries frames_ahead, and re-arms the cadence by RECOMMENDATION_INTERVAL(60); frames_ahead comes '
               'from max_frame_advantage; the stats guards (NotSynchronized / NotEnoughData) dominate Ok; the quality-report plumbing stores every '
               'received frame advantage unconditionally and reports local/remote from the right fields; wall-clock differences saturate; the time-sync '
               'window is written once per sent input. The numerical estimates themselves are NOT decided.')
NOT_DECIDED = ['frames_ahead() settles at +-k for a steady lead k', 'ping within one tick of the true round-trip time']
ASSUMPTIONS = c01.ASSUMPTIONS

P2P = c01.P2P
UDP = c01.UDP


def o1(W, ob):
    cons = W.constructions('GgrsEvent', 'WaitRecommendation')
    ob.require_count(len(cons), 1, 'WaitRecommendation constructors')
    minrec = W.const('MIN_RECOMMENDATION')
    interval = W.const('RECOMMENDATION_INTERVAL')
    ob.check(minrec == 3 and interval == 60, 'constants|recommendation', 'MIN_RECOMMENDATION == 3 and RECOMMENDATION_INTERVAL == 60 as documented',
             'MIN_RECOMMENDATION = %s, RECOMMENDATION_INTERVAL = %s (documented: 3 and 60)' % (minrec, interval), None)
    for f, s in cons:
        if not match_path(f.path, P2P + '::check_wait_recommendation'):
            ob.fail('WaitRecommendation|constructor|%s' % short(f.path), 'WaitRecommendation is constructed in %s' % short(f.path), where(f, s.line))
            continue
        cx = W.ctx(f)
        G = W.guards(f)
        g = G.guard(s.bb)
        gate = every_disjunct_has(g, lambda a: match_lin(a, [(exact('self.frames_ahead'), 1)], lo=minrec))
        cadence = every_disjunct_has(g, lambda a: match_lin(a, [(exact('self.sync_layer.current_frame'), 1), (exact('self.next_recommended_sleep'), -1)], lo=1))
        ob.check(gate and cadence, 'check_wait_recommendation|gate', 'a recommendation is raised only while frames_ahead >= 3 and current_frame > next_recommended_sleep',
                 'WaitRecommendation is raised under `%s`' % dnf_str(g)[:200], where(f, s.line))
        v = key(cx.expr_operand(s.rv.ops[0]))
        # `unsigned_abs` / `as u32` of a value the gate has shown to be >= 3 is that value
        okv = v == 'self.frames_ahead' or (gate and v in ('num::unsigned_abs(self.frames_ahead)', 'unsigned_abs(self.frames_ahead)', 'i32::unsigned_abs(self.frames_ahead)'))
        ob.check(okv, 'check_wait_recommendation|skip_frames', 'skip_frames carries frames_ahead', 'skip_frames := %s' % v, where(f, s.line))
        st = stores_in(W, f, 'next_recommended_sleep')
        cfg = cfg_of(f)
        ok = len(st) == 1 and key(cx.expr_rvalue(st[0]['site'].rv)) == '(self.sync_layer.current_frame Add RECOMMENDATION_INTERVAL)' and \
            (st[0]['bb'] == s.bb or cfg.path_avoiding([s.bb], [st[0]['bb']]) is None or cfg.path_from_avoiding(s.bb, [st[0]['bb']]) is None) and \
            G.guard(st[0]['bb']) == g
        ob.check(ok, 'check_wait_recommendation|cadence', 'every recommendation pushes the next one RECOMMENDATION_INTERVAL frames out',
                 'next_recommended_sleep is not re-armed to current_frame + RECOMMENDATION_INTERVAL on the path that raises the event', where(f, s.line))
        fa = stores_in(W, f, 'frames_ahead')
        ok = len(fa) == 1 and key(cx.expr_rvalue(fa[0]['site'].rv)) == 'P2PSession::max_frame_advantage(self)' and G.guard(fa[0]['bb']) == [[]] and \
            cfg.path_avoiding([s.bb], [fa[0]['bb']]) is None
        ob.check(ok, 'check_wait_recommendation|frames_ahead-source', 'frames_ahead is refreshed from max_frame_advantage() before the gate',
                 'frames_ahead is not unconditionally refreshed from max_frame_advantage() before the gate', where(f))
    only_writers(W, ob, 'next_recommended_sleep', 'P2PSession', [P2P + '::check_wait_recommendation'], 'O1', kinds=('store',))
    only_writers(W, ob, 'frames_ahead', 'P2PSession', [P2P + '::check_wait_recommendation'], 'O1', kinds=('store',))
    a = W.fn(P2P + '::advance_frame_after_poll')
    ob.check(W.cg.fn_must_call(a, P2P + '::check_wait_recommendation') or bool(sites(W, a, P2P + '::check_wait_recommendation')), 'advance_frame_after_poll|checks-recommendation',
             'the recommendation is evaluated on every successful advance', 'check_wait_recommendation is not called from advance_frame_after_poll', where(a))
    m = W.fn(P2P + '::max_frame_advantage')
    cx = W.ctx(m)
    G = W.guards(m)
    mx = [t for t in m.calls() if last_seg(t.callee.best) == 'max']
    def from_avg(op):
        src = trace_back(W, m, op, strict=True)
        return bool(src) and src[0] == 'call' and callee_matches(src[1].callee, 'UdpProtocol::average_frame_advantage')
    ok = len(mx) == 1 and any(from_avg(x) for x in mx[0].args) and \
        every_disjunct_has(G.guard(mx[0].bb), lambda x: x[0] == 'bool' and x[1].endswith('.disconnected') and x[2] is False)
    if not ok and len(mx) == 1 and 'Iterator' in (mx[0].callee.path or '') and not [t for t in m.calls() if last_seg(t.callee.best) in ('fold', 'reduce', 'try_fold')]:
        # the same reduction as an iterator chain: `endpoints.filter(|e| e.handles().any(|h| !status[h].disconnected)).map(|e| e.average_frame_advantage()).max().unwrap_or(0)`
        # -- Iterator::max over a `map` whose closure is the average, downstream of a `filter` whose predicate is "some handle is not disconnected"; the empty
        # case must be answered by the Option (unwrap_or / map_or), not by a seed value that takes part in the maximum (fold(0, max) clamps negative leads to 0)
        def all_closures(f, depth=0):
            r = []
            for c in W.closures_of(f):
                r.append(c)
                if depth < 3:
                    r.extend(all_closures(c, depth + 1))
            return r
        cl = all_closures(m)
        maps_avg = any(any(callee_matches(t.callee, 'UdpProtocol::average_frame_advantage') for t in c.calls()) for c in cl)
        adaptors = {last_seg(t.callee.best) for t in m.calls()}
        negated_flag = False
        for c in cl:
            for st in c.stmts():
                if st.k == 'assign' and st.rv.k == 'un' and st.rv.op == 'Not' and st.rv.a.is_place():
                    src = W.ctx(c).expr_operand(st.rv.a)
                    if key(src).endswith('.disconnected'):
                        negated_flag = True
        ok = maps_avg and negated_flag and 'filter' in adaptors and 'map' in adaptors and bool(adaptors & {'unwrap_or', 'unwrap_or_default', 'map_or'})
    ob.check(ok, 'max_frame_advantage|max-over-connected', 'frames_ahead is the maximum average advantage over the connected remote players',
             'max_frame_advantage is not a max over `!disconnected` handles of average_frame_advantage()', where(m))


def o2(W, ob):
    n = W.fn(UDP + '::network_stats')
    G = W.guards(n)
    oks = [s for f2, s in W.constructions('NetworkStats') if f2 is n]
    ob.require_count(len(oks), 1, 'NetworkStats construction')
    cx = W.ctx(n)
    for s in oks:
        g = G.guard(s.bb)
        st = bool(g) and all(any(a[0] == 'is' and a[1] == 'self.state' and a[3] and a[2] in ('Synchronizing', 'Running') for a in c) for c in g)
        secs = every_disjunct_has(g, lambda a: a[0] in ('ne', 'lin') and 'stats_start_time' in repr(a) and 'Div 1000' in repr(a))
        ob.check(st and secs, 'network_stats|guards', 'numbers are returned only while Synchronizing/Running and after a full second of data',
                 'NetworkStats is returned under `%s`' % dnf_str(g)[:240], where(n, s.line))
        fields = dict(zip(s.rv.j['fields'], s.rv.ops))
        want = {'ping': 'self.round_trip_time', 'local_frames_behind': 'self.local_frame_advantage', 'remote_frames_behind': 'self.remote_frame_advantage',
                'send_queue_len': 'len(self.pending_output)'}
        for k, v in want.items():
            got = key(cx.expr_operand(fields[k]))
            ob.check(got == v, 'network_stats|field|%s' % k, 'NetworkStats.%s reports %s' % (k, v), 'NetworkStats.%s := %s (expected %s)' % (k, got, v), where(n, s.line))
    for v in ('NotSynchronized', 'NotEnoughData'):
        es = [s for f2, s in W.constructions('GgrsError', v) if f2 is n]
        ob.check(len(es) == 1, 'network_stats|error|%s' % v, 'network_stats can return %s' % v, 'network_stats lost its %s return' % v, where(n))
    # quality report plumbing
    r = W.fn(UDP + '::on_quality_report')
    st = stores_in(W, r, 'remote_frame_advantage')
    ok = len(st) == 1 and key(W.ctx(r).expr_rvalue(st[0]['site'].rv)) == 'arg2.frame_advantage' and W.guard(r, st[0]['bb']) == [[]]
    ob.check(ok, 'on_quality_report|store-unconditionally', 'every received quality report updates remote_frame_advantage with the reported value',
             'on_quality_report does not unconditionally store the reported frame advantage (a stale value would distort frames_ahead and the stats)', where(r))
    ob.check(W.cg.fn_must_call(r, UDP + '::queue_message'), 'on_quality_report|reply', 'every quality report is answered with a reply',
             'on_quality_report does not always reply', where(r))
    only_writers(W, ob, 'remote_frame_advantage', 'UdpProtocol', [UDP + '::on_quality_report'], 'O2', kinds=('store',))
    only_writers(W, ob, 'local_frame_advantage', 'UdpProtocol', [UDP + '::update_local_frame_advantage'], 'O2', kinds=('store',))
    only_writers(W, ob, 'round_trip_time', 'UdpProtocol', [UDP + '::on_quality_reply'], 'O2', kinds=('store',))
    s = W.fn(UDP + '::send_quality_report')
    cxs = W.ctx(s)
    qr = [x for f2, x in W.constructions('QualityReport') if f2 is s]
    ob.require_count(len(qr), 1, 'QualityReport construction')
    for x in qr:
        fields = dict(zip(x.rv.j['fields'], x.rv.ops))
        fa = key(cxs.expr_operand(fields['frame_advantage']))
        pg = key(cxs.expr_operand(fields['ping']))
        ob.check('self.local_frame_advantage' in fa and 'clamp' in fa, 'send_quality_report|frame_advantage', 'the report carries the (clamped) local frame advantage',
                 'QualityReport.frame_advantage := %s' % fa[:100], where(s, x.line))
        ob.check('SystemTime::now()' in pg or 'millis_since_epoch' in pg, 'send_quality_report|ping', 'the report carries the send time', 'QualityReport.ping := %s' % pg[:80], where(s, x.line))
    rp = [x for f2, x in W.constructions('QualityReply') if f2 is r]
    for x in rp:
        v = key(W.ctx(r).expr_operand(x.rv.ops[0]))
        ob.check(v == 'arg2.ping', 'on_quality_report|pong', 'the reply echoes the ping', 'QualityReply.pong := %s' % v, where(r, x.line))
    q = W.fn(UDP + '::on_quality_reply')
    st = stores_in(W, q, 'round_trip_time')
    ok = len(st) == 1 and re.match(r'^(?:\w+::)*saturating_sub\((?:\w+::)*millis_since_epoch\(\), arg2\.pong\)$', key(W.ctx(q).expr_rvalue(st[0]['site'].rv))) is not None
    ob.check(ok, 'on_quality_reply|rtt', 'round_trip_time = now saturating-minus pong', 'round_trip_time is not computed with saturating_sub from the echoed pong', where(q))
    # sibling rule: every difference of wall-clock readings saturates (the clock may step backwards)
    nsub = 0
    for f in W.fns():
        if 'UdpProtocol' not in f.path:
            continue
        cxf = W.ctx(f)
        for b in f.blocks:
            if b.cleanup:
                continue
            for st_ in b.stmts:
                if st_.k == 'assign' and st_.rv.k == 'bin' and st_.rv.op in ('Sub', 'SubWithOverflow', 'SubUnchecked'):
                    ka = key(cxf.expr_operand(st_.rv.a))
                    if 'SystemTime::now()' in ka or 'millis_since_epoch(' in ka:
                        nsub += 1
                        ob.fail('%s|wall-clock-difference-not-saturating' % short(f.path),
                                '%s subtracts from a wall-clock reading with a plain `-` (`%s - %s`): a backward clock step (NTP) overflows -- panic with overflow '
                                'checks, garbage statistics without; the sibling on_quality_reply uses saturating_sub for the same reason' % (
                                    short(f.path), ka[:60], key(cxf.expr_operand(st_.rv.b))[:60]), where(f, st_.line))
            t = b.term
            if t.k == 'call' and t.callee.indirect is None and last_seg(t.callee.best) == 'saturating_sub' and t.args and \
                    ('SystemTime::now()' in key(cxf.expr_operand(t.args[0])) or 'millis_since_epoch(' in key(cxf.expr_operand(t.args[0]))):
                nsub += 1
                ob.ok('wall-clock difference in %s saturates' % short(f.path), where(f, t.line))
    ob.require_count(nsub, 2, 'wall-clock differences (network_stats, on_quality_reply)')
    # the time-sync window: written once per sent input with both advantages
    si = W.fn(UDP + '::send_input')
    ts = [t for t in si.calls() if callee_matches(t.callee, 'TimeSync::advance_frame')]
    ob.require_count(len(ts), 1, 'TimeSync::advance_frame call in send_input')
    for t in ts:
        ks = [key(W.ctx(si).expr_operand(a)) for a in t.args[1:]]
        ob.check(ks[1:] == ['self.local_frame_advantage', 'self.remote_frame_advantage'] and ks[0].endswith('.frame'), 'send_input|time-sync-sample',
                 'each sent input records (frame, local advantage, remote advantage)', 'TimeSync::advance_frame(%s)' % ks, where(si, t.line))
    ta = W.fn('TimeSync::advance_frame')
    wr = [w for w in W.writes() if w['fn'] is ta and w['kind'] == 'store']
    ok = len(wr) == 2 and {(w['ap'].fields()[0], key(W.ctx(ta).expr_rvalue(w['site'].rv))) for w in wr} == {('local', 'arg3'), ('remote', 'arg4')}
    ob.check(ok, 'TimeSync::advance_frame|slots', 'local advantage goes to the local window and remote to the remote window',
             'TimeSync::advance_frame stores %s' % [(w['ap'].s(ta), key(W.ctx(ta).expr_rvalue(w['site'].rv))) for w in wr], where(ta))
    av = W.fn('TimeSync::average_frame_advantage')
    e = W.ctx(av).expr_place(__import__('rules.facts', fromlist=['Place']).Place({'l': 0, 'p': []}))
    k = key(e)
    ob.check(re.sub(r'\s+', ' ', k) in ('(((Iterator::sum(self.remote[*]) Div len(self.remote)) Sub (Iterator::sum(self.local[*]) Div len(self.local))) Div 2f32)',
                                          '((Iterator::sum(self.remote[*]) Div len(self.remote)) Sub (Iterator::sum(self.local[*]) Div len(self.local))) Div 2f32') or
             ('remote' in k and 'local' in k and k.index('remote') < k.index('local') and k.count('Div') == 3 and k.count('Sub') == 1 and k.rstrip(')').endswith('Div 2f32') and 'Mul' not in k and 'Add' not in k), 'average_frame_advantage|meet-in-the-middle',
             'average_frame_advantage = (remote_avg - local_avg) / 2', 'average_frame_advantage returns `%s`' % k[:160], where(av))
    u = W.fn(UDP + '::update_local_frame_advantage')
    st = stores_in(W, u, 'local_frame_advantage')
    ok = len(st) == 1
    if ok:
        v = key(W.ctx(u).expr_rvalue(st[0]['site'].rv))
        ok = v.startswith('((UdpProtocol::last_recv_frame(self) Add') and v.endswith('Sub arg2)') and 'round_trip_time Div 2' in v and 'self.fps' in v
    ob.check(ok, 'update_local_frame_advantage|formula', 'local advantage = (last received frame + half RTT in frames) - local frame',
             'local_frame_advantage := %s' % (key(W.ctx(u).expr_rvalue(st[0]['site'].rv))[:160] if st else '?'), where(u))


from . import initial

from . import casts

from . import mustcall

from . import vocab

from . import inventory

OBLIGATIONS = [
    ('C15.O1', 'the recommendation', 'WaitRecommendation has one constructor, guarded by frames_ahead >= 3 and current > next_recommended_sleep, carrying frames_ahead, '
     're-arming next_recommended_sleep = current + 60 on the same path; frames_ahead is refreshed from max_frame_advantage (max over connected players).', o1),
    ('C15.O2', 'stats guards and plumbing', 'Ok(NetworkStats) only while Synchronizing/Running with >= 1 s of data, fields from the right sources; every quality report '
     'is stored unconditionally and answered; RTT saturates; time-sync samples and the meet-in-the-middle average keep their shape.', o2),
    ('C15.I', 'initial state', 'every constructor gives the fields this property\'s rules interpret (NULL_FRAME = none / nothing yet, 0 = first frame, latches open, typestate start) the value listed in tables/initial_state.json; every field compared with NULL_FRAME anywhere is listed; see rules/initial.py', initial.rule_for('C15')),
    ('C15.C', 'lossy integer casts', 'every sign-changing cast (signed -> unsigned; NULL_FRAME is -1) and every narrowing cast to < 32 bits or from 128 bits in the crate is in range by a dominating guard, by the shape of its operand, or listed with a reason in tables/casts.json; see rules/casts.py', casts.rule),
    ('C15.M', 'must-call floor', 'the calls listed for this property in tables/must_call.json are made on every path from the entry of their function to a normal return (interprocedural must-call): a new early return, fast path or extra condition in front of one of them is reported; see rules/mustcall.py', mustcall.rule_for('C15')),
    ('C15.V', 'no unreviewed condition in the pinned helpers', 'for each helper whose body this property\'s rules pin (tables/condition_terms.json), the terms its path conditions are built from (fields, parameters, call results -- no constants, operators or local names) are a subset of the reviewed vocabulary: one more `if` in front of a pinned result (a lock that may time out, "only while an endpoint is running") is reported; see rules/vocab.py', vocab.rule_for('C15')),
    ('C15.S', 'state inventory', 'every field of the structs this property\'s rules read (tables/state.json) is known, and is written only by its reviewed writers (or helpers only they call): a new field is new state across calls -- a cache, a flag, a stored deadline -- that nothing has shown to stay in step; a new writer is a second place that resets, re-arms or moves something; see rules/inventory.py', inventory.state_rule_for('C15')),
    ('C15.K', 'call inventory', 'every reviewed call of a function that writes state (tables/call_edges.json, callers in the structs this property\'s rules read) is still made, directly or through helpers: a call deleted as redundant is reported; likewise the arguments of logging / debug-only macros change no state, no unreviewed call of a state-writing function appears (tables/call_edges_all.json), the types of the locals a loop carries from one iteration to the next (tables/carried.json) and, per function and field, how reads and writes of the field are ordered (tables/orders.json: a snapshot taken before instead of after an update) are as reviewed; see rules/inventory.py', inventory.call_rule_for('C15')),
    ('C15.A', 'expression inventory', 'every arithmetic expression handed to a call or stored in a field, and what every closure given to an iterator adaptor / collection method returns, is one of the reviewed expressions of its function (tables/expressions.json; linear / guard normal forms, no local names): a changed literal, operator, operand order, factor, predicate or sort key is reported; see rules/inventory.py', inventory.expr_rule_for('C15')),
    ('C15.Z', inventory.CONST_TITLE, inventory.CONST_TEXT, inventory.const_rule_for('C15')),
]
