"""Analysis H: enumeration of hash-order-dependent iteration sites with a computed consumer/effect signature."""
import re
from .cfg import cfg_of, callee_matches, match_path
from .sem import key, last_seg, LOG_MACROS
from .world import Effects

ITER_STARTS = {'iter', 'iter_mut', 'values', 'values_mut', 'keys', 'into_iter', 'drain', 'retain', 'into_keys', 'into_values',
               'extract_if', 'retain_mut'}
ADAPTORS = {'map', 'filter', 'filter_map', 'enumerate', 'into_iter', 'cloned', 'copied', 'by_ref', 'zip', 'chain', 'rev', 'skip', 'take',
            'peekable', 'flat_map', 'flatten', 'inspect', 'take_while', 'skip_while', 'map_while', 'step_by'}
COMMUTATIVE = {'count', 'min', 'max', 'all', 'any', 'sum', 'product', 'max_by_key', 'min_by_key', 'max_by', 'min_by', 'len', 'is_empty',
               'contains', 'fold_commutative', 'for_each_disjoint'}
ORDERED_SINKS = {'collect', 'for_each', 'fold', 'find', 'find_map', 'position', 'next', 'last', 'nth', 'try_for_each', 'reduce', 'extend',
                 'unzip', 'partition'}


def is_hash_ty(ty):
    t = ty.lstrip('&').strip()
    if t.startswith('mut '):
        t = t[4:]
    return t.startswith('std::collections::HashMap<') or t.startswith('std::collections::HashSet<') or \
        t.startswith('std::collections::hash_map::') or t.startswith('std::collections::hash_set::')


def clean(s):
    s = re.sub(r'#\d+', '', s)
    s = re.sub(r'@bb\d+', '', s)
    return s


def sites(W):
    """every call that starts an iteration over a HashMap/HashSet (or derived hash iterator source)"""
    out = []
    for f in W.fns():
        if f.derived:
            continue
        cx = W.ctx(f)
        for t in f.calls():
            if t.callee.indirect is not None or any(m in LOG_MACROS for m in t.macros):
                continue
            seg = last_seg(t.callee.best)
            if seg not in ITER_STARTS or not t.args or not t.arg_tys:
                continue
            ty = t.arg_tys[0]
            if not is_hash_ty(ty):
                continue
            if seg == 'into_iter' and ('Iter' in ty or 'Values' in ty or 'Keys' in ty or 'Drain' in ty) and 'hash_map::' in ty:
                continue   # into_iter on an already started iterator (the `for` desugaring): counted at its start
            recv = clean(cx.ap_carry(t.args[0].place).s(f, generic=True)) if t.args[0].is_place() else '?'
            out.append(dict(fn=f, term=t, start=seg, recv=recv))
    return out


def forward_consumer(W, f, t):
    """follow the iterator value produced by call t through adaptor calls; returns (kind, detail, term)"""
    cx = W.ctx(f)
    cur = t
    chain = [last_seg(t.callee.best)]
    for _ in range(12):
        if cur.k != 'call' or not cur.dest.is_local():
            return 'unknown', chain, cur
        d = cur.dest.local
        # who uses local d (moved) as first argument / receiver?
        users = []
        aliases = {d}
        changed = True
        while changed:
            changed = False
            for s in f.stmts():
                if s.k == 'assign' and s.place.is_local() and s.rv.k in ('use', 'ref', 'cast') and \
                        ((s.rv.a is not None and s.rv.a.is_place() and s.rv.a.place.local in aliases and all(e == 'deref' for e in s.rv.a.place.proj)) or
                         (s.rv.place is not None and s.rv.place.local in aliases and all(e == 'deref' for e in s.rv.place.proj))):
                    if s.place.local not in aliases:
                        aliases.add(s.place.local)
                        changed = True
        for u in f.calls():
            if u is cur:
                continue
            for i, a in enumerate(u.args):
                if a.is_place() and a.place.local in aliases and not a.place.proj:
                    users.append((u, i))
        users = [(u, i) for u, i in users if not any(m in LOG_MACROS for m in u.macros)]
        if not users:
            return 'unused', chain, cur
        # the `for` desugaring: into_iter then next in a loop
        nxt = [u for u, i in users if last_seg(u.callee.best) == 'next' and i == 0]
        if nxt:
            # a `for` loop calls next() in a loop; a lone next() takes whatever element comes first in hash order
            G = W.guards(f)
            in_loop = any(nxt[0].bb in body for body in G.loops())
            if in_loop:
                return 'for-loop', chain, nxt[0]
            chain.append('next')
            return 'ordered:next', chain, nxt[0]
        u, i = users[0]
        seg = last_seg(u.callee.best) if u.callee.indirect is None else 'indirect'
        chain.append(seg)
        if seg in ADAPTORS and i == 0:
            cur = u
            continue
        if seg in COMMUTATIVE:
            return 'commutative:' + seg, chain, u
        if seg in ORDERED_SINKS:
            return 'ordered:' + seg, chain, u
        return 'other:' + seg, chain, u
    return 'unknown', chain, cur


def loop_body_blocks(W, f, next_term):
    """blocks of the loop whose header calls `next`"""
    G = W.guards(f)
    best = None
    for body in G.loops():
        if next_term.bb in body and (best is None or len(body) < len(best)):
            best = body
    return best or set()


def loop_effects(W, f, next_term, E):
    """(shared writes, element-rooted writes, early exits) of the loop body; access paths rooted at the loop element are
    those whose origin is the payload of this `next` call"""
    cx = W.ctx(f)
    body = loop_body_blocks(W, f, next_term)
    elem_root = clean(cx.ap_carry(next_term.args[0].place).s(f, generic=True)) if next_term.args[0].is_place() else '?'
    shared = set()
    own = set()
    calls = set()
    for w in W.writes():
        if w['fn'] is not f or w['bb'] not in body:
            continue
        ap = w['ap']
        s = clean(ap.s(f, generic=True))
        if w['kind'] == 'store':
            tgt = [s]
        else:
            t = w['site']
            tg = W.cg.targets(t.callee)
            if tg:
                tgt = []
                for g in tg:
                    calls.add(g.path.split('::')[-1])
                    from .world import _subst_root
                    mapping = {}
                    for i, a in enumerate(t.args):
                        nm = 'self' if g.local_name(i + 1) == 'self' else 'arg%d' % (i + 1)
                        if a.is_place():
                            mapping[nm] = clean(cx.ap_carry(a.place).s(f, generic=True))
                        else:
                            mapping[nm] = None
                    for e in E.of(g):
                        r = _subst_root(e, mapping)
                        if r is not None:
                            tgt.append(r)
            else:
                tgt = [s + ' <- ' + (w['callee'] or '?')]
        for x in tgt:
            if x.startswith(elem_root) and elem_root not in ('?', ''):
                own.add(x)
            elif re.match(r'^(self|arg\d+|\^)', x):
                shared.add(x)
            else:
                # locals of this function declared outside the loop: shared within the call
                root = x.split('.')[0].split('[')[0]
                shared.add('local:' + x)
    cfg = cfg_of(f)
    normal_exit = next_term.target   # the block that switches on the Option returned by next()
    early = any(f.blocks[b].term.k == 'return' for b in body) or any(
        s2 not in body for b in body if b != normal_exit for s2 in cfg.succ[b])
    return sorted(shared), sorted(own), bool(early), sorted(calls)


def _loop_exit(W, f, next_term):
    # the block taken when next() yields None
    cfg = cfg_of(f)
    nb = next_term.target
    return None


def signature(W, site, E):
    f = site['fn']
    t = site['term']
    kind, chain, cons = forward_consumer(W, f, t)
    sig = dict(fn=_short(f), recv=site['recv'], start=site['start'], consumer=kind, chain='>'.join(chain))
    if kind == 'for-loop':
        shared, own, early, calls = loop_effects(W, f, cons, E)
        sig['shared_writes'] = shared
        sig['early_exit'] = early
    elif site['start'] in ('retain', 'retain_mut'):
        # effects of the predicate closure
        sig['consumer'] = 'retain'
        eff = set()
        for c in W.closures_of(f):
            eff |= {e for e in E.of(c) if not e.startswith('arg')}
        sig['shared_writes'] = sorted(eff)
    elif kind.startswith('ordered:collect'):
        # what is collected into
        ty = f.local_ty(cons.dest.local) if cons.dest.is_local() else '?'
        sig['into'] = re.sub(r'<.*', '', ty)
        sig['returned'] = _returned(W, f, cons)
        sig['sorted'] = _sorted_after(W, f, cons)
    return sig


def _returned(W, f, cons):
    if not cons.dest.is_local():
        return False
    return cons.dest.local == 0


def _sorted_after(W, f, cons):
    """is the collected vector sorted (sort*/sort_unstable*) before anything else can observe its order?"""
    cx = W.ctx(f)
    if not cons.dest.is_local():
        return False
    aliases = {cons.dest.local}
    changed = True
    while changed:
        changed = False
        for s in f.stmts():
            if s.k == 'assign' and s.place.is_local() and s.place.local not in aliases and s.rv.k in ('use', 'ref', 'cast'):
                src = s.rv.place if s.rv.place is not None else (s.rv.a.place if s.rv.a is not None and s.rv.a.is_place() else None)
                if src is not None and src.local in aliases and all(e == 'deref' for e in src.proj):
                    aliases.add(s.place.local)
                    changed = True
        for u in f.calls():
            if u.callee.indirect is None and last_seg(u.callee.best) in ('deref_mut', 'deref', 'as_mut_slice', 'as_mut') and u.args and \
                    u.args[0].is_place() and u.args[0].place.local in aliases and u.dest.is_local() and u.dest.local not in aliases:
                aliases.add(u.dest.local)
                changed = True
    for u in f.calls():
        if u.callee.indirect is None and last_seg(u.callee.best) in ('sort', 'sort_unstable', 'sort_by', 'sort_by_key', 'sort_unstable_by', 'sort_unstable_by_key'):
            if u.args and u.args[0].is_place() and u.args[0].place.local in aliases:
                return True
    return False


def _short(f):
    p = f.parent if f.kind == 'closure' and f.parent else f.path
    segs = p.split('::')
    return '::'.join(segs[-2:]) if not p.startswith('<') else p
