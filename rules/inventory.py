"""Two whole-crate inventories that close lists the other rules leave open.

State inventory (Cxx.S).  Every field of the session / endpoint / sync-layer structs is listed in tables/state.json with the functions that write it (a store
to it or through it, a mutable borrow of it, a call that returns into it; constructors excluded).  A field the table does not know is NEW STATE THAT LIVES
ACROSS CALLS -- a cached clock reading, a "nothing happened since" flag, a stored deadline, a per-session copy of a per-player value -- and is reported until
someone has read what keeps it in step with the state it shadows.  A new writer of a known field is reported likewise (a second place that resets a marker,
re-arms a timer, moves a cursor).  The struct list and the writer sets are computed from the typed MIR, owner-aware (a field is identified by the ADT the
MIR projection names, not by its spelling).

Error-exit inventory (C16.E and the properties whose API it is).  Every construction of a GgrsError variant is a site (function, variant); the set per
function is listed in tables/error_exits.json.  A new pair is a call that can now fail in a new way -- typically after effects that the dropped request list
was supposed to carry."""
import json
import os

from .lib import *
from .facts import strip_generics
from .sem import last_seg

VERIF = os.path.dirname(os.path.dirname(os.path.abspath(__file__)))
STRUCTS = {
    'P2PSession': ['C01', 'C02', 'C03', 'C04', 'C06', 'C07', 'C09', 'C10', 'C11', 'C12', 'C15', 'C16', 'C17', 'C18'],
    'UdpProtocol': ['C01', 'C05', 'C07', 'C08', 'C10', 'C12', 'C15', 'C18'],
    'SyncLayer': ['C01', 'C02', 'C03', 'C04', 'C11', 'C13'],
    'InputQueue': ['C01', 'C03', 'C04', 'C11', 'C13'],
    'SavedStates': ['C02', 'C13'],
    'GameState': ['C02', 'C09', 'C13'],
    'SpectatorSession': ['C05', 'C06', 'C12'],
    'SyncTestSession': ['C13', 'C16'],
    'TimeSync': ['C15'],
    'PlayerRegistry': ['C16', 'C17'],
    'InputBytes': ['C05', 'C08'],
    'SessionBuilder': ['C16', 'C12', 'C13'],
}


def _tab(name):
    with open(os.path.join(VERIF, 'tables', name)) as f:
        return json.load(f)


def field_writers(W):
    """{(struct, field): set(short function names)} -- constructors (`new`, `default`) excluded"""
    c = getattr(W, '_field_writers', None)
    if c is not None:
        return c
    out = {}

    def mark(f, pl):
        last = f.path.split('::')[-1]
        if last in ('new', 'default'):
            return
        host = f.parent if f.kind == 'closure' and f.parent else f.path
        for e in pl.proj:
            if isinstance(e, dict) and 'f' in e:
                out.setdefault((strip_generics(e['adt']).split('::')[-1], e['f']), set()).add(short(host))
    for f in W.fns():
        if f.derived:
            continue
        for b in f.blocks:
            if b.cleanup:
                continue
            for s in b.stmts:
                if s.k in ('assign', 'setdiscr'):
                    if s.place.proj:
                        mark(f, s.place)
                    if s.k == 'assign' and s.rv.k == 'ref' and s.rv.j.get('mut') and s.rv.place.proj:
                        mark(f, s.rv.place)
            t = b.term
            if t.k == 'call' and t.dest.proj:
                mark(f, t.dest)
    W._field_writers = out
    return out


def compute_state(W):
    fw = field_writers(W)
    res = {}
    for st in STRUCTS:
        try:
            fl = W.struct_fields(st)
        except AnchorMissing:
            continue
        res[st] = {x['name']: sorted(fw.get((st, x['name']), ())) for x in fl}
    return res


def _only_called_from(W, g_short, allowed, depth=0):
    fs = [f for f in W.fns() if short(f.path) == g_short]
    if not fs or depth > 3:
        return False
    callers = set()
    for f in fs:
        for c in W.cg.callers.get(f, ()):
            callers.add(short(c.parent if c.kind == 'closure' and c.parent else c.path))
    callers.discard(g_short)
    return bool(callers) and all(c in allowed or _only_called_from(W, c, allowed, depth + 1) for c in callers)


def _still_writes(W, g_short, st, fld):
    fw = field_writers(W)
    ws = fw.get((st, fld), set())
    fs = [f for f in W.fns() if short(f.path) == g_short and f.kind != 'closure']
    if not fs:
        return True     # the function itself is gone: an anchor problem, reported by the rules that name it
    for f in fs:
        for h in W.cg.may_call_closure(f):
            if short(h.parent if h.kind == 'closure' and h.parent else h.path) in ws:
                return True
    return False


def field_is_inert(W, st, fld):
    """(True, '') when the value of a NEW field can influence nothing but itself: every value read from it (followed through locals and the results of
    functions outside the crate) is stored back into the same field, dropped, logged, or returned by a function nothing in the crate calls.  A field that is
    tested in a branch, stored elsewhere, handed to a crate function or captured by a closure is state that matters and gets (False, reason).
    Diagnostic counters and timestamps pass; caches, flags and cursors do not."""
    def mentions(pl):
        return pl is not None and any(isinstance(e, dict) and e.get('f') == fld and strip_generics(e.get('adt', '')).split('::')[-1] == st for e in pl.proj)
    for f in W.fns():
        if f.derived:
            continue
        T = set()

        def hot(pl):
            return pl is not None and (mentions(pl) or pl.local in T)

        def rv_hot(rv):
            return any(o.is_place() and hot(o.place) for o in rv.operands()) or hot(rv.place)
        changed = True
        while changed:
            changed = False
            for b in f.blocks:
                if b.cleanup:
                    continue
                for sx in b.stmts:
                    if sx.k != 'assign' or not rv_hot(sx.rv):
                        continue
                    if mentions(sx.place):
                        continue
                    if sx.rv.k == 'agg' and sx.rv.j.get('ak') == 'closure':
                        return False, 'captured by a closure in %s' % short(f.path)
                    if sx.place.proj and not (sx.place.local in T):
                        return False, 'a value read from it is stored into other state in %s (line %d)' % (short(f.path), sx.line)
                    if sx.place.local not in T:
                        T.add(sx.place.local)
                        changed = True
                t = b.term
                if t.k == 'call' and any(a.is_place() and hot(a.place) for a in t.args):
                    if 'tracing' in (t.callee.crate or '') or any('trace' in m or 'debug' in m or 'warn' in m or 'info' in m for m in (t.span.get('mac') or [])):
                        continue
                    if t.callee.indirect is not None or t.callee.rlocal or t.callee.local:
                        return False, 'handed to the crate function %s in %s' % (t.callee.best, short(f.path))
                    if not mentions(t.dest):
                        if t.dest.proj and t.dest.local not in T:
                            return False, 'a value computed from it is stored into other state in %s (line %d)' % (short(f.path), t.line)
                        if t.dest.local not in T:
                            T.add(t.dest.local)
                            changed = True
                elif t.k == 'switch' and t.discr.is_place() and hot(t.discr.place):
                    return False, 'tested in a branch of %s (line %d)' % (short(f.path), t.line)
                elif t.k == 'assert' and t.cond.is_place() and hot(t.cond.place):
                    if 'Overflow' not in str(t.msg):
                        return False, 'an assertion in %s depends on it' % short(f.path)
        if 0 in T:
            callers = W.cg.callers.get(f, ())
            if callers:
                return False, '%s returns it to %s' % (short(f.path), ', '.join(sorted(short(c.path) for c in callers))[:120])
    return True, ''


def state_rule_for(pid):
    def rule(W, ob):
        tab = _tab('state.json')['structs']
        cur = compute_state(W)
        n = 0
        for st, props in STRUCTS.items():
            if pid not in props:
                continue
            if st not in cur:
                ob.fail('state|%s|missing' % st, 'struct %s not found (anchor)' % st, None)
                continue
            known = tab.get(st, {})
            for fld, ws in cur[st].items():
                n += 1
                if fld not in known:
                    inert, why_not = field_is_inert(W, st, fld)
                    if inert:
                        ob.ok('%s.%s is new and inert: nothing but the field itself, a log line or an uncalled getter depends on its value' % (st, fld), None)
                        continue
                    ob.fail('state|%s.%s|new-field' % (st, fld), '%s has a field `%s` the state inventory does not know (written by: %s): new state that lives across calls -- '
                            'what keeps it in step with the state it caches, counts or shadows has not been reviewed (tables/state.json); it is not inert: %s' % (st, fld, ', '.join(ws) or 'constructor only', why_not), None)
                    continue
                extra = sorted(set(ws) - set(known[fld]))
                # a helper that only reviewed writers call (an extracted store) is not a new writer
                extra = [g for g in extra if not _only_called_from(W, g, set(known[fld]))]
                # ... and a reviewed writer that no longer writes it (directly or through anything it calls) is a store that was deleted
                borrow_only = {tuple(x) for x in _tab('state.json').get('borrow_only', [])}
                lost = [g for g in known[fld] if g not in ws and not _still_writes(W, g, st, fld) and (st, fld, g) not in borrow_only]
                if lost:
                    ob.fail('state|%s.%s|lost-writer' % (st, fld), '%s no longer writes %s.%s (neither itself nor through a function it calls): an update, reset or re-arm of that '
                            'field was removed' % (', '.join(lost), st, fld), None)
                ob.check(not extra, 'state|%s.%s|new-writer' % (st, fld), '%s.%s is written only by its %d reviewed writer(s)' % (st, fld, len(known[fld])),
                         '%s.%s is now also written by %s (reviewed writers: %s)' % (st, fld, ', '.join(extra), ', '.join(known[fld]) or 'constructor only'), None)
        ob.require_count(n, 3, 'fields in the state inventory for %s' % pid)
    return rule


def compute_errors(W):
    res = {}
    for f, s in W.constructions('GgrsError'):
        host = f.parent if f.kind == 'closure' and f.parent else f.path
        res.setdefault(short(host), set()).add(s.rv.j['variant'])
    return {k: sorted(v) for k, v in res.items()}


def error_rule(W, ob):
    tab = _tab('error_exits.json')['functions']
    cur = compute_errors(W)
    n = 0
    for fn, vs in sorted(cur.items()):
        for v in vs:
            n += 1
            ob.check(v in tab.get(fn, []), 'error-exit|%s|%s' % (fn, v), '%s can fail with %s (reviewed)' % (fn, v),
                     '%s can now fail with GgrsError::%s, an error exit the inventory does not know (tables/error_exits.json): what the session has already done when it is taken, '
                     'and what becomes of the requests collected so far, has not been reviewed' % (fn, v), None)
    ob.require_count(n, 20, 'error exits')


# ---------------------------------------------------------------------------------------------------------------------------------------
# call inventory: calls of functions that write state
# ---------------------------------------------------------------------------------------------------------------------------------------
CALLER_PROPS = dict(STRUCTS)
CALLER_PROPS.update({'compression': ['C14', 'C08'], 'GameStateCell': ['C02', 'C13']})


def compute_edges(W):
    from .world import Effects
    E = Effects(W)
    edges = set()
    for f in W.fns():
        if f.derived or 'tests' in f.path:
            continue
        host = f.parent if f.kind == 'closure' and f.parent else f.path
        for t in f.calls():
            for g in W.cg.targets(t.callee):
                if g.derived or g.kind == 'closure' or g.path == host:
                    continue
                if E.of(g):
                    edges.add((short(host), short(g.path)))
    return sorted(edges)


def call_rule_for(pid):
    """every reviewed call of a state-writing function is still made (directly or through helpers): a call that was deleted as 'redundant' is reported"""
    def rule(W, ob):
        tab = _tab('call_edges.json')['edges']
        by_short = {}
        for f in W.fns():
            if f.kind != 'closure' and not f.derived:
                by_short.setdefault(short(f.path), []).append(f)
        n = 0
        for x, y in tab:
            if pid not in CALLER_PROPS.get(x.split('::')[0], []):
                continue
            fx, fy = by_short.get(x), by_short.get(y)
            if not fx or not fy:
                ob.info('call inventory: %s -> %s skipped (%s no longer exists; the rules that name it report that)' % (x, y, x if not fx else y))
                continue
            n += 1
            reach = set()
            for f in fx:
                reach |= {short(h.parent if h.kind == 'closure' and h.parent else h.path) for h in W.cg.may_call_closure(f)}
                for c in W.closures_of(f):
                    reach |= {short(h.parent if h.kind == 'closure' and h.parent else h.path) for h in W.cg.may_call_closure(c)}
            ob.check(y in reach, 'call|%s|%s' % (x, y), '%s still calls %s' % (x, y),
                     '%s no longer calls %s (neither directly nor through a helper): a call of a function that writes state was removed' % (x, y), where(fx[0]))
        ob.require_count(n, 1, 'reviewed calls of state-writing functions for %s' % pid)
        debug_purity(W, ob)
        new_call_rule_for(pid)(W, ob)
        carried_rule_for(pid)(W, ob)
        order_rule_for(pid)(W, ob)
    return rule


STD_MUTATORS = {'drain', 'clear', 'pop', 'pop_front', 'pop_back', 'remove', 'retain', 'truncate', 'insert', 'push', 'push_back', 'push_front', 'extend', 'append', 'take',
                'replace', 'swap', 'split_off', 'swap_remove', 'entry', 'get_or_insert_with', 'sort', 'sort_unstable', 'dedup', 'resize', 'set', 'fetch_add'}
DEBUG_ONLY = ('debug_assert', 'debug_assert_eq', 'debug_assert_ne', 'trace', 'debug', 'info', 'warn', 'error', 'event')


def debug_purity(W, ob):
    """code that exists only in some builds -- the arguments of debug_assert!* (compiled out without debug assertions) and of the tracing macros (evaluated only
    when a subscriber enables the level) -- changes no state: otherwise the tests (debug build, no subscriber) and a release build with logging run different programs"""
    from .world import Effects
    E = Effects(W)
    n = 0
    for f in W.fns():
        if f.derived:
            continue
        in_macro_closure = f.kind == 'closure' and any(any(m.split('::')[-1] in DEBUG_ONLY for m in t.macros) for p2 in W.fns() if p2.path == f.parent for t in p2.calls()
                                                       if W.cg.targets(t.callee) and f in W.cg.targets(t.callee))
        # the region guarded by `if cfg!(debug_assertions)` of a debug_assert!*: macro ARGUMENTS keep their own spans, so the region is found on the CFG
        region = set()
        cfgf = cfg_of(f)
        for b in f.blocks:
            tt = b.term
            if tt.k == 'switch' and any(m.split('::')[-1].startswith('debug_assert') or m.split('::')[-1] in DEBUG_ONLY for m in tt.macros):
                tgt = tt.otherwise
                region |= {x.id for x in f.blocks if not x.cleanup and x.id in cfgf.reach and cfgf.dominates(tgt, x.id)}
        for t in f.calls():
            inside = in_macro_closure or t.bb in region or any(m.split('::')[-1] in DEBUG_ONLY for m in t.macros)
            if not inside:
                continue
            n += 1
            tg = [g for g in W.cg.targets(t.callee) if g.kind != 'closure']
            eff = [g for g in tg if any(not e.startswith('local') for e in E.of(g))]
            muts = [i for i, ty in enumerate(t.arg_tys or []) if ty.startswith('&mut ') and t.args[i].is_place() and
                    W.ctx(f).ap_carry(t.args[i].place).root[0] in ('arg', 'upvar')]
            host = f.parent if f.kind == 'closure' and f.parent else f.path
            std_mut = bool(muts) and not tg and last_seg(t.callee.best or '') in STD_MUTATORS
            if (eff and muts) or std_mut or (muts and not tg and (t.callee.crate or '') not in ('tracing', 'tracing_core', 'core', 'std', 'alloc')):
                ob.fail('debug-only-effect|%s|%s' % (short(host), short(t.callee.best or '?')),
                        '%s calls %s inside a debug_assert!/tracing macro: the call changes state, but it is compiled out (or not evaluated) in builds without debug assertions / '
                        'without a subscriber at that level -- debug and release builds run different programs' % (short(host), short(t.callee.best or '?')), where(f, t.line))
    ob.require_count(n, 15, 'calls inside debug-only macros')


# ---------------------------------------------------------------------------------------------------------------------------------------
# expression inventory: arithmetic handed to calls / stored in fields / used as an index, and what closures return
# ---------------------------------------------------------------------------------------------------------------------------------------
ARITH = {'Add', 'Sub', 'Mul', 'Div', 'Rem', 'Shl', 'Shr', 'BitAnd', 'BitOr', 'BitXor'}
SKIP_MACROS = {'trace', 'debug', 'warn', 'info', 'error', 'event', 'format_args', 'panic', 'assert', 'assert_eq', 'assert_ne', 'debug_assert', 'debug_assert_eq',
               'debug_assert_ne', 'unreachable', 'const_format_args', 'panic_2021'}


def _has_arith(e):
    t = e[0]
    if t == 'bin':
        return e[1] in ARITH or _has_arith(e[2]) or _has_arith(e[3])
    if t == 'un':
        return _has_arith(e[2])
    if t == 'call':
        return any(_has_arith(a) for a in e[2])
    if t in ('min', 'max'):
        return any(_has_arith(a) for a in e[1])
    if t == 'phi':
        return any(_has_arith(a[1]) for a in e[1])
    if t == 'agg':
        return any(_has_arith(v) for _, v in e[2])
    if t == 'fld':
        return _has_arith(e[1])
    return False


def _cx(e):
    """canonical text of an expression: sums and products are flattened, constants folded and operands sorted, so `1 + x`, `x + 1` and `x - (-1)` read the same;
    non-commutative operators keep their operand order"""
    from .sem import key as _key
    t = e[0]
    if t == 'int':
        return str(e[1])
    if t == 'bin' and e[1] in ('Add', 'Sub'):
        terms, const = [], 0

        def walk(x, sign):
            nonlocal const
            if x[0] == 'bin' and x[1] == 'Add':
                walk(x[2], sign)
                walk(x[3], sign)
            elif x[0] == 'bin' and x[1] == 'Sub':
                walk(x[2], sign)
                walk(x[3], -sign)
            elif x[0] == 'int':
                const += sign * x[1]
            elif x[0] == 'cast' and len(x) > 1 and isinstance(x[1], tuple):
                walk(x[1], sign)
            else:
                terms.append(('+' if sign > 0 else '-') + _cx(x))
        walk(e, 1)
        terms.sort()
        return '(' + ' '.join(terms) + (' %+d' % const if const else '') + ')'
    if t == 'bin' and e[1] in ('Mul', 'BitAnd', 'BitOr', 'BitXor'):
        ops = []

        def walk2(x):
            if x[0] == 'bin' and x[1] == e[1]:
                walk2(x[2])
                walk2(x[3])
            else:
                ops.append(_cx(x))
        walk2(e)
        return '(' + (' %s ' % e[1]).join(sorted(ops)) + ')'
    if t == 'bin':
        return '(%s %s %s)' % (_cx(e[2]), e[1], _cx(e[3]))
    if t == 'un':
        return '%s(%s)' % (e[1], _cx(e[2]))
    if t == 'call':
        from .sem import short_path
        return '%s(%s)' % (short_path(e[1]), ', '.join(_cx(a) for a in e[2]))
    if t in ('min', 'max'):
        return '%s(%s)' % (t, ', '.join(sorted(_cx(a) for a in e[1])))
    if t == 'agg':
        return '%s{%s}' % (e[1], ', '.join('%s: %s' % (f, _cx(v)) for f, v in e[2]))
    if t == 'fld':
        return '%s.%s' % (_cx(e[1]), '.'.join(e[2]))
    if t == 'cast' and len(e) > 1 and isinstance(e[1], tuple):
        return _cx(e[1])
    return _key(e)


def _canon(e):
    import re
    from .sem import atoms_of_cond, dnf_str
    s = None
    if e[0] == 'bin' and e[1] in ('Eq', 'Ne', 'Lt', 'Le', 'Gt', 'Ge') or e[0] == 'un' and e[1] == 'Not':
        try:
            d = atoms_of_cond(e, True)
            if d:
                s = 'COND ' + dnf_str(d)
        except Exception:
            s = None
    if s is None:
        s = _cx(e)
    return re.sub(r'\b\w*#\d+', 'v', re.sub(r'@bb\d+', '', s))


def compute_expressions(W):
    """{function: {site key: [canonical expressions]}}; site key = 'store <field path>' | 'arg <callee>#<i>' | 'closure -> <adaptor it is handed to>'"""
    from .facts import Place, strip_generics
    per = {}
    # which adaptor is each closure handed to
    handed = {}
    for f in W.fns():
        if f.derived:
            continue
        for t in f.calls():
            for a in t.args:
                c = closure_of_operand(W, f, a)
                if c and c[0] == 'closure':
                    handed[c[1].path] = last_seg(t.callee.best) if t.callee.indirect is None else 'indirect'
    for f in W.fns():
        if f.derived or 'sessions::builder' in f.path or 'tests' in f.path:
            continue
        cx = W.ctx(f)
        host = short(f.parent if f.kind == 'closure' and f.parent else f.path)
        out = per.setdefault(host, {})
        is_macro_closure = False
        for t in f.calls():
            if any(m.split('::')[-1] in SKIP_MACROS for m in t.macros):
                if f.kind == 'closure':
                    is_macro_closure = True
                continue
            callee = short(t.callee.best or '?') if t.callee.indirect is None else 'indirect'
            for i, a in enumerate(t.args):
                try:
                    e = cx.expr_operand(a)
                except Exception:
                    continue
                if e[0] == 'bin' and e[1] in ARITH or (e[0] in ('min', 'max')) or (e[0] == 'agg' and e[1] in ('Range', 'RangeTo', 'RangeFrom', 'RangeInclusive') and _has_arith(e)):
                    out.setdefault('arg %s#%d' % (callee, i), set()).add(_canon(e))
        for s_ in f.stmts():
            if s_.k == 'assign' and s_.place.proj and not any(m.split('::')[-1] in SKIP_MACROS for m in s_.span['mac']):
                try:
                    e = cx.expr_rvalue(s_.rv)
                except Exception:
                    continue
                if _has_arith(e) and e[0] in ('bin', 'min', 'max', 'call', 'un'):
                    tgt = cx.ap_of_place(s_.place).s(f, generic=True)
                    out.setdefault('store %s' % tgt, set()).add(_canon(e))
        if f.kind == 'closure' and not is_macro_closure and f.path in handed:
            try:
                out.setdefault('closure -> %s' % handed[f.path], set()).add(_canon(cx.expr_place(Place({'l': 0, 'p': []}))))
            except Exception:
                pass
    return {k: {k2: sorted(v2) for k2, v2 in v.items()} for k, v in per.items() if v}


def expr_rule_for(pid):
    """pinned arithmetic: at every site the table knows -- a field store, an argument position of a callee, a closure handed to a given adaptor -- the canonical
    form of the expression (linear normal form for integer arithmetic, guard normal form for predicates; no local names) is one of the reviewed forms for
    that site.  Sites the table does not know (new stores, new calls, iterator rewrites that create new closures) are NOT this rule's business -- the state,
    call and vocabulary inventories look at those -- so a respelling that moves the computation elsewhere does not alarm; a changed literal, operator, operand
    order, factor, prune bound, predicate or sort key at a known site does."""
    def rule(W, ob):
        tab = _tab('expressions.json')['functions']
        cur = compute_expressions(W)
        n = 0
        for fn, sites_ in sorted(cur.items()):
            if pid not in CALLER_PROPS.get(fn.split('::')[0], []):
                continue
            known = tab.get(fn, {})
            for site, es in sorted(sites_.items()):
                if site not in known:
                    continue
                for e in es:
                    n += 1
                    ob.check(e in known[site], 'expression|%s|%s' % (fn, site), '%s, %s: `%s` (reviewed)' % (fn, site, e[:70]),
                             '%s, %s: the expression is now `%s`; reviewed: %s -- a literal, an operator, the order of operands, a factor or a predicate / key changed'
                             % (fn, site, e[:140], ' | '.join('`%s`' % x[:100] for x in known[site][:3])), None)
        ob.require_count(n, 1, 'pinned expressions for %s' % pid)
    return rule


# ---------------------------------------------------------------------------------------------------------------------------------------
# trait-impl inventory
# ---------------------------------------------------------------------------------------------------------------------------------------
SEMANTIC_TRAITS = {'PartialEq', 'Eq', 'Hash', 'Ord', 'PartialOrd', 'Clone', 'Copy', 'Default', 'From', 'Into', 'Deref', 'DerefMut', 'Drop', 'InputPredictor', 'Borrow', 'AsRef'}


def compute_impls(W):
    res = {}
    for f in W.fx.fn_list:
        if not (f.path.startswith('<') and ' as ' in f.path) or 'promoted' in f.path or f.kind == 'closure':
            continue
        ty = f.path[1:].split(' as ')[0].split('::')[-1].split('<')[0]
        tr = f.path.split(' as ')[1].split('>::')[0].split('::')[-1].split('<')[0]
        if ty.startswith('__') or tr not in SEMANTIC_TRAITS:
            continue
        res['%s: %s' % (ty, tr)] = 'derived' if f.derived else 'manual'
    return res


def impl_rule(W, ob):
    """equality, hashing, ordering, cloning, defaults and conversions mean what the table says: each (type, trait) pair is derived or hand-written as reviewed. A derive
    replaced by a hand-written impl (equality by address only, a hash that ignores a field, a Default that differs from the blank value) changes what map keys collide,
    which inputs 'match' and what a constructor starts from, with every call site unchanged."""
    tab = _tab('impls.json')['impls']
    cur = compute_impls(W)
    n = 0
    for k, kind in sorted(cur.items()):
        n += 1
        if k not in tab:
            ob.check(kind == 'derived', 'impl|%s|new' % k, '%s (new, derived)' % k,
                     '`impl %s for %s` is hand-written and not in the impl inventory (tables/impls.json): what it considers equal / how it hashes, clones or defaults has not been reviewed'
                     % (k.split(': ')[1], k.split(': ')[0]), None)
        else:
            ob.check(tab[k] == kind, 'impl|%s|kind' % k, '%s is %s as reviewed' % (k, kind),
                     '`impl %s for %s` was %s when reviewed and is now %s: the meaning of equality / hashing / cloning / the default value of that type changed under every call site'
                     % (k.split(': ')[1], k.split(': ')[0], tab[k], kind), None)
    ob.require_count(n, 40, 'semantic trait impls')
    # the bodies of the hand-written impls that no other rule pins
    from .facts import Place
    from .sem import key as _key
    PINS = {'<PredictRepeatLast as InputPredictor>::predict': ('arg1', 'PredictRepeatLast repeats the previous input'),
            '<PredictDefault as InputPredictor>::predict': ('Default::default()', 'PredictDefault predicts the default input'),
            '<network::messages::InputAck as std::default::Default>::default': ('InputAck{ack_frame: NULL_FRAME}', 'a blank ack acknowledges nothing'),
            '<time_sync::TimeSync as std::default::Default>::default': ('TimeSync{local: repeat(0), remote: repeat(0)}', 'time sync starts from zero advantage'),
            '<sync_layer::GameStateCell as std::clone::Clone>::clone': ('GameStateCell{0: self.0}', 'cloning a cell shares the saved state (the Arc), it does not copy it: the request handed to the user and the ring slot are one cell')}
    byp = {f.path: f for f in W.fx.fn_list}
    for path, (want, why) in PINS.items():
        f = byp.get(path) or next((g for q, g in byp.items() if q.endswith(path.split('::', 1)[-1]) and path.split(' as ')[0].split('::')[-1] in q), None)
        if f is None:
            ob.fail('impl-body|%s|missing' % path, 'hand-written impl %s not found (anchor)' % path, None)
            continue
        got = _key(W.ctx(f).expr_place(Place({'l': 0, 'p': []})))
        ob.check(got == want, 'impl-body|%s' % path, '%s (%s)' % (why, want), '%s now returns `%s` (reviewed: `%s`): %s no longer holds' % (path, got[:120], want, why), where(f))


# ---------------------------------------------------------------------------------------------------------------------------------------
# new calls between functions that both existed when the tables were reviewed (or into third-party crates)
# ---------------------------------------------------------------------------------------------------------------------------------------
STD_CRATES = {'std', 'core', 'alloc'}
LOG_CRATES = {'tracing', 'tracing_core'}


def compute_all_edges(W):
    fns = set()
    edges = set()
    for f in W.fns():
        if f.derived or 'tests' in f.path:
            continue
        host = short(f.parent if f.kind == 'closure' and f.parent else f.path)
        if f.kind != 'closure':
            fns.add(host)
        for t in f.calls():
            if t.callee.indirect is not None or '{closure' in (t.callee.best or '') or any(m.split('::')[-1] in SKIP_MACROS for m in t.macros):
                continue
            tg = [g for g in W.cg.targets(t.callee) if g.kind != 'closure' and not g.derived]
            if tg:
                for g in tg:
                    if short(g.path) != host:
                        edges.add((host, short(g.path)))
            else:
                crate = t.callee.rcrate or t.callee.crate or ''
                if crate and crate not in STD_CRATES and crate not in LOG_CRATES and crate != 'ggrs':
                    edges.add((host, 'extern ' + short(t.callee.best or '?')))
                elif crate == 'ggrs' or (t.callee.best or '').startswith('ggrs::') or '<' in (t.callee.best or '')[:1] and 'ggrs' in (t.callee.best or ''):
                    # unresolved trait method of a crate trait (e.g. InputPredictor::predict, NonBlockingSocket::send_to)
                    if not any(tr in (t.callee.best or '') for tr in (' as std::cmp::', ' as core::cmp::', ' as std::clone::', ' as core::clone::', ' as std::fmt::', ' as core::fmt::', ' as std::hash::', ' as core::hash::', ' as std::default::')):
                        edges.add((host, 'trait ' + short(t.callee.best or '?')))   # (a derived comparison / clone / fmt of a crate type is not a crate-trait call)
    return sorted(fns), sorted(edges)


def new_call_rule_for(pid):
    """no NEW call between two functions that both existed when the tables were reviewed, and no new call into a third-party crate or through a crate trait: a value that
    now also passes through the predictor, a decoder of the dependency called from a Debug impl, a second caller of a function with effects.  Calls to or from functions
    that did not exist then (extracted helpers) are not this rule's business."""
    def rule(W, ob):
        tab = _tab('call_edges_all.json')
        known_fns = set(tab['functions'])
        known = {tuple(e) for e in tab['edges']}
        fns, edges = compute_all_edges(W)
        from .world import Effects
        E = Effects(W)
        pure = set()
        for g in W.fns():
            if g.kind != 'closure' and not g.derived and not E.of(g) and not any((g.local_ty(i) or '').startswith('&mut') for i in range(1, g.argc + 1)):
                pure.add(short(g.path))
        n = 0
        for x, y in edges:
            if y in pure and (x, y) not in known:
                continue     # a new call of a function without effects (a getter, a predicate) moves no state; a wrong VALUE is the business of the rule that reads it
            if pid not in CALLER_PROPS.get(x.split('::')[0], []) and not (pid in ('C08', 'C14') and (y.startswith('extern ') or 'compression' in x)):
                continue
            if x not in known_fns:
                continue
            if not (y in known_fns or y.startswith('extern ') or y.startswith('trait ')):
                continue
            n += 1
            ob.check((x, y) in known, 'new-call|%s|%s' % (x, y), '%s -> %s (reviewed)' % (x, y),
                     '%s now calls %s, which it did not when the call inventory was reviewed (tables/call_edges_all.json): a value takes a new route or an effect gets a new trigger'
                     % (x, y[7:] if y.startswith('extern ') else y), None)
        ob.require_count(n, 3, 'calls between reviewed functions for %s' % pid)
    return rule


# ---------------------------------------------------------------------------------------------------------------------------------------
# constants and type shapes
# ---------------------------------------------------------------------------------------------------------------------------------------
def compute_consts(W):
    res = {}
    for p, c in W.fx.consts.items():
        if '::_' in p or p.endswith('::_'):
            continue
        name = p.split('::')[-1]
        if 'val' in c:
            res[name] = '%s %s' % (c['ty'], c['val'])
        elif 'Duration' in c.get('ty', ''):
            try:
                res[name] = 'Duration %d ms' % duration_const_ms(W, name)
            except AnchorMissing:
                res[name] = c['ty']
        else:
            res[name] = c.get('ty', '?')
    return res


def compute_shapes(W):
    res = {}
    for p, a in W.fx.adts.items():
        if '::_' in p or p.split('::')[-1].startswith('__') or 'tests' in p:
            continue
        res[p.replace('ggrs::', '', 1)] = [[v['name']] + ['%s: %s' % (f['name'], f['ty']) for f in v['fields']] for v in a['variants']]
    return res


# What a property needs from the named constants is a VALUE only where its statement names one ("documented bound of 100", "at least 3", "60 frames
# apart") and otherwise a RELATION between constants (the cap of the resend queue is not below the longest input queue; keep-alives come at least twice
# per default notify delay).  Round 12 showed that pinning every value and every type shape (the first version of this rule) alarms on edits under
# which every property still holds: a retuned interval, another default, a private diagnostic field, reordered fields of a non-wire struct.
def _cv(W, name):
    c = W.fx.consts
    for p, v in c.items():
        if p.split('::')[-1] == name:
            if 'val' in v:
                return int(v['val'])
            if 'Duration' in v.get('ty', ''):
                return duration_const_ms(W, name)
    raise AnchorMissing('constant %s' % name)


U16 = 65535
CONST_RELATIONS = [
    # (properties, key, constants read, predicate over their values, what the relation is for)
    (['C01', 'C02', 'C03', 'C07', 'C10', 'C11'], 'NULL_FRAME', ['NULL_FRAME'], lambda v: v['NULL_FRAME'] == -1,
     'NULL_FRAME == -1: "nothing yet" is the predecessor of frame 0 (`last_frame + 1` is the first frame, a sentinel below every frame)'),
    (['C12', 'C18'], 'MAX_EVENT_QUEUE_SIZE', ['MAX_EVENT_QUEUE_SIZE'], lambda v: v['MAX_EVENT_QUEUE_SIZE'] == 100,
     'MAX_EVENT_QUEUE_SIZE == 100, the documented bound the property names'),
    (['C15'], 'MIN_RECOMMENDATION', ['MIN_RECOMMENDATION', 'RECOMMENDATION_INTERVAL'], lambda v: v['MIN_RECOMMENDATION'] == 3 and v['RECOMMENDATION_INTERVAL'] == 60,
     'MIN_RECOMMENDATION == 3 and RECOMMENDATION_INTERVAL == 60 (the values the property names)'),
    (['C05', 'C07', 'C18'], 'PENDING_OUTPUT_SIZE', ['PENDING_OUTPUT_SIZE', 'INPUT_QUEUE_LENGTH'], lambda v: v['PENDING_OUTPUT_SIZE'] >= v['INPUT_QUEUE_LENGTH'] >= 2,
     'PENDING_OUTPUT_SIZE >= INPUT_QUEUE_LENGTH: the cap that declares a silent remote dead is not reached before the prediction window (bounded by the input queue) stalls the session'),
    (['C12'], 'NUM_SYNC_PACKETS', ['NUM_SYNC_PACKETS'], lambda v: v['NUM_SYNC_PACKETS'] >= 1, 'NUM_SYNC_PACKETS >= 1: the handshake has at least one round trip'),
    (['C07', 'C12'], 'notify-before-timeout', ['DEFAULT_DISCONNECT_NOTIFY_START', 'DEFAULT_DISCONNECT_TIMEOUT'],
     lambda v: 0 < v['DEFAULT_DISCONNECT_NOTIFY_START'] < v['DEFAULT_DISCONNECT_TIMEOUT'], 'default notify delay < default disconnect timeout'),
    (['C05', 'C12'], 'retry-intervals', ['SYNC_RETRY_INTERVAL', 'RUNNING_RETRY_INTERVAL', 'KEEP_ALIVE_INTERVAL', 'DEFAULT_DISCONNECT_NOTIFY_START'],
     lambda v: all(0 < v[k] and 2 * v[k] <= v['DEFAULT_DISCONNECT_NOTIFY_START'] for k in ('SYNC_RETRY_INTERVAL', 'RUNNING_RETRY_INTERVAL', 'KEEP_ALIVE_INTERVAL')),
     'handshake retry, input retransmission and keep-alive each happen at least twice within the default notify delay'),
    (['C08', 'C14'], 'MAX_DECODED_LEN', ['MAX_DECODED_LEN', 'PENDING_OUTPUT_SIZE'],
     lambda v: (v['PENDING_OUTPUT_SIZE'] + 1) * (U16 + 2) <= v['MAX_DECODED_LEN'] <= 4 * (v['PENDING_OUTPUT_SIZE'] + 1) * (U16 + 2),
     '(PENDING_OUTPUT_SIZE + 1) * 65537 <= MAX_DECODED_LEN <= 4 times that: every legitimate packet fits, nothing much larger is allocated'),
    (['C06'], 'SPECTATOR_BUFFER_SIZE', ['SPECTATOR_BUFFER_SIZE', 'DEFAULT_MAX_FRAMES_BEHIND', 'DEFAULT_CATCHUP_SPEED'],
     lambda v: v['SPECTATOR_BUFFER_SIZE'] >= 2 and 0 < v['DEFAULT_MAX_FRAMES_BEHIND'] < v['SPECTATOR_BUFFER_SIZE'] and v['DEFAULT_CATCHUP_SPEED'] >= 1,
     'the spectator ring holds more frames than the default catch-up threshold'),
    (['C09', 'C18'], 'MAX_CHECKSUM_HISTORY_SIZE', ['MAX_CHECKSUM_HISTORY_SIZE'], lambda v: v['MAX_CHECKSUM_HISTORY_SIZE'] >= 2, 'the checksum history holds at least two reports'),
    (['C15'], 'FRAME_WINDOW_SIZE', ['FRAME_WINDOW_SIZE'], lambda v: v['FRAME_WINDOW_SIZE'] >= 1, 'the averaging window of the time sync is not empty'),
    (['C08'], 'RECV_BUFFER_SIZE', ['RECV_BUFFER_SIZE', 'IDEAL_MAX_UDP_PACKET_SIZE'], lambda v: v['RECV_BUFFER_SIZE'] >= v['IDEAL_MAX_UDP_PACKET_SIZE'] > 0,
     'the receive buffer holds at least one packet of the ideal maximum size'),
    (['C04', 'C13', 'C16'], 'defaults-valid', ['DEFAULT_MAX_PREDICTION_FRAMES', 'DEFAULT_CHECK_DISTANCE', 'DEFAULT_FPS', 'DEFAULT_PLAYERS', 'INPUT_QUEUE_LENGTH'],
     lambda v: v['DEFAULT_CHECK_DISTANCE'] < v['DEFAULT_MAX_PREDICTION_FRAMES'] < v['INPUT_QUEUE_LENGTH'] and v['DEFAULT_FPS'] > 0 and v['DEFAULT_PLAYERS'] > 0,
     'the builder\'s defaults satisfy the builder\'s own constraints (check distance < prediction window < input queue, fps > 0, players > 0)'),
]
CONST_PROPS = sorted({p for r in CONST_RELATIONS for p in r[0]})


def const_rule_for(pid):
    def rule(W, ob):
        n = 0
        for props, k, names, pred, why in CONST_RELATIONS:
            if pid not in props:
                continue
            vals = {nm: _cv(W, nm) for nm in names}
            n += 1
            ob.check(bool(pred(vals)), 'const|%s' % k, why, 'constants %s break the relation: %s' % (', '.join('%s = %s' % kv for kv in sorted(vals.items())), why), None)
        ob.require_count(n, 1, 'constant relations of ' + pid)
    return rule


CONST_TITLE = 'constants: values the property names, relations it needs'
CONST_TEXT = ('the named constants satisfy what this property needs of them (rules/inventory.py CONST_RELATIONS): a VALUE where the property\'s statement names one '
              '(event-queue bound 100, recommendation threshold 3 / spacing 60, NULL_FRAME = -1 as the predecessor of frame 0), otherwise a RELATION (resend-queue cap >= input-queue '
              'length, keep-alive / retry intervals at most half the default notify delay < default timeout, decode cap within 1..4 times the largest legitimate packet, '
              'defaults inside the builder\'s own limits).  Retuning a constant inside its relation, or changing a type\'s private shape, is not reported.')


# ---------------------------------------------------------------------------------------------------------------------------------------
# loop-carried state
# ---------------------------------------------------------------------------------------------------------------------------------------
def compute_carried(W):
    """{function: sorted list of the types of the locals that some loop of the function carries from one iteration to the next}"""
    from . import liveness
    res = {}
    for f in W.fns():
        if f.derived or 'tests' in f.path or 'sessions::builder' in f.path:
            continue
        loops = W.guards(f).loop_by_header()
        if not loops:
            continue
        tys = []
        for h, body in loops.items():
            for l in liveness.carried(f, h, body):
                if l == 0:
                    continue
                ty = f.local_ty(l) or '?'
                if l <= f.argc and f.local_name(l) == 'self':
                    continue
                if ty.startswith('std::ops::Range') or any(x in ty for x in ('::Iter<', '::IterMut<', 'std::iter::', '::Values<', '::ValuesMut<', '::Keys<', 'IntoIter<', 'Drain<',
                                                                            'impl Iterator', '::Chunks', '::Windows<')):
                    continue        # the loop's own iterator: how the loop is spelled, not state
                tys.append(ty)
        host = short(f.parent if f.kind == 'closure' and f.parent else f.path)
        if tys:
            res.setdefault(host, []).extend(tys)
    return {k: sorted(v) for k, v in res.items()}


def carried_rule_for(pid):
    """what a loop carries from one iteration to the next is reviewed state: per function the multiset of the types of its loop-carried locals (liveness at the loop
    header; no names) is contained in the reviewed multiset.  An accumulator whose `let` moved from inside a loop to in front of it -- the per-player `queue_connected`
    flag, the varint `shift` -- adds a carried `bool` / `u32` and is reported; renaming a local or rewriting the loop with iterators does not."""
    def rule(W, ob):
        import collections
        tab = _tab('carried.json')['functions']
        cur = compute_carried(W)
        n = 0
        for fn, tys in sorted(cur.items()):
            if pid not in CALLER_PROPS.get(fn.split('::')[0], []):
                continue
            n += 1
            extra = collections.Counter(tys) - collections.Counter(tab.get(fn, []))
            ob.check(not extra or fn not in tab, 'carried|%s' % fn, '%s: its loops carry only reviewed state (%d locals)' % (fn, len(tys)),
                     '%s: a loop now carries %s from one iteration to the next, which it did not when reviewed (tables/carried.json): a value that used to be re-initialised per element / per '
                     'record / per player survives into the next one' % (fn, ', '.join('%d x %s' % (c, t) for t, c in extra.items())), None)
        ob.require_count(n, 1, 'functions with loops for %s' % pid)
    return rule


# ---------------------------------------------------------------------------------------------------------------------------------------
# access order: per function and field, how its reads and writes are ordered
# ---------------------------------------------------------------------------------------------------------------------------------------
def _forward_reach(cfg):
    """{block: blocks reachable from it without taking a back edge} -- the order in which one pass through the function body, or one iteration of a loop, runs"""
    succ = {b: [x for x in cfg.succ[b] if x in cfg.reach and not cfg.dominates(x, b)] for b in cfg.reach}
    memo = {}

    def go(b):
        if b in memo:
            return memo[b]
        memo[b] = set()
        r = set()
        for x in succ[b]:
            r.add(x)
            r |= go(x)
        memo[b] = r
        return r
    import sys
    sys.setrecursionlimit(10000)
    for b in cfg.reach:
        go(b)
    return memo


class _Reads:
    """for every function the set of generic access paths rooted at its parameters that it may read: copies / moves of such places, arguments handed to functions outside
    the crate, and the reads of crate callees mapped through the arguments.  Borrows are not reads; what is done with the borrow is."""

    def __init__(self, W):
        self.W = W
        self.memo = {}

    @staticmethod
    def _rooted(ap):
        return ap.root[0] in ('arg', 'upvar') or (ap.root[0] == 'expr' and (ap.root[1].startswith('self') or ap.root[1].startswith('arg')))

    def events(self, fn, _stack=()):
        """[(kind 'R', bb, idx, path)] for the function itself, callee reads included"""
        W = self.W
        cx = W.ctx(fn)
        cfg = cfg_of(fn)
        out = []

        def path(pl):
            try:
                ap = cx.ap_carry(pl)
            except Exception:
                return None
            if not self._rooted(ap):
                return None
            return ap.s(fn, generic=True)
        for b in fn.blocks:
            if b.cleanup or b.id not in cfg.reach:
                continue
            for i, st in enumerate(b.stmts):
                if st.k != 'assign' or any(m.split('::')[-1] in SKIP_MACROS for m in st.span['mac']):
                    continue
                for op in st.rv.operands():
                    if op.is_place() and op.place.proj:
                        a = path(op.place)
                        if a:
                            out.append(('R', b.id, i, a))
                if st.rv.place is not None and st.rv.k != 'ref' and st.rv.place.proj:
                    a = path(st.rv.place)
                    if a:
                        out.append(('R', b.id, i, a))
            t = b.term
            if t.k != 'call' or any(m.split('::')[-1] in SKIP_MACROS for m in t.macros):
                continue
            n = len(b.stmts)
            tg = [g for g in W.cg.targets(t.callee) if g.kind != 'closure']
            if not tg:
                if last_seg(t.callee.best or '') in ('index', 'index_mut', 'deref', 'deref_mut', 'as_ref', 'as_mut', 'borrow', 'borrow_mut', 'get_mut', 'iter_mut', 'values_mut'):
                    continue     # hands out a reference into the container: the read (or write) is what is done through it, recorded with its full path
                for a2 in t.args:
                    if a2.is_place():
                        a = path(a2.place)
                        if a and '.' in a:
                            out.append(('R', b.id, n, a))
                continue
            for g in tg:
                if g in _stack or g is fn:
                    continue
                mapping = {}
                for i2, a2 in enumerate(t.args):
                    nm = 'self' if g.local_name(i2 + 1) == 'self' else 'arg%d' % (i2 + 1)
                    mapping[nm] = path(a2.place) if a2.is_place() else None
                from .world import _subst_root
                for e in self.of(g, _stack + (fn,)):
                    r = _subst_root(e, mapping)
                    if r is not None and '.' in r:
                        out.append(('R', b.id, n, r))
        return out

    def of(self, fn, _stack=()):
        if fn in self.memo:
            return self.memo[fn]
        res = set(a for _, _, _, a in self.events(fn, _stack))
        if not _stack:
            self.memo[fn] = res
        return res


ORDER_ACCESSORS = {'index_mut', 'iter_mut', 'get_mut', 'values_mut', 'deref_mut', 'as_mut', 'as_mut_slice', 'last_mut', 'first_mut', 'front_mut', 'back_mut', 'borrow_mut', 'entry',
                   'into_iter', 'next', 'by_ref'}


def compute_orders(W):
    """{function: {field path: [reads after a write, writes after a read, writes after a write]}} -- pairs of events on the same field of `self` where one event's
    position can reach the other's without taking a loop's back edge (events in different branches are not ordered and not counted).  Reads = a statement or call argument that copies / borrows the
    field (that is where a snapshot is taken); writes = stores and calls of crate functions whose effect summary includes the field.  Logging is ignored."""
    from .world import Effects, _subst_root
    E = Effects(W)
    RD = _Reads(W)
    res = {}
    for f in W.fns():
        if f.derived or 'tests' in f.path or 'sessions::builder' in f.path or f.kind == 'closure':
            continue
        cx = W.ctx(f)
        cfg = cfg_of(f)
        ev = {}       # field -> [(kind, bb, idx)]

        def fld2(pl):
            try:
                a = cx.ap_carry(pl).s(f, generic=True)
            except Exception:
                return None
            import re
            return re.sub(r'\[[^\]]*\]', '[*]', a) if a.startswith('self.') else None

        def fld(pl):
            if not pl.proj:
                return None
            try:
                a = cx.ap_carry(pl).s(f, generic=True)
            except Exception:
                return None
            if not a.startswith('self.'):
                return None
            import re
            a = re.sub(r'\[[^\]]*\]', '[*]', a)
            return a
        for b in f.blocks:
            if b.cleanup or b.id not in cfg.reach:
                continue
            for i, s in enumerate(b.stmts):
                if s.k != 'assign' or any(m.split('::')[-1] in SKIP_MACROS for m in s.span['mac']):
                    continue
                if s.place.proj:
                    a = fld(s.place)
                    if a:
                        ev.setdefault(a, []).append(('W', b.id, i))
            t = b.term
            if t.k == 'call' and not any(m.split('::')[-1] in SKIP_MACROS for m in t.macros):
                n = len(b.stmts)
                if t.dest.proj:
                    a = fld(t.dest)
                    if a:
                        ev.setdefault(a, []).append(('W', b.id, n))
                for g in W.cg.targets(t.callee):
                    if g.kind == 'closure':
                        continue
                    mapping = {}
                    for i2, a2 in enumerate(t.args):
                        nm = 'self' if g.local_name(i2 + 1) == 'self' else 'arg%d' % (i2 + 1)
                        if a2.is_place():
                            try:
                                mapping[nm] = cx.ap_carry(a2.place).s(f, generic=True)
                            except Exception:
                                mapping[nm] = None
                    for e in E.of(g):
                        r = _subst_root(e, mapping)
                        if r and r.startswith('self.'):
                            import re
                            ev.setdefault(re.sub(r'\[[^\]]*\]', '[*]', r), []).append(('W', b.id, n))
        import re
        for (k, bb, ix, a) in RD.events(f):
            if a.startswith('self.'):
                ev.setdefault(re.sub(r'\[[^\]]*\]', '[*]', a), []).append(('R', bb, ix))
        # a std call handed `&mut self.x` writes it
        for b in f.blocks:
            t = b.term
            if b.cleanup or b.id not in cfg.reach or t.k != 'call' or W.cg.targets(t.callee):
                continue
            if last_seg(t.callee.best or '') in ORDER_ACCESSORS:
                continue     # index_mut / iter_mut / get_mut ... hand out a reference: the write is the store made through it, recorded with its full path
            for i2, ty in enumerate(t.arg_tys or []):
                if ty.startswith('&mut ') and t.args[i2].is_place():
                    a = fld2(t.args[i2].place)
                    if a:
                        ev.setdefault(a, []).append(('W', b.id, len(b.stmts)))
        # reads and writes of a field and of what lies beneath it concern each other: group by the longest written path that is a prefix
        written = sorted(set(a for a, lst in ev.items() if any(k == 'W' for k, _, _ in lst)))
        grouped = {}
        for a, lst in ev.items():
            for w in written:
                if a == w or a.startswith(w + '.') or a.startswith(w + '[') or w.startswith(a + '.') or w.startswith(a + '['):
                    grouped.setdefault(w, []).extend(x for x in lst if a == w or x[0] == 'R')
        fwd = _forward_reach(cfg)
        out = {}
        for a, lst in grouped.items():
            lst = sorted(set(lst))
            wr = rw = ww = 0
            for (k1, b1, i1) in lst:
                for (k2, b2, i2) in lst:
                    if (b1, i1) == (b2, i2) and k1 == k2:
                        continue
                    first = (b1 == b2 and i1 < i2) or (b1 != b2 and b2 in fwd.get(b1, ()))
                    if not first:
                        continue
                    if k1 == 'W' and k2 == 'R':
                        wr += 1
                    elif k1 == 'R' and k2 == 'W':
                        rw += 1
                    elif k1 == 'W' and k2 == 'W':
                        ww += 1
            out[a] = [wr, rw, ww]
        if out:
            res[short(f.path)] = out
    return res


def order_rule_for(pid):
    """for every (function, field of self) the table knows: how many reads of the field come after a write of it, how many writes after a read, how many writes after a
    write -- counted over pairs of events whose positions are ordered by dominance -- is what was reviewed.  Two statements swapped so that a snapshot is taken before
    instead of after an update, a cursor advanced before instead of after the element is stored, a value read after the call that changes it, move one pair from one
    count to another; statements on different fields, branches turned round, renamed locals, added logging do not."""
    def rule(W, ob):
        tab = _tab('orders.json')['functions']
        cur = compute_orders(W)
        n = 0
        for fn, flds in sorted(cur.items()):
            if pid not in CALLER_PROPS.get(fn.split('::')[0], []) or fn not in tab:
                continue
            for a, cnt in sorted(flds.items()):
                if a not in tab[fn]:
                    continue
                n += 1
                ref = tab[fn][a]
                # a swap moves one ordered pair from "write after read" to "read after write" (or back) and leaves their sum alone; events that appear or disappear
                # (a helper extracted, a read added) change the sum and are the business of the other inventories
                swapped = cnt[0] + cnt[1] == ref[0] + ref[1] and cnt[:2] != ref[:2]
                ob.check(not swapped, 'order|%s|%s' % (fn, a), '%s: reads / writes of `%s` are ordered as reviewed' % (fn, a),
                         '%s: the order of the reads and writes of `%s` changed: [reads after a write, writes after a read, writes after a write] is now %s, reviewed %s -- a statement '
                         'moved across another one that touches the same field, so something reads a value one step too old or too new' % (fn, a, cnt, tab[fn][a]), None)
        ob.info('%d (function, field) access orders compared for %s' % (n, pid))
    return rule
