"""Two whole-crate inventories that close lists the other rules leave open.

State inventory (Cxx.S).  Every field of the session / endpoint / sync-layer structs is listed in tables/state.json with the functions that write it (a store
to it or through it, a mutable borrow of it, a call that returns into it; constructors excluded).  A field the table does not know is NEW STATE THAT LIVES
ACROSS CALLS -- a cached clock reading, a "nothing happened since" flag, a stored deadline, a per-session copy of a per-player value -- and is reported until
someone has read what keeps it in step with the state it shadows.  A new writer of a known field is reported likewise (a second place that resets a marker,
re-arms a timer, moves a cursor).  The struct list and the writer sets are computed from the typed MIR, owner-aware (a field is identified by the ADT the
MIR projection names, not by its spelling).

Error-exit inventory (C16.E and the properties whose API it is).  Every construction of a GgrsError variant is a site (function, variant); the set per
function is listed in tables/error_exits.json.  A new pair is a call that can now fail in a new way -- typically after effects that the dropped request list
was supposed to carry."""
import json
import os

from .lib import *
from .facts import strip_generics

VERIF = os.path.dirname(os.path.dirname(os.path.abspath(__file__)))
STRUCTS = {
    'P2PSession': ['C01', 'C02', 'C03', 'C04', 'C06', 'C07', 'C09', 'C10', 'C11', 'C12', 'C15', 'C16', 'C17', 'C18'],
    'UdpProtocol': ['C01', 'C05', 'C07', 'C08', 'C10', 'C12', 'C15', 'C18'],
    'SyncLayer': ['C01', 'C02', 'C03', 'C04', 'C11', 'C13'],
    'InputQueue': ['C01', 'C03', 'C04', 'C11'],
    'SavedStates': ['C02', 'C13'],
    'GameState': ['C02', 'C09', 'C13'],
    'SpectatorSession': ['C05', 'C06', 'C12'],
    'SyncTestSession': ['C13', 'C16'],
    'TimeSync': ['C15'],
    'PlayerRegistry': ['C16', 'C17'],
    'InputBytes': ['C05', 'C08'],
    'SessionBuilder': ['C16', 'C12', 'C13'],
}


def _tab(name):
    with open(os.path.join(VERIF, 'tables', name)) as f:
        return json.load(f)


def field_writers(W):
    """{(struct, field): set(short function names)} -- constructors (`new`, `default`) excluded"""
    c = getattr(W, '_field_writers', None)
    if c is not None:
        return c
    out = {}

    def mark(f, pl):
        last = f.path.split('::')[-1]
        if last in ('new', 'default'):
            return
        host = f.parent if f.kind == 'closure' and f.parent else f.path
        for e in pl.proj:
            if isinstance(e, dict) and 'f' in e:
                out.setdefault((strip_generics(e['adt']).split('::')[-1], e['f']), set()).add(short(host))
    for f in W.fns():
        if f.derived:
            continue
        for b in f.blocks:
            if b.cleanup:
                continue
            for s in b.stmts:
                if s.k in ('assign', 'setdiscr'):
                    if s.place.proj:
                        mark(f, s.place)
                    if s.k == 'assign' and s.rv.k == 'ref' and s.rv.j.get('mut') and s.rv.place.proj:
                        mark(f, s.rv.place)
            t = b.term
            if t.k == 'call' and t.dest.proj:
                mark(f, t.dest)
    W._field_writers = out
    return out


def compute_state(W):
    fw = field_writers(W)
    res = {}
    for st in STRUCTS:
        try:
            fl = W.struct_fields(st)
        except AnchorMissing:
            continue
        res[st] = {x['name']: sorted(fw.get((st, x['name']), ())) for x in fl}
    return res


def _only_called_from(W, g_short, allowed, depth=0):
    fs = [f for f in W.fns() if short(f.path) == g_short]
    if not fs or depth > 3:
        return False
    callers = set()
    for f in fs:
        for c in W.cg.callers.get(f, ()):
            callers.add(short(c.parent if c.kind == 'closure' and c.parent else c.path))
    callers.discard(g_short)
    return bool(callers) and all(c in allowed or _only_called_from(W, c, allowed, depth + 1) for c in callers)


def _still_writes(W, g_short, st, fld):
    fw = field_writers(W)
    ws = fw.get((st, fld), set())
    fs = [f for f in W.fns() if short(f.path) == g_short and f.kind != 'closure']
    if not fs:
        return True     # the function itself is gone: an anchor problem, reported by the rules that name it
    for f in fs:
        for h in W.cg.may_call_closure(f):
            if short(h.parent if h.kind == 'closure' and h.parent else h.path) in ws:
                return True
    return False


def state_rule_for(pid):
    def rule(W, ob):
        tab = _tab('state.json')['structs']
        cur = compute_state(W)
        n = 0
        for st, props in STRUCTS.items():
            if pid not in props:
                continue
            if st not in cur:
                ob.fail('state|%s|missing' % st, 'struct %s not found (anchor)' % st, None)
                continue
            known = tab.get(st, {})
            for fld, ws in cur[st].items():
                n += 1
                if fld not in known:
                    ob.fail('state|%s.%s|new-field' % (st, fld), '%s has a field `%s` the state inventory does not know (written by: %s): new state that lives across calls -- '
                            'what keeps it in step with the state it caches, counts or shadows has not been reviewed (tables/state.json)' % (st, fld, ', '.join(ws) or 'constructor only'), None)
                    continue
                extra = sorted(set(ws) - set(known[fld]))
                # a helper that only reviewed writers call (an extracted store) is not a new writer
                extra = [g for g in extra if not _only_called_from(W, g, set(known[fld]))]
                # ... and a reviewed writer that no longer writes it (directly or through anything it calls) is a store that was deleted
                lost = [g for g in known[fld] if g not in ws and not _still_writes(W, g, st, fld)]
                if lost:
                    ob.fail('state|%s.%s|lost-writer' % (st, fld), '%s no longer writes %s.%s (neither itself nor through a function it calls): an update, reset or re-arm of that '
                            'field was removed' % (', '.join(lost), st, fld), None)
                ob.check(not extra, 'state|%s.%s|new-writer' % (st, fld), '%s.%s is written only by its %d reviewed writer(s)' % (st, fld, len(known[fld])),
                         '%s.%s is now also written by %s (reviewed writers: %s)' % (st, fld, ', '.join(extra), ', '.join(known[fld]) or 'constructor only'), None)
        ob.require_count(n, 3, 'fields in the state inventory for %s' % pid)
    return rule


def compute_errors(W):
    res = {}
    for f, s in W.constructions('GgrsError'):
        host = f.parent if f.kind == 'closure' and f.parent else f.path
        res.setdefault(short(host), set()).add(s.rv.j['variant'])
    return {k: sorted(v) for k, v in res.items()}


def error_rule(W, ob):
    tab = _tab('error_exits.json')['functions']
    cur = compute_errors(W)
    n = 0
    for fn, vs in sorted(cur.items()):
        for v in vs:
            n += 1
            ob.check(v in tab.get(fn, []), 'error-exit|%s|%s' % (fn, v), '%s can fail with %s (reviewed)' % (fn, v),
                     '%s can now fail with GgrsError::%s, an error exit the inventory does not know (tables/error_exits.json): what the session has already done when it is taken, '
                     'and what becomes of the requests collected so far, has not been reviewed' % (fn, v), None)
    ob.require_count(n, 20, 'error exits')


# ---------------------------------------------------------------------------------------------------------------------------------------
# call inventory: calls of functions that write state
# ---------------------------------------------------------------------------------------------------------------------------------------
CALLER_PROPS = dict(STRUCTS)
CALLER_PROPS.update({'compression': ['C14', 'C08'], 'GameStateCell': ['C02', 'C13']})


def compute_edges(W):
    from .world import Effects
    E = Effects(W)
    edges = set()
    for f in W.fns():
        if f.derived or 'tests' in f.path:
            continue
        host = f.parent if f.kind == 'closure' and f.parent else f.path
        for t in f.calls():
            for g in W.cg.targets(t.callee):
                if g.derived or g.kind == 'closure' or g.path == host:
                    continue
                if E.of(g):
                    edges.add((short(host), short(g.path)))
    return sorted(edges)


def call_rule_for(pid):
    """every reviewed call of a state-writing function is still made (directly or through helpers): a call that was deleted as 'redundant' is reported"""
    def rule(W, ob):
        tab = _tab('call_edges.json')['edges']
        by_short = {}
        for f in W.fns():
            if f.kind != 'closure' and not f.derived:
                by_short.setdefault(short(f.path), []).append(f)
        n = 0
        for x, y in tab:
            if pid not in CALLER_PROPS.get(x.split('::')[0], []):
                continue
            fx, fy = by_short.get(x), by_short.get(y)
            if not fx or not fy:
                ob.info('call inventory: %s -> %s skipped (%s no longer exists; the rules that name it report that)' % (x, y, x if not fx else y))
                continue
            n += 1
            reach = set()
            for f in fx:
                reach |= {short(h.parent if h.kind == 'closure' and h.parent else h.path) for h in W.cg.may_call_closure(f)}
                for c in W.closures_of(f):
                    reach |= {short(h.parent if h.kind == 'closure' and h.parent else h.path) for h in W.cg.may_call_closure(c)}
            ob.check(y in reach, 'call|%s|%s' % (x, y), '%s still calls %s' % (x, y),
                     '%s no longer calls %s (neither directly nor through a helper): a call of a function that writes state was removed' % (x, y), where(fx[0]))
        ob.require_count(n, 1, 'reviewed calls of state-writing functions for %s' % pid)
        debug_purity(W, ob)
    return rule


DEBUG_ONLY = ('debug_assert', 'debug_assert_eq', 'debug_assert_ne', 'trace', 'debug', 'info', 'warn', 'error', 'event')


def debug_purity(W, ob):
    """code that exists only in some builds -- the arguments of debug_assert!* (compiled out without debug assertions) and of the tracing macros (evaluated only
    when a subscriber enables the level) -- changes no state: otherwise the tests (debug build, no subscriber) and a release build with logging run different programs"""
    from .world import Effects
    E = Effects(W)
    n = 0
    for f in W.fns():
        if f.derived:
            continue
        in_macro_closure = f.kind == 'closure' and any(any(m.split('::')[-1] in DEBUG_ONLY for m in t.macros) for p2 in W.fns() if p2.path == f.parent for t in p2.calls()
                                                       if W.cg.targets(t.callee) and f in W.cg.targets(t.callee))
        # the region guarded by `if cfg!(debug_assertions)` of a debug_assert!*: macro ARGUMENTS keep their own spans, so the region is found on the CFG
        region = set()
        cfgf = cfg_of(f)
        for b in f.blocks:
            tt = b.term
            if tt.k == 'switch' and any(m.split('::')[-1].startswith('debug_assert') or m.split('::')[-1] in DEBUG_ONLY for m in tt.macros):
                tgt = tt.otherwise
                region |= {x.id for x in f.blocks if not x.cleanup and x.id in cfgf.reach and cfgf.dominates(tgt, x.id)}
        for t in f.calls():
            inside = in_macro_closure or t.bb in region or any(m.split('::')[-1] in DEBUG_ONLY for m in t.macros)
            if not inside:
                continue
            n += 1
            tg = [g for g in W.cg.targets(t.callee) if g.kind != 'closure']
            eff = [g for g in tg if any(not e.startswith('local') for e in E.of(g))]
            muts = [i for i, ty in enumerate(t.arg_tys or []) if ty.startswith('&mut ') and t.args[i].is_place() and
                    W.ctx(f).ap_carry(t.args[i].place).root[0] in ('arg', 'upvar')]
            host = f.parent if f.kind == 'closure' and f.parent else f.path
            if (eff and muts) or (muts and not tg and (t.callee.crate or '') not in ('tracing', 'tracing_core', 'core', 'std', 'alloc')):
                ob.fail('debug-only-effect|%s|%s' % (short(host), short(t.callee.best or '?')),
                        '%s calls %s inside a debug_assert!/tracing macro: the call changes state, but it is compiled out (or not evaluated) in builds without debug assertions / '
                        'without a subscriber at that level -- debug and release builds run different programs' % (short(host), short(t.callee.best or '?')), where(f, t.line))
    ob.require_count(n, 15, 'calls inside debug-only macros')
