"""Kill matrix (thorough tier / development): every mutant of a property is applied to a scratch copy of the CURRENT
/repo tree, facts are re-extracted and the obligation it targets must flip to `violated`.

Mutants are (file, old, new) replacements in selftest/mutants_src.py (the old text must occur exactly once in today's
file, otherwise the mutant is reported as skipped) and the unified diffs kept under seeded/<id>/patch.diff.
Nothing here decides a property: it demonstrates on the tree being judged that the rules fire on one-instance-broken
variants.  Scratch copies live under mktemp and are removed right after use."""
import json
import os
import shutil
import subprocess
import sys
import tempfile
import time
from concurrent.futures import ThreadPoolExecutor

from . import extract as extract_mod
from .facts import Facts
from .world import World

VERIF = os.path.dirname(os.path.dirname(os.path.abspath(__file__)))


def load_mutants(pid=None):
    p = os.path.join(VERIF, 'selftest', 'mutants_src.py')
    ms = []
    if os.path.exists(p):
        import runpy
        ms = list(runpy.run_path(p)['MUTANTS'])
    sd = os.path.join(VERIF, 'seeded')
    if os.path.isdir(sd):
        for d in sorted(os.listdir(sd)):
            meta = os.path.join(sd, d, 'meta.json')
            patch = os.path.join(sd, d, 'patch.diff')
            if os.path.exists(meta) and os.path.exists(patch):
                with open(meta) as f:
                    m = json.load(f)
                ms.append(dict(id='seeded/' + d, property=m.get('property'), expect=m.get('caught_by', []),
                               patch=patch, desc=m.get('summary', '')))
    nd = os.path.join(VERIF, 'neutral')
    if os.path.isdir(nd):
        # behaviour-preserving refactorings written by independent sub-agents: every check must stay quiet on them
        for d in sorted(os.listdir(nd)):
            patch = os.path.join(nd, d, 'patch.diff')
            if os.path.exists(patch):
                meta = {}
                if os.path.exists(os.path.join(nd, d, 'meta.json')):
                    with open(os.path.join(nd, d, 'meta.json')) as f:
                        meta = json.load(f)
                ms.append(dict(id='neutral/ext-' + d, property=implemented(), expect=[], neutral=True, patch=patch,
                               desc=meta.get('summary', '')))
    if pid:
        ms = [m for m in ms if pid in as_list(m.get('check', m.get('property')))]
    return ms


def as_list(x):
    if x is None:
        return []
    return x if isinstance(x, list) else [x]


def make_scratch(repo):
    d = tempfile.mkdtemp(prefix='ggrs-mut-')
    shutil.copytree(os.path.join(repo, 'src'), os.path.join(d, 'src'))
    for f in ('Cargo.toml', 'Cargo.lock'):
        shutil.copy(os.path.join(repo, f), os.path.join(d, f))
    return d


def apply_mutant(m, scratch):
    if 'patch' in m:
        p = subprocess.run(['patch', '-p1', '--no-backup-if-mismatch', '-s', '-i', m['patch']], cwd=scratch,
                           stdout=subprocess.PIPE, stderr=subprocess.STDOUT, text=True)
        return p.returncode == 0, p.stdout[-300:]
    edits = m.get('edits') or [dict(file=m['file'], old=m['old'], new=m['new'])]
    for e in edits:
        path = os.path.join(scratch, e['file'])
        with open(path) as f:
            s = f.read()
        if s.count(e['old']) != 1:
            return False, 'old text occurs %d times in %s' % (s.count(e['old']), e['file'])
        with open(path, 'w') as f:
            f.write(s.replace(e['old'], e['new']))
    return True, ''


def run_one(m, repo, slot, pids=None):
    from . import engine
    scratch = make_scratch(repo)
    res = dict(id=m['id'], desc=m.get('desc', ''), expect=as_list(m.get('expect')))
    try:
        ok, msg = apply_mutant(m, scratch)
        if not ok:
            res['status'] = 'skipped'
            res['detail'] = 'does not apply to the current tree: ' + msg
            return res
        tdir = os.path.join(extract_mod.CACHE, 'target-mut-%d' % slot)
        try:
            try:
                paths, info = extract_mod.extract(scratch, 'default', target_dir=tdir)
            except RuntimeError:
                time.sleep(1.0)     # one retry: a transient failure of the shared cargo cache must not be reported as "does not compile"
                paths, info = extract_mod.extract(scratch, 'default', target_dir=tdir)
        except RuntimeError as e:
            res['status'] = 'does-not-compile'
            res['detail'] = str(e)
            return res
        W = World(Facts(paths['ggrs']))
        W.repo = scratch
        shutil.rmtree(os.path.dirname(paths['ggrs']), ignore_errors=True)
        fired = []
        known = {k['key'] for k in engine.known_findings().get('known', [])}
        props = pids or as_list(m.get('check', m.get('property')))
        for pid in props:
            mod, obs = engine.run_obligations(pid, W, 'quick', 'default')
            for ob in obs:
                for v in ob.violations:
                    if v['key'] in known:
                        continue
                    fired.append(dict(ob=ob.id, key=v['key'], what=v['what'][:300], where=v.get('where')))
        res['fired'] = fired
        exp = res['expect']
        hit = [f for f in fired if not exp or any(f['ob'] == e or f['ob'].startswith(e) for e in exp)]
        if m.get('neutral'):
            res['status'] = 'FALSE-ALARM' if fired else 'quiet-ok'
        else:
            res['status'] = 'killed' if hit else ('killed-elsewhere' if fired else 'missed')
        return res
    finally:
        shutil.rmtree(scratch, ignore_errors=True)


def _facts_only(m, repo, slot, outdir):
    """scratch copy + patch + fact extraction; returns (status, detail, path of the kept fact file or None)"""
    scratch = make_scratch(repo)
    try:
        ok, msg = apply_mutant(m, scratch)
        if not ok:
            return 'skipped', 'does not apply to the current tree: ' + msg, None
        tdir = os.path.join(extract_mod.CACHE, 'target-mut-%d' % slot)
        try:
            try:
                paths, info = extract_mod.extract(scratch, 'default', target_dir=tdir)
            except RuntimeError:
                time.sleep(1.0)
                paths, info = extract_mod.extract(scratch, 'default', target_dir=tdir)
        except RuntimeError as e:
            return 'does-not-compile', str(e), None
        out = os.path.join(outdir, m['id'].replace('/', '_') + '.json')
        shutil.copy(paths['ggrs'], out)
        shutil.rmtree(os.path.dirname(paths['ggrs']), ignore_errors=True)
        return 'ok', '', out
    finally:
        shutil.rmtree(scratch, ignore_errors=True)


def _evaluate(args):
    """(process pool) the obligations of the given properties on a kept fact file"""
    path, props = args
    from . import engine
    W = World(Facts(path))
    known = {k['key'] for k in engine.known_findings().get('known', [])}
    fired = []
    for pid in props:
        mod, obs = engine.run_obligations(pid, W, 'quick', 'default')
        for ob in obs:
            for v in ob.violations:
                if v['key'] not in known:
                    fired.append(dict(ob=ob.id, key=v['key'], what=v['what'][:300], where=v.get('where')))
    return fired


def run(pid=None, repo='/repo', jobs=8, quiet=False, ids=None):
    """facts of every mutant / neutral edit / seeded change of the property are extracted on scratch copies of the current tree (threads: the work is in cargo),
    then the property's obligations are evaluated on each in a process pool (the rule engine is CPU-bound python)."""
    from concurrent.futures import ProcessPoolExecutor
    ms = load_mutants(pid)
    if ids:
        ms = [m for m in ms if any(i in m['id'] for i in ids)]
    t0 = time.time()
    main_t = os.path.join(extract_mod.CACHE, 'target-default')
    for s in range(jobs):
        tdir = os.path.join(extract_mod.CACHE, 'target-mut-%d' % s)
        if not os.path.isdir(tdir) and os.path.isdir(main_t):
            shutil.copytree(main_t, tdir, symlinks=True)
    import queue
    slots = queue.Queue()
    for s in range(jobs):
        slots.put(s)
    outdir = tempfile.mkdtemp(prefix='ggrs-km-facts-')

    def work(m):
        s = slots.get()
        try:
            return _facts_only(m, repo, s, outdir)
        except Exception as e:  # never let the self-test break a check
            return 'error', '%s: %s' % (type(e).__name__, e), None
        finally:
            slots.put(s)
    try:
        with ThreadPoolExecutor(max_workers=jobs) as ex:
            fx = list(ex.map(work, ms))
        todo = [(i, path) for i, (st, det, path) in enumerate(fx) if path]
        fired_by = {}
        with ProcessPoolExecutor(max_workers=min(14, max(1, len(todo)))) as ex:
            for (i, path), fired in zip(todo, ex.map(_evaluate, [(path, [pid] if pid else as_list(ms[i].get('check', ms[i].get('property')))) for i, path in todo])):
                fired_by[i] = fired
    finally:
        shutil.rmtree(outdir, ignore_errors=True)
    results = []
    for i, m in enumerate(ms):
        st, det, path = fx[i]
        res = dict(id=m['id'], desc=m.get('desc', ''), expect=as_list(m.get('expect')))
        if path is None:
            res['status'] = st
            res['detail'] = det
        else:
            fired = fired_by.get(i, [])
            res['fired'] = fired
            exp = res['expect']
            hit = [f for f in fired if not exp or any(f['ob'] == e or f['ob'].startswith(e) for e in exp)]
            if m.get('neutral'):
                res['status'] = 'FALSE-ALARM' if fired else 'quiet-ok'
            else:
                res['status'] = 'killed' if hit else ('killed-elsewhere' if fired else 'missed')
        results.append(res)
    summary = {}
    for r in results:
        summary[r['status']] = summary.get(r['status'], 0) + 1
    if not quiet:
        for r in results:
            line = 'MUTANT %-40s %-16s expect=%s' % (r['id'], r['status'], ','.join(r.get('expect', [])))
            if r['status'] in ('killed', 'killed-elsewhere'):
                line += ' fired=' + ','.join(sorted({f['ob'] for f in r['fired']}))
            elif r.get('detail'):
                line += ' ' + r['detail'][:200]
            print(line)
        print('kill matrix%s: %s in %.0fs' % ((' ' + pid) if pid else '', summary, time.time() - t0))
    out = os.path.join(VERIF, 'evidence', 'killmatrix-%s.json' % (pid or 'all'))
    os.makedirs(os.path.dirname(out), exist_ok=True)
    with open(out, 'w') as f:
        json.dump(dict(property=pid, summary=summary, results=results, wall_s=round(time.time() - t0, 1)), f, indent=1)
    # a missed mutant is a weakness of the checker, not a violation of the property on /repo: reported, never an alarm
    return dict(summary=summary, wall_s=round(time.time() - t0, 1),
                results=[dict(id=r['id'], status=r['status'], expect=r.get('expect', []), fired=sorted({f['ob'] for f in r.get('fired', [])}),
                              detail=r.get('detail', '')[:200]) for r in results])


def implemented():
    return sorted(f[:-3].upper() for f in os.listdir(os.path.join(VERIF, 'rules')) if len(f) == 6 and f[0] == 'c' and f[1:3].isdigit() and f.endswith('.py'))


def run_seeds(jobs=6, ids=None, prefix='seeded/', tag='seeds'):
    """every seeded change (or every neutral edit) against every implemented property check"""
    ms = [m for m in load_mutants() if m['id'].startswith(prefix)]
    if ids:
        ms = [m for m in ms if any(i in m['id'] for i in ids)]
    props = implemented()
    main_t = os.path.join(extract_mod.CACHE, 'target-default')
    for s2 in range(jobs):
        tdir = os.path.join(extract_mod.CACHE, 'target-mut-%d' % s2)
        if not os.path.isdir(tdir) and os.path.isdir(main_t):
            shutil.copytree(main_t, tdir, symlinks=True)
    import queue
    slots = queue.Queue()
    for s2 in range(jobs):
        slots.put(s2)

    def work(m):
        s2 = slots.get()
        try:
            return run_one(m, '/repo', s2, props)
        except Exception as e:
            return dict(id=m['id'], status='error', detail='%s: %s' % (type(e).__name__, e), expect=[])
        finally:
            slots.put(s2)
    with ThreadPoolExecutor(max_workers=jobs) as ex:
        results = list(ex.map(work, ms))
    for r in results:
        fired = sorted({f['ob'] for f in r.get('fired', [])})
        print('%s %-44s %-18s fired=%s %s' % (tag.upper()[:-1], r['id'], r['status'], ','.join(fired), r.get('detail', '')[:150]))
    with open(os.path.join(VERIF, 'evidence', 'killmatrix-%s.json' % tag), 'w') as f:
        json.dump(dict(results=results), f, indent=1)
    return results


if __name__ == '__main__':
    import argparse
    ap = argparse.ArgumentParser()
    ap.add_argument('property', nargs='?')
    ap.add_argument('--ids', nargs='*')
    ap.add_argument('--jobs', type=int, default=4)
    ap.add_argument('--seeds', action='store_true')
    ap.add_argument('--neutral', action='store_true')
    a = ap.parse_args()
    if a.seeds:
        run_seeds(a.jobs, a.ids)
        sys.exit(0)
    if a.neutral:
        run_seeds(a.jobs, a.ids, prefix='neutral/', tag='neutrals')
        sys.exit(0)
    run(a.property, ids=a.ids, jobs=a.jobs)
    sys.exit(0)
