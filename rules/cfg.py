"""Analysis A / A': per-function CFG without unwind edges, dominators, reachability-with-removal,
call graph, may-call closure and must-call summaries.  Rule-free."""
from collections import defaultdict


class CFG:
    def __init__(self, fn):
        self.fn = fn
        n = len(fn.blocks)
        self.n = n
        self.succ = [[] for _ in range(n)]
        self.pred = [[] for _ in range(n)]
        for b in fn.blocks:
            if b.cleanup:
                continue
            for s in b.term.succs():
                if fn.blocks[s].cleanup:
                    continue
                if s not in self.succ[b.id]:
                    self.succ[b.id].append(s)
                    self.pred[s].append(b.id)
        self.returns = [b.id for b in fn.blocks if not b.cleanup and b.term.k == 'return']
        self.reach = self._reach_from(0, set())
        self._dom = None
        self._idom = None

    def _reach_from(self, start, removed, stop=None):
        seen = set()
        if start in removed:
            return seen
        st = [start]
        seen.add(start)
        while st:
            x = st.pop()
            if stop is not None and x in stop:
                continue
            for s in self.succ[x]:
                if s in removed or s in seen:
                    continue
                seen.add(s)
                st.append(s)
        return seen

    def reachable(self, start, removed=(), include_start=True):
        r = self._reach_from(start, set(removed))
        return r

    def reachable_after(self, start, removed=()):
        """blocks reachable from the successors of `start` (start itself only if on a cycle)"""
        removed = set(removed)
        seen = set()
        st = []
        for s in self.succ[start]:
            if s not in removed and s not in seen:
                seen.add(s)
                st.append(s)
        while st:
            x = st.pop()
            for s in self.succ[x]:
                if s in removed or s in seen:
                    continue
                seen.add(s)
                st.append(s)
        return seen

    # ---- dominators (iterative, small graphs) ----
    def dominators(self):
        if self._dom is not None:
            return self._dom
        nodes = sorted(self.reach)
        dom = {x: set(nodes) for x in nodes}
        dom[0] = {0}
        changed = True
        order = self._rpo()
        while changed:
            changed = False
            for x in order:
                if x == 0:
                    continue
                ps = [p for p in self.pred[x] if p in dom]
                if not ps:
                    continue
                new = set.intersection(*(dom[p] for p in ps)) | {x}
                if new != dom[x]:
                    dom[x] = new
                    changed = True
        self._dom = dom
        return dom

    def _rpo(self):
        seen = set()
        order = []

        def dfs(x):
            stack = [(x, iter(self.succ[x]))]
            seen.add(x)
            while stack:
                node, it = stack[-1]
                adv = False
                for s in it:
                    if s not in seen:
                        seen.add(s)
                        stack.append((s, iter(self.succ[s])))
                        adv = True
                        break
                if not adv:
                    order.append(node)
                    stack.pop()
        dfs(0)
        order.reverse()
        return order

    def dominates(self, a, b):
        d = self.dominators()
        return b in d and a in d[b]

    def idom(self, b):
        if self._idom is None:
            d = self.dominators()
            self._idom = {}
            for x, ds in d.items():
                if x == 0:
                    self._idom[x] = None
                    continue
                strict = ds - {x}
                # the immediate dominator is the strict dominator dominated by all other strict dominators
                best = None
                for c in strict:
                    if all((o in d[c]) for o in strict):
                        best = c
                        break
                self._idom[x] = best
        return self._idom.get(b)

    def back_edges(self):
        d = self.dominators()
        r = set()
        for x in self.reach:
            for s in self.succ[x]:
                if s in d.get(x, ()):
                    r.add((x, s))
        return r

    # ---- path predicates ----
    def every_path_to_passes(self, targets, through, start=0):
        """True iff every path start -> T (T any block in targets) contains a block of `through` strictly
        before T.  (A block holds at most one call, as its terminator: a `through` call located in T itself
        executes after T's statements and is not counted for T.)"""
        return self.path_avoiding(targets, through, start) is None

    def path_avoiding(self, targets, through, start=0):
        """a witness path start -> target with no `through` block strictly before the target, or None"""
        targets = set(targets)
        through = set(through)
        prev = {start: None}
        q = [start]
        while q:
            x = q.pop(0)
            if x in targets:
                p = []
                while x is not None:
                    p.append(x)
                    x = prev[x]
                return list(reversed(p))
            if x in through:
                continue
            for s in self.succ[x]:
                if s not in prev:
                    prev[s] = x
                    q.append(s)
        return None

    def every_path_from_passes(self, start_blocks, through, ends=None):
        """True iff every path from (the successors of) each start block to a normal return (or to `ends`)
        passes through a block in `through`."""
        ends = set(self.returns if ends is None else ends)
        through = set(through)
        for sb in start_blocks:
            r = self.reachable_after(sb, removed=through)
            if r & ends:
                return False
        return True

    def path_from_avoiding(self, start_block, through, ends=None):
        ends = set(self.returns if ends is None else ends)
        through = set(through)
        prev = {}
        q = []
        for s in self.succ[start_block]:
            if s not in through and s not in prev:
                prev[s] = start_block
                q.append(s)
        while q:
            x = q.pop(0)
            if x in ends:
                p = [x]
                while p[-1] != start_block:
                    p.append(prev[p[-1]])
                return list(reversed(p))
            for s in self.succ[x]:
                if s in prev or s in through:
                    continue
                prev[s] = x
                q.append(s)
        return None


def cfg_of(fn):
    c = fn._cache.get('cfg')
    if c is None:
        c = CFG(fn)
        fn._cache['cfg'] = c
    return c


def match_path(path, pattern):
    """pattern matches a (generic-stripped) def path if equal or if it is a `::`-suffix of it.
    `<X as Trait>::m` patterns must match exactly."""
    if path is None:
        return False
    if path == pattern:
        return True
    if pattern.startswith('<'):
        return False
    return path.endswith('::' + pattern)


def callee_matches(callee, pattern):
    if callee is None or callee.indirect is not None:
        return False
    return match_path(callee.rpath, pattern) or match_path(callee.path, pattern)


class CallGraph:
    """Edges: f -> g for every call terminator in a non-cleanup block of f whose callee (resolved when possible)
    is a function of the analysed crates; f -> closure for every closure constructed in f (it may be invoked by
    whatever it is handed to)."""

    def __init__(self, facts_list):
        self.facts_list = facts_list
        self.by_path = defaultdict(list)
        self.fns = []
        for fx in facts_list:
            for f in fx.fn_list:
                if f.kind in ('const', 'promoted'):
                    continue
                self.fns.append(f)
                self.by_path[f.path].append(f)
        self.edges = defaultdict(set)      # fn -> set of fn
        self.sites = defaultdict(list)     # fn -> [(term, [target fns])]
        self.callers = defaultdict(set)
        for f in self.fns:
            for t in f.calls():
                tg = self.targets(t.callee)
                self.sites[f].append((t, tg))
                for g in tg:
                    self.edges[f].add(g)
                    self.callers[g].add(f)
            for s in f.stmts():
                if s.k == 'assign' and s.rv.k == 'agg' and s.rv.j.get('ak') == 'closure':
                    from .facts import strip_generics
                    cp = strip_generics(s.rv.j['closure'])
                    for g in self.by_path.get(cp, []):
                        self.edges[f].add(g)
                        self.callers[g].add(f)
        self._may = {}
        self._must = {}

    def targets(self, callee):
        if callee is None or callee.indirect is not None:
            return []
        r = []
        for p in (callee.rpath, callee.path):
            if p and p in self.by_path:
                r = self.by_path[p]
                break
        return r

    def may_call_closure(self, f):
        c = self._may.get(f)
        if c is not None:
            return c
        seen = {f}
        st = [f]
        while st:
            x = st.pop()
            for g in self.edges[x]:
                if g not in seen:
                    seen.add(g)
                    st.append(g)
        self._may[f] = seen
        return seen

    def may_reach(self, f, pred):
        """does f (transitively) contain a call whose callee satisfies pred(callee)?  returns a witness chain"""
        seen = {f}
        st = [(f, [f])]
        while st:
            x, chain = st.pop()
            for t in x.calls():
                if pred(t.callee):
                    return chain + [t]
            for g in self.edges[x]:
                if g not in seen:
                    seen.add(g)
                    st.append((g, chain + [g]))
        return None

    def call_may_reach(self, term, pattern):
        """does this call site invoke `pattern` directly or transitively?"""
        if callee_matches(term.callee, pattern):
            return True
        for g in self.targets(term.callee):
            if self.fn_may_call(g, pattern):
                return True
        return False

    def fn_may_call(self, f, pattern):
        key = (f, pattern)
        v = self._may.get(key)
        if v is not None:
            return v
        r = False
        for x in self.may_call_closure(f):
            for t in x.calls():
                if callee_matches(t.callee, pattern):
                    r = True
                    break
            if r:
                break
        self._may[key] = r
        return r

    # ---- must-call: the callee pattern is invoked on every path from entry to a normal return ----
    def fn_must_call(self, f, pattern, _stack=None):
        key = (f, pattern)
        v = self._must.get(key)
        if v is not None:
            return v
        _stack = _stack or set()
        if f in _stack:
            return False
        _stack = _stack | {f}
        cfg = cfg_of(f)
        marked = set()
        for t in f.calls():
            if self.call_must_reach(t, pattern, _stack):
                marked.add(t.bb)
        if not cfg.returns:
            r = False
        else:
            r = cfg.every_path_to_passes(cfg.returns, marked) if 0 not in marked else True
        self._must[key] = r
        return r

    def call_must_reach(self, term, pattern, _stack=None):
        if callee_matches(term.callee, pattern):
            return True
        tg = self.targets(term.callee)
        if len(tg) != 1:
            return False
        return self.fn_must_call(tg[0], pattern, _stack)

    def blocks_calling(self, f, pattern, must=False):
        """blocks of f whose call terminator reaches `pattern` (may or must)"""
        r = []
        for t in f.calls():
            if must:
                if self.call_must_reach(t, pattern):
                    r.append(t.bb)
            else:
                if self.call_may_reach(t, pattern):
                    r.append(t.bb)
        return r
