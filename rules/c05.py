"""C05 -- transient faults never wedge a session (structural conditions; liveness itself is not decided)."""
from .lib import *
from .cfg import cfg_of, callee_matches
from .sem import key, dnf_str, atoms_of_cond
from .facts import Place
from . import c01

LEVEL = 'other'
EXPLANATION = ('Static rule checking of the conditions without which one lost packet wedges the input stream or the '
               'handshake for good: every accepted input packet is acknowledged (also when its reference is gone), all '
               'unacknowledged inputs are retransmitted with every input and on a timer, ack bookkeeping only pops '
               'acknowledged frames, dedicated timers, handshake retry, NULL reference seeded, prune window keeps the '
               'acknowledged frame. Liveness over fault schedules is NOT decided.')
NOT_DECIDED = ['liveness after arbitrary fault placements (temporal property over schedules)']
ASSUMPTIONS = c01.ASSUMPTIONS

UDP = c01.UDP


def _remaining_positive(W, a):
    """`sync_remaining_roundtrips > 0`, also spelled `!= 0` (the field is unsigned)"""
    unsigned = any(x['name'] == 'sync_remaining_roundtrips' and x['ty'].startswith('u') for x in W.struct_fields('UdpProtocol'))
    return match_lin(a, [(exact('self.sync_remaining_roundtrips'), 1)], lo=1) or (unsigned and match_lin(a, [(exact('self.sync_remaining_roundtrips'), 1)], neq=0))


def o1(W, ob):
    f = W.fn(UDP + '::on_input')
    G = W.guards(f)
    cfg = cfg_of(f)
    acks = sites(W, f, UDP + '::send_input_ack')
    ob.require_count(len(acks), 2, 'send_input_ack sites in on_input')
    start = sites(W, f, UDP + '::pop_pending_output')
    ob.require_count(len(start), 1, 'pop_pending_output site in on_input')

    def rejected(b):
        g = G.guard(b)
        return bool(g) and every_disjunct_has(g, lambda a: a[0] == 'is' and a[2] == 'Err' and a[3] and
                                              ('decode(' in a[1] or 'to_player_inputs(' in a[1]))
    rej = [b.id for b in f.blocks if not b.cleanup and b.id in cfg.reach and rejected(b.id)]
    ob.require_count(len(rej), 2, 'rejection (decode error) blocks in on_input')
    for sb in start:
        p = cfg.path_from_avoiding(sb, acks + rej)
        ob.check(p is None, 'on_input|ack-every-accepted-packet',
                 'every input packet that passes the shape checks and is not rejected by the decoder is acknowledged',
                 'an input packet can be accepted without an InputAck being sent (the sender would keep encoding against '
                 'a base the receiver may have dropped: permanent wedge after one lost ack)', where(f, f.blocks[sb].term.line),
                 witness=path_str(f, p) if p else None)


    # the ack itself is unconditional: send_input_ack always queues an InputAck carrying last_recv_frame()
    a = W.fn(UDP + '::send_input_ack')
    ob.check(W.cg.fn_must_call(a, UDP + '::queue_message'), 'send_input_ack|always-queues',
             'send_input_ack queues an InputAck on every path', 'send_input_ack can return without queuing an InputAck (e.g. suppressing a "repeated" ack): after one lost ack '
             'the sender is never told again what was received', where(a))
    acks_ = [s for f2, s in W.constructions('InputAck') if f2 is a]
    okv = len(acks_) == 1 and key(W.ctx(a).expr_operand(acks_[0].rv.ops[0])) == 'UdpProtocol::last_recv_frame(self)'   # exactly: not a function of it
    ob.check(okv, 'send_input_ack|acks-last-received', 'the ack carries last_recv_frame()', 'the InputAck does not carry last_recv_frame()', where(a))
    q = W.fn(UDP + '::queue_message')
    cxq = W.ctx(q)
    pushes = [t for t in q.calls() if last_seg(t.callee.best) == 'push_back' and cxq.ap_carry(t.args[0].place).s(q) == 'self.send_queue']
    ob.check(len(pushes) == 1 and cfg_of(q).path_avoiding(cfg_of(q).returns, [pushes[0].bb]) is None, 'queue_message|always-enqueues',
             'queue_message appends to the send queue on every path', 'queue_message can return without enqueuing the message', where(q))


def o2(W, ob):
    si = W.fn(UDP + '::send_input')
    G = W.guards(si)
    sp = sites(W, si, UDP + '::send_pending_output')
    ob.require_count(len(sp), 1, 'send_pending_output call in send_input')
    for b in sp:
        g = G.guard(b)
        ob.check(g == [[('is', 'self.state', 'Running', True)]], 'send_input|resend-all',
                 'every new input is followed by a retransmission of all pending inputs while Running',
                 'send_input sends the pending output only under ' + dnf_str(g)[:200], where(si, si.blocks[b].term.line))
    po = W.fn(UDP + '::poll')
    Gp = W.guards(po)
    sp2 = sites(W, po, UDP + '::send_pending_output')
    ob.require_count(len(sp2), 1, 'timer resend in poll')
    for b in sp2:
        g = Gp.guard(b)
        conj = g[0] if len(g) == 1 else []
        timer = [a for a in conj if a[0] == 'relz']
        ok = len(g) == 1 and ('is', 'self.state', 'Running', True) in conj and len(timer) == 1 and len(conj) == 2 and \
            {k for k, _ in timer[0][2]} >= {'RUNNING_RETRY_INTERVAL', 'self.running_last_input_recv'} and timer[0][1] in ('Gt', 'Lt')
        ob.check(ok, 'poll|timer-resend', 'pending inputs are retransmitted when nothing was received for RUNNING_RETRY_INTERVAL',
                 'the timer resend in poll is guarded by ' + dnf_str(g)[:300], where(po, po.blocks[b].term.line))
    s = W.fn(UDP + '::send_pending_output')
    cx = W.ctx(s)
    enc = [t for t in s.calls() if callee_matches(t.callee, 'compression::encode')]
    ob.require_count(len(enc), 1, 'encode call in send_pending_output')
    for t in enc:
        ref = key(cx.expr_operand(t.args[0]))
        # only `map` may sit between the iterator over the whole queue and the encoder (no take/skip/filter/step_by)
        src = trace_back(W, s, t.args[1], through={'map'}, strict=True)
        whole = bool(src) and src[0] == 'call' and last_seg(src[1].callee.best) == 'iter' and \
            src[1].args and src[1].args[0].is_place() and cx.ap_carry(src[1].args[0].place).s(s) == 'self.pending_output'
        ob.check(ref.endswith('last_acked_input.bytes') and whole, 'send_pending_output|encode-all',
                 'all pending inputs are encoded against the last acknowledged input',
                 'encode(reference=%s, inputs=%s): expected last_acked_input.bytes and an iterator over the whole '
                 'pending_output' % (ref, repr(src)[:120]), where(s, t.line))
    # header fields
    body_stores = [x for x in s.stmts() if x.k == 'assign' and not x.place.is_local() and x.place.fields()]
    vals = {}
    for x in body_stores:
        fs = x.place.fields()
        if len(fs) == 1 and x.rv is not None:
            vals[fs[0]] = key(cx.expr_rvalue(x.rv))
    ob.check(vals.get('start_frame', '').startswith('self.pending_output[') and vals.get('start_frame', '').endswith('.frame'),
             'send_pending_output|start_frame', 'start_frame is the frame of the oldest pending input',
             'start_frame := %s' % vals.get('start_frame'), where(s))
    ob.check('last_recv_frame(' in vals.get('ack_frame', ''), 'send_pending_output|piggyback-ack',
             'every input packet piggy-backs the newest received frame as ack', 'ack_frame := %s' % vals.get('ack_frame'), where(s))
    q = sites(W, s, UDP + '::queue_message')
    ob.require_count(len(q), 1, 'queue_message in send_pending_output')
    for b in q:
        g = W.guard(s, b)
        extra = [a for c in g for a in c if not (a[0] == 'is' and a[2] == 'Some') and not (a[0] in ('lin', 'ne') and
                 any('last_acked_input.frame' in k for k, _ in a[1]))]
        ob.check(not extra, 'send_pending_output|send-when-pending', 'a packet is queued whenever something is pending',
                 'the input packet is only queued under ' + dnf_str(g)[:200], where(s, s.blocks[b].term.line))


def o3(W, ob):
    n = only_writers(W, ob, 'last_acked_input', 'UdpProtocol', [UDP + '::pop_pending_output'], 'O3')
    ob.require_count(n, 1, 'writes of last_acked_input')
    p = W.fn(UDP + '::pop_pending_output')
    cx = W.ctx(p)
    ex, _ = W.writes_to_field('last_acked_input')
    for w in ex:
        if w['fn'] is p:
            src = None
            site = w['site']
            if hasattr(site, 'rv') and site.rv is not None and site.rv.a is not None:
                src = trace_back(W, p, site.rv.a)
            elif hasattr(site, 'callee'):
                src = ('call', site)
            popped = bool(src) and src[0] == 'call' and last_seg(src[1].callee.best) in ('pop_front', 'expect') and \
                'pending_output' in key(cx.expr_call(src[1]))
            if src and src[0] == 'call' and last_seg(src[1].callee.best) == 'expect':
                s2 = trace_back(W, p, src[1].args[0])
                popped = bool(s2) and s2[0] == 'call' and last_seg(s2[1].callee.best) == 'pop_front'
            g = W.guard(p, w['bb'])
            acked = every_disjunct_has(g, lambda a: match_lin(a, [(exact('arg2'), 1), (has('pending_output['), -1)], lo=0))
            ob.check(popped and acked, 'pop_pending_output|pop-acked-only',
                     'last_acked_input is the popped element, and only frames <= ack_frame are popped',
                     'pop_pending_output: popped-element=%s, guarded by frame <= ack=%s (%s)' % (popped, acked, dnf_str(g)[:200]),
                     where(p, w['line']))
    pops = [t for f2 in W.fns() for t in f2.calls() if last_seg(t.callee.best) in ('pop_front', 'remove', 'clear', 'drain', 'truncate', 'retain')
            and t.args and t.args[0].is_place() and W.ctx(f2).ap_carry(t.args[0].place).s(f2).endswith('self.pending_output')]
    for t in pops:
        pass
    callers = W.calls_to(UDP + '::pop_pending_output')
    ob.require_count(len(callers), 2, 'callers of pop_pending_output')
    for f2, t in callers:
        ob.check(any(match_path(f2.path, a) for a in (UDP + '::on_input', UDP + '::on_input_ack')),
                 'pop_pending_output|caller|%s' % short(f2.path), 'pop_pending_output called from %s' % short(f2.path),
                 'pop_pending_output is called from %s' % short(f2.path), where(f2, t.line))
        a = key(W.ctx(f2).expr_operand(t.args[1]))
        ob.check(a.endswith('.ack_frame'), 'pop_pending_output|arg|%s' % short(f2.path),
                 'the ack frame of the packet is what is popped up to', 'pop_pending_output receives `%s`' % a, where(f2, t.line))
    # nobody else shrinks pending_output
    for f2 in W.fns():
        cx2 = W.ctx(f2)
        for t in f2.calls():
            seg = last_seg(t.callee.best) if t.callee.indirect is None else None
            if seg in ('pop_front', 'pop_back', 'clear', 'drain', 'truncate', 'retain', 'remove') and t.args and t.args[0].is_place():
                if cx2.ap_carry(t.args[0].place).s(f2) == 'self.pending_output':
                    ob.check(match_path(f2.path, UDP + '::pop_pending_output'), 'pending_output|shrink|%s' % short(f2.path),
                             'pending_output is only shrunk by pop_pending_output',
                             'pending_output is shrunk in %s (unacknowledged inputs could be dropped)' % short(f2.path), where(f2, t.line))


def o4(W, ob):
    n = only_writers(W, ob, 'last_sync_request_time', 'UdpProtocol', [UDP + '::send_sync_request'], 'O4', kinds=('store',))
    ob.require_count(n, 1, 'stores to last_sync_request_time')
    only_writers(W, ob, 'running_last_input_recv', 'UdpProtocol', [UDP + '::on_input', UDP + '::poll'], 'O4', kinds=('store',))
    po = W.fn(UDP + '::poll')
    G = W.guards(po)
    ss = sites(W, po, UDP + '::send_sync_request')
    ob.require_count(len(ss), 1, 'handshake retry in poll')
    for b in ss:
        g = G.guard(b)
        conj = g[0] if len(g) == 1 else []
        timer = [a for a in conj if a[0] == 'relz']
        ok = len(g) == 1 and ('is', 'self.state', 'Synchronizing', True) in conj and len(timer) == 1 and len(conj) == 2 and \
            {k for k, _ in timer[0][2]} >= {'SYNC_RETRY_INTERVAL', 'self.last_sync_request_time'}
        ob.check(ok, 'poll|sync-retry-timer', 'the handshake retry reads its own timer (last_sync_request_time)',
                 'the Synchronizing retry in poll is guarded by ' + dnf_str(g)[:300], where(po, po.blocks[b].term.line))


def o5(W, ob):
    r = W.fn(UDP + '::on_sync_reply')
    G = W.guards(r)
    ss = sites(W, r, UDP + '::send_sync_request')
    ob.require_count(len(ss), 1, 'next sync request in on_sync_reply')
    for b in ss:
        g = G.guard(b)
        ok = every_disjunct_has(g, lambda a: _remaining_positive(W, a))
        ob.check(ok, 'on_sync_reply|continue', 'a matched reply with round trips left sends the next request',
                 'on_sync_reply sends the next request under ' + dnf_str(g)[:200], where(r, r.blocks[b].term.line))
    sy = W.fn(UDP + '::synchronize')
    ob.check(W.cg.fn_must_call(sy, UDP + '::send_sync_request'), 'synchronize|first-request', 'synchronize() sends the first request',
             'synchronize() does not always send a sync request', where(sy))
    rq = W.fn(UDP + '::on_sync_request')
    ob.check(W.cg.fn_must_call(rq, UDP + '::queue_message'), 'on_sync_request|reply', 'every SyncRequest is answered',
             'on_sync_request does not always queue a SyncReply', where(rq))
    # the NULL_FRAME reference is seeded at construction
    n = W.fn(UDP + '::new')
    cx = W.ctx(n)
    ins = [t for t in n.calls() if last_seg(t.callee.best) == 'insert' and len(t.args) >= 2 and key(cx.expr_operand(t.args[1])) in ('NULL_FRAME', '-1')]
    ob.check(len(ins) == 1, 'UdpProtocol::new|null-reference', 'recv_inputs is seeded with the blank NULL_FRAME reference',
             'UdpProtocol::new does not insert the NULL_FRAME reference into recv_inputs (a first packet with start_frame > 0 '
             'could never be decoded)', where(n))
    cons = [(f2, s) for f2, s in W.constructions('UdpProtocol') if f2 is n]
    for f2, s in cons:
        fields = dict(zip(s.rv.j['fields'], s.rv.ops))
        src = trace_back(W, n, fields['recv_inputs'])
        ok = bool(ins) and bool(src) and src[0] in ('call', 'place')
        ob.check(ok, 'UdpProtocol::new|recv_inputs-field', 'the seeded map becomes the recv_inputs field',
                 'the recv_inputs field is not the seeded map', where(n, s.line))


def o6(W, ob):
    f = W.fn(UDP + '::on_input')
    cx = W.ctx(f)
    rets = [t for t in f.calls() if last_seg(t.callee.best) == 'retain' and t.args and
            cx.ap_carry(t.args[0].place).s(f) == 'self.recv_inputs']
    ob.require_count(len(rets), 1, 'recv_inputs.retain in on_input')
    for t in rets:
        src = trace_back(W, f, t.args[1])
        clo = None
        if src and src[0] == 'stmt' and src[1].rv.k == 'agg' and src[1].rv.j.get('ak') == 'closure':
            from .facts import strip_generics
            cp = strip_generics(src[1].rv.j['closure'])
            for c in W.closures_of(f):
                if c.path == cp:
                    clo = c
        if clo is None:
            ob.fail('on_input|retain-closure', 'cannot find the predicate of recv_inputs.retain', where(f, t.line))
            continue
        cc = W.ctx(clo)
        e = cc.expr_place(Place({'l': 0, 'p': []}))
        d = atoms_of_cond(e, True)
        ok = False
        desc = dnf_str(d)
        if len(d) == 1 and len(d[0]) == 1 and d[0][0][0] == 'lin':
            terms, lo, hi = lin_view(d[0][0])
            kk = [k for k in terms if k.startswith('arg')]
            lr = [k for k in terms if 'last_recv_frame' in k]
            mp = [k for k in terms if 'max_prediction' in k and k not in lr]
            if len(kk) == 1 and len(lr) == 1 and len(terms) == len(kk) + len(lr) + len(mp):
                s_ = terms[kk[0]]
                # s*(k - L + a*MP) + c in [lo, hi]  -> need: k = L satisfies it for every MP >= 0
                if terms[lr[0]] == -s_:
                    a = (terms[mp[0]] * s_) if mp else 0
                    if s_ == 1:
                        ok = (lo is not None and lo <= 0 and hi is None and a >= 0)
                    else:
                        ok = (hi is not None and hi >= 0 and lo is None and a >= 0)
        # the bound value is last_recv_frame() evaluated after the loop
        ob.check(ok, 'on_input|prune-window', 'the prune keeps every frame >= last_recv_frame - k*max_prediction (k >= 0), so the '
                 'acknowledged frame stays available as the next decode reference',
                 'recv_inputs.retain predicate `%s` may drop the newest received frame' % desc, where(clo))
        ob.check(ok or 'last_recv_frame' in desc, 'on_input|prune-window-upvar',
                 'the prune bound is derived from the newest received frame', 'the prune bound does not use last_recv_frame', where(clo))


from . import helpers, wiring, c02

from . import initial

from . import removals

from . import mustcall

from . import timers

from . import vocab

from . import inventory


def _c03_o16(W, ob):
    from . import c03 as _m
    return _m.o16(W, ob)



def _c18_window(W, ob):
    from . import c18 as _m
    return _m.window_prunes(W, ob)


OBLIGATIONS = [
    ('C05.O1', 'every accepted input packet is acknowledged', 'From the end of the shape checks every path to a normal return '
     'that is not a decoder rejection passes through send_input_ack -- including the path on which the decode reference is '
     'no longer stored.', o1),
    ('C05.O2', 'retransmit everything unacknowledged', 'send_input always calls send_pending_output while Running; poll does '
     'so on the RUNNING_RETRY_INTERVAL timer; send_pending_output encodes the whole pending queue against the last acked input '
     'and piggy-backs the ack.', o2),
    ('C05.O3', 'ack bookkeeping', 'last_acked_input is written only by pop_pending_output from the popped element, popped only '
     'under frame <= ack_frame; pop_pending_output is called from on_input/on_input_ack with the packet ack; nothing else '
     'shrinks pending_output.', o3),
    ('C05.O4', 'dedicated timers', 'last_sync_request_time is written only by send_sync_request and is the timer the handshake '
     'retry reads; running_last_input_recv only by on_input and poll.', o4),
    ('C05.O5', 'handshake retry and first packet', 'matched replies continue the handshake, synchronize() starts it, requests are '
     'always answered, recv_inputs is seeded with the NULL_FRAME reference.', o5),
    ('C05.O6', 'prune window covers the ack', 'the recv_inputs prune keeps the newest received frame for every window size.', o6),
    ('C05.O9', 'every field of every wire struct travels (= C03.O16)', 'the piggy-backed ack_frame, the start frame and the connection statuses are fields of the Input message: see C03.O16', _c03_o16),
    ('C05.O10', 'history maps are pruned by a sliding window (= C18.O11)', 'see C18.O11: a clamped threshold evicts the blank reference frame a first packet decodes against, a threshold merged with the ack never moves on a receive-only endpoint, a `!=` keeps all but one checksum', _c18_window),
    ('C05.H', 'helpers the rules above rely on', 'the bodies of the helpers named by this property\'s rules compute what the rules assume (last_recv_frame, protocol_state_tests); see rules/helpers.py', helpers.bundle('last_recv_frame', 'protocol_state_tests')),
    ('C05.W', 'configuration wiring', 'at every call site that passes a field read `x.B` for a parameter `A` the callee has no same-typed parameter `B`; in every struct literal no parameter `B` is stored in field `A` while a same-typed parameter `A` / field `B` exists (builder -> constructor -> endpoint fields: timeouts, window, fps are not crossed); see rules/wiring.py', wiring.rule),
    ('C05.O7', 'a spectator catching up after an outage consumes one frame per fetched frame (= C02.O8)', 'host->spectator links are part of this property: after a burst the spectator catches up several frames per call; each AdvanceFrame it emits carries the inputs of the next frame and the frame counter moves by exactly one per fetched frame, after the fetch succeeded. See C02.O8 / C01.O3.', c02.o8),
    ('C05.I', 'initial state', 'every constructor gives the fields this property\'s rules interpret (NULL_FRAME = none / nothing yet, 0 = first frame, latches open, typestate start) the value listed in tables/initial_state.json; every field compared with NULL_FRAME anywhere is listed; see rules/initial.py', initial.rule_for('C05')),
    ('C05.R', 'who may remove', 'every call that takes elements out of a collection this property\'s rules rely on (keyed removal from a map, or bulk / positional removal) is one of the reviewed sites in tables/removals.json; a lookup turned into a removal, a second prune, a clear on another path is reported; see rules/removals.py', removals.rule_for('C05')),
    ('C05.M', 'must-call floor', 'the calls listed for this property in tables/must_call.json are made on every path from the entry of their function to a normal return (interprocedural must-call): a new early return, fast path or extra condition in front of one of them is reported; see rules/mustcall.py', mustcall.rule_for('C05')),
    ('C05.T', 'the endpoint\'s timer table', 'retransmission and handshake retry are timer driven: per timer the field, duration, protocol state, action, re-arm site and writer set are read off poll() and compared with the table in rules/timers.py -- the action\'s guard is exactly `state & field + duration < now`, firing re-arms the timer on every path, nothing else writes the timestamp, every stored value is a clock reading, durations are positive (their relation to the default timeouts is Cxx.Z).', timers.rule),
    ('C05.V', 'no unreviewed condition in the pinned helpers', 'for each helper whose body this property\'s rules pin (tables/condition_terms.json), the terms its path conditions are built from (fields, parameters, call results -- no constants, operators or local names) are a subset of the reviewed vocabulary: one more `if` in front of a pinned result (a lock that may time out, "only while an endpoint is running") is reported; see rules/vocab.py', vocab.rule_for('C05')),
    ('C05.S', 'state inventory', 'every field of the structs this property\'s rules read (tables/state.json) is known, and is written only by its reviewed writers (or helpers only they call): a new field is new state across calls -- a cache, a flag, a stored deadline -- that nothing has shown to stay in step; a new writer is a second place that resets, re-arms or moves something; see rules/inventory.py', inventory.state_rule_for('C05')),
    ('C05.K', 'call inventory', 'every reviewed call of a function that writes state (tables/call_edges.json, callers in the structs this property\'s rules read) is still made, directly or through helpers: a call deleted as redundant is reported; likewise the arguments of logging / debug-only macros change no state, no unreviewed call of a state-writing function appears (tables/call_edges_all.json), the types of the locals a loop carries from one iteration to the next (tables/carried.json) and, per function and field, how reads and writes of the field are ordered (tables/orders.json: a snapshot taken before instead of after an update) are as reviewed; see rules/inventory.py', inventory.call_rule_for('C05')),
    ('C05.A', 'expression inventory', 'every arithmetic expression handed to a call or stored in a field, and what every closure given to an iterator adaptor / collection method returns, is one of the reviewed expressions of its function (tables/expressions.json; linear / guard normal forms, no local names): a changed literal, operator, operand order, factor, predicate or sort key is reported; see rules/inventory.py', inventory.expr_rule_for('C05')),
    ('C05.Z', inventory.CONST_TITLE, inventory.CONST_TEXT, inventory.const_rule_for('C05')),
]
