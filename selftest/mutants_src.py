"""Mutants: realistic one-instance-broken variants of gschup/ggrs that still compile (most pass the 114 tests).
Each is a (file, old, new) replacement; `old` must occur exactly once in today's file.  `expect` names the
obligation(s) that must report it; `property` the check(s) to run."""

P2P = 'src/sessions/p2p_session.rs'
SL = 'src/sync_layer.rs'
IQ = 'src/input_queue.rs'
PROTO = 'src/network/protocol.rs'
SPEC = 'src/sessions/p2p_spectator_session.rs'
SYNCT = 'src/sessions/sync_test_session.rs'
BUILDER = 'src/sessions/builder.rs'
COMP = 'src/network/compression.rs'

MUTANTS = []


def M(id, property, expect, file, old, new, desc=''):
    MUTANTS.append(dict(id=id, property=property, expect=expect if isinstance(expect, list) else [expect],
                        file=file, old=old, new=new, desc=desc))


def N(id, property, file, old, new, desc=''):
    """a NEUTRAL edit: behaviour (as far as the property is concerned) is preserved; no obligation may fire"""
    MUTANTS.append(dict(id='neutral/' + id, property=property, expect=[], neutral=True, file=file, old=old, new=new, desc=desc))


# ---------------------------------------------------------------- C01
M('C01-confirm-before-rollback', 'C01', 'C01.O5', P2P,
  """        // check game consistency and roll back, if necessary
        self.handle_rollback_and_save(confirmed_frame, requests);

        // send confirmed inputs to spectators before throwing them away
        self.send_confirmed_inputs_to_spectators(confirmed_frame);

        // set the last confirmed frame and discard all saved inputs before that frame
        self.sync_layer
            .set_last_confirmed_frame(confirmed_frame, self.sparse_saving);
""",
  """        // set the last confirmed frame and discard all saved inputs before that frame
        self.sync_layer
            .set_last_confirmed_frame(confirmed_frame, self.sparse_saving);

        // check game consistency and roll back, if necessary
        self.handle_rollback_and_save(confirmed_frame, requests);

        // send confirmed inputs to spectators before throwing them away
        self.send_confirmed_inputs_to_spectators(confirmed_frame);
""", 'set_last_confirmed_frame before the rollback step and the broadcast')
M('C01-drop-reset-prediction', 'C01', 'C01.O2', P2P,
  """        assert_eq!(self.sync_layer.current_frame(), frame_to_load);
        self.sync_layer.reset_prediction();
""", """        assert_eq!(self.sync_layer.current_frame(), frame_to_load);
""", 'reset_prediction dropped after the load')
M('C01-reset-prediction-elsewhere', 'C01', 'C01.O2', P2P,
  """        let first_incorrect = self
            .sync_layer
            .check_simulation_consistency(self.disconnect_frame);
""", """        let first_incorrect = self
            .sync_layer
            .check_simulation_consistency(self.disconnect_frame);
        if first_incorrect == NULL_FRAME {
            self.sync_layer.reset_prediction();
        }
""", 'reset_prediction called outside a rollback')
M('C01-decoder-skip-lt', 'C01', 'C01.O6', PROTO,
  "                if inp_frame <= self.last_recv_frame() {", "                if inp_frame < self.last_recv_frame() {",
  'decoder skip <= -> <')
M('C01-decoder-skip-too-strict', 'C01', 'C01.O6', PROTO,
  "                if inp_frame <= self.last_recv_frame() {", "                if inp_frame <= self.last_recv_frame() + 1 {",
  'decoder skips one frame too many')
M('C01-discard-frame', 'C01', 'C01.O5', SL,
  "                self.input_queues[i].discard_confirmed_frames(frame - 1);",
  "                self.input_queues[i].discard_confirmed_frames(frame);", 'discard up to the confirmed frame itself')
M('C01-min-flipped', 'C01', 'C01.O7', SL,
  "                && (first_incorrect == NULL_FRAME || incorrect < first_incorrect)",
  "                && (first_incorrect == NULL_FRAME || incorrect > first_incorrect)", 'latest instead of earliest')
M('C01-fetch-after-step', ['C01', 'C02'], ['C01.O3'], P2P,
  """            let inputs = self
                .sync_layer
                .synchronized_inputs(&self.local_connect_status);
            self.sync_layer.advance_frame();
            self.pending_local_inputs.clear();
            requests.push(GgrsRequest::AdvanceFrame { inputs });
        } else {
            debug!(
                "Prediction Threshold reached. Skipping on frame {}",""",
  """            self.sync_layer.advance_frame();
            let inputs = self
                .sync_layer
                .synchronized_inputs(&self.local_connect_status);
            self.pending_local_inputs.clear();
            requests.push(GgrsRequest::AdvanceFrame { inputs });
        } else {
            debug!(
                "Prediction Threshold reached. Skipping on frame {}",""", 'inputs fetched after the increment')
M('C01-marker-overwrite', 'C01', 'C01.O4', IQ,
  "            if self.first_incorrect_frame == NULL_FRAME && !self.prediction.input_matches(&input) {",
  "            if !self.prediction.input_matches(&input) {", 'marker overwritten by later mismatches')
M('C01-marker-polarity', 'C01', 'C01.O4', IQ,
  "            if self.first_incorrect_frame == NULL_FRAME && !self.prediction.input_matches(&input) {",
  "            if self.first_incorrect_frame == NULL_FRAME && self.prediction.input_matches(&input) {", 'polarity')
M('C01-rollback-not-before-fetch', 'C01', 'C01.O1', P2P,
  """        let first_incorrect = self
            .sync_layer
            .check_simulation_consistency(self.disconnect_frame);
        if first_incorrect != NULL_FRAME {""",
  """        let first_incorrect = self
            .sync_layer
            .check_simulation_consistency(self.disconnect_frame);
        if first_incorrect != NULL_FRAME && confirmed_frame >= first_incorrect {""", 'rollback only for confirmed frames')
M('C01-decode-reference-off', 'C01', 'C01.O6', PROTO,
  "            body.start_frame - 1\n        };", "            body.start_frame\n        };", 'wrong decode reference')
M('C01-no-requested-cap', 'C01', 'C01.O5', IQ,
  """        if self.last_requested_frame != NULL_FRAME {
            frame = cmp::min(frame, self.last_requested_frame);
        }
""", "", 'discard not capped by the last requested frame')
M('C01-event-before-insert', 'C01', 'C01.O6', PROTO,
  "                self.recv_inputs.insert(input_data.frame, input_data);\n", "", 'frame announced but never stored')

# ---------------------------------------------------------------- C02
M('C02-resim-save-i-gt-1', 'C02', 'C02.O6', P2P,
  "                if i > 0 {\n                    requests.push(self.sync_layer.save_current_state());",
  "                if i > 1 {\n                    requests.push(self.sync_layer.save_current_state());", 'second resimulated frame not saved')
M('C02-sparse-trigger-gt', 'C02', 'C02.O6', P2P,
  "        if self.sync_layer.current_frame() - last_saved >= self.max_prediction as i32 {",
  "        if self.sync_layer.current_frame() - last_saved > self.max_prediction as i32 {", 'sparse trigger one frame late')
M('C02-drop-frame0-save', 'C02', 'C02.O7', P2P,
  """        if self.sync_layer.current_frame() == 0 && !lockstep {
            trace!("Saving state of first frame");
            requests.push(self.sync_layer.save_current_state());
        }
""", "", 'frame-0 save dropped')
M('C02-save-wrong-cell', 'C02', 'C02.O1', SL,
  "        let cell = self.saved_states.get_cell(self.current_frame);\n        GgrsRequest::SaveGameState {",
  "        let cell = self.saved_states.get_cell(self.last_confirmed_frame.max(0));\n        GgrsRequest::SaveGameState {", 'save into the wrong cell')
M('C02-advance-by-two', 'C02', 'C02.O2', SL, "        self.current_frame += 1;\n    }", "        self.current_frame += 2;\n    }", 'counter +2')
M('C02-load-keeps-counter', 'C02', 'C02.O1', SL, "        self.current_frame = frame_to_load;\n", "", 'load does not rewind the counter')
M('C02-loop-bound-after-load', 'C02', 'C02.O4', ST if False else SYNCT,
  "        let start_frame = self.sync_layer.current_frame();\n        let count = start_frame - frame_to;\n\n        // rollback to the first incorrect state\n        requests.push(self.sync_layer.load_frame(frame_to));",
  "        // rollback to the first incorrect state\n        requests.push(self.sync_layer.load_frame(frame_to));\n        let start_frame = self.sync_layer.current_frame() + self.check_distance as i32;\n        let count = start_frame - frame_to;",
  'pre-rollback frame captured after the load')
M('C02-spectator-step-before-fetch', 'C02', 'C02.O8', SPEC,
  """            let synced_inputs = self.inputs_at_frame(frame_to_grab)?;

            requests.push(GgrsRequest::AdvanceFrame {
                inputs: synced_inputs,
            });

            // advance the frame, but only if grabbing the inputs succeeded
            self.current_frame += 1;""",
  """            self.current_frame += 1;
            let synced_inputs = self.inputs_at_frame(frame_to_grab)?;

            requests.push(GgrsRequest::AdvanceFrame {
                inputs: synced_inputs,
            });""", 'spectator steps before the fetch succeeded')
N('C02-synctest-save-after-fetch', ['C02', 'C13'], SYNCT,
  """        if self.check_distance > 0 {
            requests.push(self.sync_layer.save_current_state());
        }

        // get the correct inputs for all players from the sync layer
        let inputs = self
            .sync_layer
            .synchronized_inputs(&self.dummy_connect_status);
""",
  """        // get the correct inputs for all players from the sync layer
        let inputs = self
            .sync_layer
            .synchronized_inputs(&self.dummy_connect_status);
        if self.check_distance > 0 {
            requests.push(self.sync_layer.save_current_state());
        }
""", 'save after the input fetch but still before the step and before the AdvanceFrame request: the request list is unchanged')

# ---------------------------------------------------------------- C03
M('C03-sync-inputs-le', 'C03', 'C03.O2', SL,
  "            if con_stat.disconnected && con_stat.last_frame < self.current_frame {",
  "            if con_stat.disconnected && con_stat.last_frame <= self.current_frame {", 'cut-off one frame early in synchronized_inputs')
M('C03-confirmed-inputs-le', 'C03', 'C03.O2', SL,
  "            if con_stat.disconnected && con_stat.last_frame < frame {",
  "            if con_stat.disconnected && con_stat.last_frame <= frame {", 'cut-off one frame early in confirmed_inputs')
M('C03-spectator-no-disconnected', 'C03', 'C03.O2', SPEC,
  "                if self.host_connect_status[handle].disconnected\n                    && self.host_connect_status[handle].last_frame < frame_to_grab",
  "                if self.host_connect_status[handle].last_frame < frame_to_grab", 'spectator ignores the disconnected flag')
M('C03-prediction-as-confirmed', 'C03', 'C03.O1', IQ,
  "        (prediction_to_return.input, InputStatus::Predicted)", "        (prediction_to_return.input, InputStatus::Confirmed)", 'prediction handed out as Confirmed')
M('C03-drop-last-frame-store', 'C03', 'C03.O4', P2P,
  "                    self.local_connect_status[player].last_frame = input.frame;\n", "", 'remote last_frame not raised')
M('C03-predict-from-tail', 'C03', 'C03.O1', IQ,
  "                    Some(self.inputs[Self::prev_pos(self.head)])\n                };",
  "                    Some(self.inputs[self.tail])\n                };", 'prediction based on the oldest input')
M('C03-confirmed-frame-includes-disconnected', 'C03', 'C03.O4', P2P,
  "            if !con_stat.disconnected {\n                confirmed_frame = std::cmp::min(confirmed_frame, con_stat.last_frame);\n            }",
  "            confirmed_frame = std::cmp::min(confirmed_frame, con_stat.last_frame);", 'confirmed frame held back by disconnected players')

# ---------------------------------------------------------------- C04
M('C04-gate-le', 'C04', 'C04.O1', P2P, "        if frames_ahead < self.max_prediction as i32 {", "        if frames_ahead <= self.max_prediction as i32 {", 'one frame too many')
M('C04-frame0-save-in-lockstep', 'C04', 'C04.O3', P2P,
  "        if self.sync_layer.current_frame() == 0 && !lockstep {", "        if self.sync_layer.current_frame() == 0 {", 'SaveGameState in lockstep')
M('C04-lockstep-uses-synchronized-inputs', 'C04', 'C04.O4', P2P,
  """            let inputs = self
                .sync_layer
                .confirmed_inputs(game_frame, &self.local_connect_status)
                .into_iter()
                .enumerate()
                .map(|(handle, pi)| {
                    debug_assert_eq!(
                        pi.frame == NULL_FRAME,
                        self.local_connect_status[handle].disconnected
                            && self.local_connect_status[handle].last_frame < game_frame,
                        "confirmed_inputs returned NULL_FRAME for a connected player or \\
                         a real frame for a disconnected player (handle {handle})"
                    );
                    if pi.frame == NULL_FRAME {
                        (pi.input, InputStatus::Disconnected)
                    } else {
                        (pi.input, InputStatus::Confirmed)
                    }
                })
                .collect();""",
  """            let inputs = self
                .sync_layer
                .synchronized_inputs(&self.local_connect_status);""", 'lockstep path may predict')
M('C04-lockstep-gate-off-by-one', 'C04', 'C04.O2', P2P,
  "        self.confirmed_frame() >= self.sync_layer.current_frame()\n    }", "        self.confirmed_frame() + 1 >= self.sync_layer.current_frame()\n    }", 'lockstep steps one frame early')
M('C04-sparse-kept-in-lockstep', 'C04', 'C04.O5', P2P,
  "        let sparse_saving = if max_prediction == 0 && sparse_saving {", "        let sparse_saving = if max_prediction == 1 && sparse_saving {", 'sparse saving stays on in lockstep')

# ---------------------------------------------------------------- C05
M('C05-drop-ack-after-decode', 'C05', 'C05.O1', PROTO,
  "            // send an input ack\n            self.send_input_ack();\n", "", 'no ack after a decoded packet')
M('C05-drop-ack-no-reference', 'C05', 'C05.O1', PROTO,
  "            // forward; otherwise a single lost ack could stall the input stream forever.\n            self.send_input_ack();\n", "            // forward; otherwise a single lost ack could stall the input stream forever.\n", 'inverse of the D2 fix')
M('C05-resend-front-only', 'C05', 'C05.O2', PROTO,
  "                self.pending_output.iter().map(|gi| &gi.bytes),", "                self.pending_output.iter().take(1).map(|gi| &gi.bytes),", 'only the oldest pending input is resent')
M('C05-no-timer-resend', 'C05', 'C05.O2', PROTO,
  """                if self.running_last_input_recv + RUNNING_RETRY_INTERVAL < now {
                    self.send_pending_output(connect_status);
                    self.running_last_input_recv = Instant::now();
                }
""", "", 'no timer retransmission')
M('C05-sync-retry-shared-timer', 'C05', 'C05.O4', PROTO,
  "                if self.last_sync_request_time + SYNC_RETRY_INTERVAL < now {", "                if self.last_send_time + SYNC_RETRY_INTERVAL < now {", '0.12 regression')
M('C05-no-null-reference', 'C05', 'C05.O5', PROTO,
  "        recv_inputs.insert(NULL_FRAME, InputBytes::zeroed::<T>(recv_player_num));\n", "", '0.13 regression: first delayed packet rejected')
M('C05-prune-too-tight', 'C05', 'C05.O6', PROTO,
  "                .retain(|&k, _| k >= last_recv_frame - 2 * self.max_prediction as i32);", "                .retain(|&k, _| k > last_recv_frame - 2 * self.max_prediction as i32);", 'window 0 drops the acknowledged frame')
M('C05-pop-unacked', 'C05', 'C05.O3', PROTO,
  "                if input.frame <= ack_frame {", "                if input.frame <= ack_frame + 1 {", 'pops one unacknowledged input')
M('C05-sync-reply-no-next-request', 'C05', 'C05.O5', PROTO,
  "            // send another sync request\n            self.send_sync_request();\n", "", 'handshake waits for the retry timer after every reply')

# ---------------------------------------------------------------- C06
M('C06-broadcast-beyond-confirmed', 'C06', 'C06.O1', P2P,
  "        while self.next_spectator_frame <= confirmed_frame {", "        while self.next_spectator_frame <= confirmed_frame + 1 {", 'unconfirmed frame broadcast')
M('C06-ring-check-swapped', 'C06', 'C06.O3', SPEC,
  "        if player_inputs[0].frame < frame_to_grab {\n            return Err(GgrsError::PredictionThreshold);",
  "        if player_inputs[0].frame > frame_to_grab {\n            return Err(GgrsError::PredictionThreshold);", 'ring checks swapped')
M('C06-ring-too-old-dropped', 'C06', 'C06.O3', SPEC,
  """        if player_inputs[0].frame > frame_to_grab {
            return Err(GgrsError::SpectatorTooFarBehind);
        }
""", "", 'overwritten slot delivered as if it were the requested frame')
M('C06-catchup-uncapped', 'C06', 'C06.O4', SPEC,
  "            self.catchup_speed\n                .min(frames_behind)\n                .min(SPECTATOR_BUFFER_SIZE - 1)", "            self.catchup_speed.min(SPECTATOR_BUFFER_SIZE - 1)", '0.13 regression')
M('C06-cursor-not-stepped-when-no-running-spectator', 'C06', 'C06.O1', P2P,
  "            // onto the next frame\n            self.next_spectator_frame += 1;", "            // onto the next frame\n            if input_map.len() == self.num_players {\n                self.next_spectator_frame += 2;\n            }", 'cursor skips frames')
M('C06-spectator-touches-players', 'C06', 'C06.O5', P2P,
  "            // onto the next frame\n            self.next_spectator_frame += 1;", "            // onto the next frame\n            self.next_spectator_frame += 1;\n            self.frames_ahead = 0;", 'broadcast writes player state')

# ---------------------------------------------------------------- C07
M('C07-timeouts-swapped', 'C07', 'C07.O1', PROTO,
  "                    && self.last_recv_time + self.disconnect_notify_start < now", "                    && self.last_recv_time + self.disconnect_timeout < now", 'notify uses the disconnect timeout')
M('C07-disconnected-no-test-and-set', 'C07', 'C07.O2', PROTO,
  "        if self.pending_output.len() > PENDING_OUTPUT_SIZE && !self.disconnect_event_sent {\n            self.event_queue.push_back(Event::Disconnected);\n            self.disconnect_event_sent = true;",
  "        if self.pending_output.len() > PENDING_OUTPUT_SIZE {\n            self.event_queue.push_back(Event::Disconnected);", 'inverse of the D3 fix')
M('C07-disconnect-frame-overwrite', ['C07', 'C17'], ['C07.O3', 'C17.O3'], P2P,
  "                    if self.disconnect_frame == NULL_FRAME || last_frame + 1 < self.disconnect_frame {\n                        self.disconnect_frame = last_frame + 1;\n                    }",
  "                    self.disconnect_frame = last_frame + 1;", 'inverse of the D7 fix')
M('C07-resim-from-last-frame-plus-2', 'C07', 'C07.O3', P2P,
  "                    if self.disconnect_frame == NULL_FRAME || last_frame + 1 < self.disconnect_frame {\n                        self.disconnect_frame = last_frame + 1;",
  "                    if self.disconnect_frame == NULL_FRAME || last_frame + 2 < self.disconnect_frame {\n                        self.disconnect_frame = last_frame + 2;", 'resimulation starts one frame late')
M('C07-disconnect-player-wrong-frame', 'C07', 'C07.O4', P2P,
  "                    let last_frame = self.local_connect_status[player_handle].last_frame;\n                    self.disconnect_player_at_frame(player_handle, last_frame);",
  "                    let last_frame = self.sync_layer.current_frame();\n                    self.disconnect_player_at_frame(player_handle, last_frame);", 'explicit disconnect cuts at the current frame')
M('C07-no-endpoint-disconnect', 'C07', 'C07.O4', P2P,
  "                    self.local_connect_status[handle].disconnected = true;\n                }\n                endpoint.disconnect();\n",
  "                    self.local_connect_status[handle].disconnected = true;\n                }\n", 'endpoint keeps running after the drop')
M('C07-late-input-accepted', 'C07', 'C07.O6', P2P,
  "                if !self.local_connect_status[player].disconnected {\n                    // check if the input comes in the correct sequence",
  "                if !self.local_connect_status[player].disconnected || input.frame > 0 {\n                    // check if the input comes in the correct sequence", 'inputs after the cut-off accepted')

# ---------------------------------------------------------------- C08
M('C08-drop-status-length-check', 'C08', ['C08.O2', 'C08.O4'], PROTO,
  """        if !body.disconnect_requested && body.peer_connect_status.len() != self.num_players {
            warn!(
                "Discarding input packet with {} connection statuses; expected {}",
                body.peer_connect_status.len(),
                self.num_players
            );
            return;
        }
""", "", 'status vector of the wrong length is indexed')
M('C08-drop-start-frame-check', 'C08', 'C08.O2', PROTO,
  """        if body.start_frame < 0 {
            warn!(
                "Discarding input packet with invalid start frame {}",
                body.start_frame
            );
            return;
        }
""", "", 'negative start frame accepted')
M('C08-drop-magic-filter', 'C08', 'C08.O1', PROTO,
  """        if self.remote_magic != 0 && msg.header.magic != self.remote_magic {
            trace!("Received message with wrong magic; ignoring");
            return;
        }
""", "", 'foreign magic accepted')
M('C08-handshake-filter-removed', 'C08', ['C08.O1b'], PROTO,
  """        if !is_handshake
            && (self.state == ProtocolState::Initializing
                || self.state == ProtocolState::Synchronizing)
        {
            trace!("Received non-handshake message before being synchronized; ignoring");
            return;
        }
""", "", 'inverse of the D12 fix')
M('C08-decode-unwrap', 'C08', ['C08.O4'], PROTO,
  """            let recv_inputs = match decode(&decode_inp.bytes, &body.bytes) {
                Ok(inputs) => inputs,
                Err(e) => {
                    warn!("Failed to decode input packet, discarding: {e}");
                    return;
                }
            };
""", "            let recv_inputs = decode(&decode_inp.bytes, &body.bytes).unwrap();\n", 'decode error unwrapped')
M('C08-bitfield-rle-decode-again', ['C08', 'C14'], ['C08.O4', 'C14.O1'], COMP,
  "    let buf = rle_decode(data)?;", "    let buf = bitfield_rle::decode(data)?;", 'inverse of the D1 fix')
M('C08-rejection-still-stores', 'C08', 'C08.O3', PROTO,
  """                    Err(e) => {
                        warn!("Discarding input packet for frame {inp_frame}: {e}");
                        return;
                    }""",
  """                    Err(e) => {
                        warn!("Discarding input packet for frame {inp_frame}: {e}");
                        self.recv_inputs.insert(inp_frame, InputBytes { frame: inp_frame, bytes: Vec::new() });
                        return;
                    }""", 'a rejected frame is stored anyway')
M('C08-to-player-inputs-no-divisibility', 'C08', ['C08.O3', 'C08.O4'], PROTO,
  """        if !self.bytes.len().is_multiple_of(num_players) {
            return Err(format!(
                "input byte length {} is not divisible by player count {num_players}",
                self.bytes.len()
            ));
        }
""", "", 'wrong-size frames sliced anyway')
M('C08-unknown-address-handled', 'C08', 'C08.O1', SPEC,
  "            if self.host.is_handling_message(from) {\n                self.host.handle_message(msg);\n            }", "            self.host.handle_message(msg);", 'spectator handles packets from any address')

# ---------------------------------------------------------------- C09
M('C09-desync-block-after-advance', 'C09', 'C09.O1', P2P,
  """        if self.desync_detection != DesyncDetection::Off {
            self.check_checksum_send_interval();
            self.compare_local_checksums_against_peers();
        }

        // This list of requests will be returned to the user
        let mut requests = Vec::new();
""", """        // This list of requests will be returned to the user
        let mut requests = Vec::new();
""", 'first half of the 0.11 regression (block removed from the front)')
M('C09-compare-le', 'C09', 'C09.O2', P2P,
  "                        if remote_frame >= self.sync_layer.last_confirmed_frame() {", "                        if remote_frame > self.sync_layer.last_confirmed_frame() {", 'compares the confirmed frame itself')
M('C09-report-frame-to-send', 'C09', 'C09.O3', P2P,
  "                        let checksum_frame = cell.frame();", "                        let checksum_frame = frame_to_send;", 'reports frame_to_send with the checksum of the fallback cell')
M('C09-event-wrong-local', 'C09', 'C09.O3', P2P,
  "                                    local_checksum,\n                                    remote_checksum,", "                                    local_checksum: remote_checksum,\n                                    remote_checksum,", 'event carries the wrong local checksum')
M('C09-interval-zero-accepted', ['C09', 'C16'], ['C09.O4', 'C16.O1b'], BUILDER,
  """        if let DesyncDetection::On { interval: 0 } = self.desync_detection {
            return Err(GgrsError::InvalidRequest {
                info: "Desync detection interval must be higher than 0.".to_owned(),
            });
        }
""", "", 'interval 0 accepted')

# ---------------------------------------------------------------- C10
M('C10-no-gossip', 'C10', 'C10.O1', PROTO,
  "            connect_status.clone_into(&mut body.peer_connect_status);\n", "            body.peer_connect_status = vec![ConnectionStatus::default(); connect_status.len()];\n", 'status vector not copied into the packet')
M('C10-merge-min', 'C10', 'C10.O2', PROTO,
  "                self.peer_connect_status[i].last_frame = std::cmp::max(", "                self.peer_connect_status[i].last_frame = std::cmp::min(", 'peer view merged with min')
M('C10-merge-and', 'C10', 'C10.O2', PROTO,
  "                self.peer_connect_status[i].disconnected = body.peer_connect_status[i].disconnected\n                    || self.peer_connect_status[i].disconnected;",
  "                self.peer_connect_status[i].disconnected = body.peer_connect_status[i].disconnected\n                    && self.peer_connect_status[i].disconnected;", 'disconnected merged with and')
M('C10-adoption-after-advance', 'C10', 'C10.O3', P2P,
  """        // propagate disconnects to multiple players
        self.update_player_disconnects();

        if lockstep {
            self.advance_lockstep_frame(&mut requests);
        } else {
            self.advance_rollback_frame(&mut requests);
        }
""", """        if lockstep {
            self.advance_lockstep_frame(&mut requests);
        } else {
            self.advance_rollback_frame(&mut requests);
        }

        // propagate disconnects to multiple players
        self.update_player_disconnects();
""", 'adoption after simulating')
M('C10-adopt-only-if-connected', 'C10', 'C10.O3', P2P,
  "                if local_connected || local_min_confirmed > queue_min_confirmed {", "                if local_connected {", 'a later local cut-off is never lowered')

# ---------------------------------------------------------------- C11
M('C11-fills-not-announced', 'C11', 'C11.O1b', P2P,
  """                for fill_input in fills {
                    if fill_input.frame != NULL_FRAME {
                        self.local_connect_status[player_handle].last_frame = fill_input.frame;
                        self.queue_outgoing_local_input(player_handle, fill_input);
                    }
                }
""", "                let _ = fills;\n", '0.13 regression')
M('C11-announce-without-insert', 'C11', 'C11.O1', IQ,
  "            self.add_input_by_frame(input_to_replicate, expected_frame);\n            fills.push(", "            fills.push(", 'pinned-tree defect: fills reported but not inserted')
M('C11-fill-from-old-delay', 'C11', 'C11.O2', IQ,
  "            self.last_added_frame + 1\n        };\n\n        let mut fills", "            self.last_user_frame + 1\n        };\n\n        let mut fills", 'fill start derived from the user frame')
M('C11-set-delay-for-remote', ['C11', 'C16'], ['C11.O3', 'C16.O2b'], P2P,
  "            Some(PlayerType::Local) => {\n                let fills = self.sync_layer.set_frame_delay(player_handle, delay);",
  "            Some(PlayerType::Local | PlayerType::Remote(_)) => {\n                let fills = self.sync_layer.set_frame_delay(player_handle, delay);", 'delay of a remote player changed')
M('C11-no-flush-after-fills', 'C11', 'C11.O1b', P2P,
  "                self.send_ready_outgoing_inputs_to_remotes();\n\n                Ok(())", "                Ok(())", 'fills queued but not flushed')

# ---------------------------------------------------------------- C12
M('C12-reply-without-nonce', 'C12', 'C12.O2', PROTO,
  """        if !self.sync_random_requests.remove(&body.random_reply) {
            return;
        }
""", "", 'any SyncReply counts')
M('C12-nonce-not-consumed', 'C12', 'C12.O2', PROTO,
  "        if !self.sync_random_requests.remove(&body.random_reply) {", "        if !self.sync_random_requests.contains(&body.random_reply) {", 'duplicated reply counts twice')
M('C12-count-off-by-one', 'C12', 'C12.O2', PROTO,
  "                count: NUM_SYNC_PACKETS - self.sync_remaining_roundtrips,", "                count: NUM_SYNC_PACKETS - self.sync_remaining_roundtrips + 1,", 'count off by one')
M('C12-resumed-outside-running', 'C12', ['C12.O3', 'C12.O7'], PROTO,
  "        if self.disconnect_notify_sent && self.state == ProtocolState::Running {", "        if self.disconnect_notify_sent {", 'NetworkResumed after Disconnected possible')
M('C12-keepalive-600', 'C12', 'C12.O5', PROTO,
  "const KEEP_ALIVE_INTERVAL: Duration = Duration::from_millis(200);", "const KEEP_ALIVE_INTERVAL: Duration = Duration::from_millis(600);", 'keep-alive slower than the notify delay')
M('C12-skip-spectator-sync', 'C12', 'C12.O4', P2P,
  """        for endpoint in self.player_reg.spectators.values_mut() {
            if !endpoint.is_synchronized() {
                return;
            }
        }

        // everyone is synchronized, so we can change state and accept input""", "        // everyone is synchronized, so we can change state and accept input", 'Running before spectators are synchronized')
M('C12-spectator-not-terminal', 'C12', 'C12.O7', SPEC,
  "                self.host.disconnect();\n", "", 'inverse of the D14 fix')
M('C12-event-without-trim', ['C12', 'C18'], ['C12.O6', 'C18.O2'], P2P,
  "                    .expect(\"frames ahead is negative despite being positive.\"),\n            });\n            self.trim_event_queue();", "                    .expect(\"frames ahead is negative despite being positive.\"),\n            });", 'inverse of the D6 fix')
M('C12-running-from-any-state', 'C12', 'C12.O1', PROTO,
  "        if self.state != ProtocolState::Synchronizing {\n            return;\n        }\n        // this is not the correct reply", "        // this is not the correct reply", 'a reply completes the handshake in any state')
M('C12-max-event-queue-200', ['C12', 'C18'], ['C12.O5', 'C12.O6', 'C18.O2'], BUILDER,
  "pub(crate) const MAX_EVENT_QUEUE_SIZE: usize = 100;", "pub(crate) const MAX_EVENT_QUEUE_SIZE: usize = 200;", 'bound doubled')

# ---------------------------------------------------------------- C13
M('C13-builder-gt', ['C13', 'C16'], ['C13.O1', 'C16.O1c'], BUILDER, "        if self.check_dist >= self.max_prediction {", "        if self.check_dist > self.max_prediction {", 'check_distance == max_prediction accepted')
M('C13-history-prune-gt', 'C13', 'C13.O3', SYNCT, "            .retain(|&k, _| k >= oldest_allowed_frame);", "            .retain(|&k, _| k > oldest_allowed_frame);", 'window narrower than the comparison range')
M('C13-last-wins', 'C13', 'C13.O3', SYNCT,
  """        if let Some(&cs) = self.checksum_history.get(&latest_cell.frame()) {
            cs == latest_cell.checksum()
        } else {
            self.checksum_history
                .insert(latest_cell.frame(), latest_cell.checksum());
            true
        }""",
  """        let prev = self.checksum_history.insert(latest_cell.frame(), latest_cell.checksum());
        match prev {
            Some(cs) => cs == latest_cell.checksum(),
            None => true,
        }""", 'history keeps the latest checksum')
M('C13-rollback-before-compare', 'C13', 'C13.O2', SYNCT,
  """            if !mismatched_frames.is_empty() {
                return Err(GgrsError::MismatchedChecksum {
                    current_frame,
                    mismatched_frames,
                });
            }

            // simulate rollbacks according to the check_distance
            let frame_to = self.sync_layer.current_frame() - self.check_distance as i32;
            self.adjust_gamestate(frame_to, &mut requests);""",
  """            // simulate rollbacks according to the check_distance
            let frame_to = self.sync_layer.current_frame() - self.check_distance as i32;
            self.adjust_gamestate(frame_to, &mut requests);
            if !mismatched_frames.is_empty() {
                return Err(GgrsError::MismatchedChecksum {
                    current_frame,
                    mismatched_frames,
                });
            }""", 'mismatch reported after requests were issued')
M('C13-partial-inputs', 'C13', 'C13.O4', SYNCT, "        if self.num_players != self.local_inputs.len() {", "        if self.local_inputs.is_empty() {", 'advance with inputs of some players missing')

# ---------------------------------------------------------------- C14
M('C14-drop-truncated-prefix-check', ['C14', 'C08'], ['C14.O1', 'C08.O4'], COMP,
  """        if pos + 2 > data.len() {
            return Err("truncated length prefix".into());
        }
""", "", 'truncated length prefix indexed')
M('C14-drop-truncated-data-check', ['C14', 'C08'], ['C14.O1', 'C08.O4'], COMP,
  """        if pos + len > data.len() {
            return Err("truncated input data".into());
        }
""", "", 'truncated data sliced')
M('C14-no-cap', ['C14', 'C08'], ['C14.O3', 'C14.O1', 'C08.O4'], COMP,
  """        if len > MAX_DECODED_LEN - output.len() {
            return Err("decoded input data too large".into());
        }
""", "", 'decoded length not capped')
M('C14-length-prefix-one-byte', 'C14', 'C14.O2', COMP,
  "        bytes.extend_from_slice(&(input.len() as u16).to_le_bytes());", "        bytes.extend_from_slice(&(input.len() as u8).to_le_bytes());", 'writer emits a 1-byte length')
M('C14-decode-order', 'C14', 'C14.O2', COMP,
  "    // decode the delta-encoding\n    delta_decode(reference, &buf)", "    // decode the delta-encoding\n    delta_decode(&buf, reference)", 'reference and data swapped')
M('C14-base-not-updated-in-decode', 'C14', 'C14.O2', COMP, "        base = decoded.clone();\n", "", 'reader keeps the reference as base')

# ---------------------------------------------------------------- C15
M('C15-interval-30', 'C15', 'C15.O1', P2P, "const RECOMMENDATION_INTERVAL: Frame = 60;", "const RECOMMENDATION_INTERVAL: Frame = 30;", 'recommendations twice as often')
M('C15-skip-frames-constant', 'C15', 'C15.O1', P2P,
  """                skip_frames: self
                    .frames_ahead
                    .try_into()
                    .expect("frames ahead is negative despite being positive."),""", "                skip_frames: MIN_RECOMMENDATION,", 'skip_frames is a constant')
M('C15-gate-gt', 'C15', 'C15.O1', P2P, "            && self.frames_ahead >= MIN_RECOMMENDATION as i32", "            && self.frames_ahead >= MIN_RECOMMENDATION as i32 - 1", 'recommendation at frames_ahead 2')
M('C15-stats-swapped', 'C15', 'C15.O2', PROTO,
  "            local_frames_behind: self.local_frame_advantage,\n            remote_frames_behind: self.remote_frame_advantage,",
  "            local_frames_behind: self.remote_frame_advantage,\n            remote_frames_behind: self.local_frame_advantage,", 'local/remote swapped')
M('C15-stats-before-data', 'C15', 'C15.O2', PROTO,
  """        if seconds == 0 {
            return Err(GgrsError::NotEnoughData);
        }
""", "", 'numbers before a second of data')
M('C15-clock-diff-plain', 'C15', 'C15.O2', PROTO,
  "        let seconds = now.saturating_sub(self.stats_start_time) / 1000;", "        let seconds = (now - self.stats_start_time) / 1000;", 'inverse of the D13 fix')

# ---------------------------------------------------------------- C16
M('C16-no-revalidation', 'C16', 'C16.O1', BUILDER,
  """        for (&player_handle, player_type) in &self.player_reg.handles {
            Self::validate_player_handle(player_type, player_handle, num_players)?;
        }
""", "", '0.13 regression')
M('C16-spectator-handle-le', 'C16', 'C16.O1', BUILDER, "                if player_handle < num_players {", "                if player_handle <= num_players {", 'spectator handle == num_players rejected')
M('C16-fps-zero-accepted', 'C16', 'C16.O1', BUILDER,
  """        if fps == 0 {
            return Err(GgrsError::InvalidRequest {
                info: "FPS should be higher than 0.".to_owned(),
            });
        }
""", "", 'fps 0 accepted (division by zero later)')
M('C16-max-frames-behind-le', 'C16', 'C16.O1', BUILDER, "        if max_frames_behind >= SPECTATOR_BUFFER_SIZE {", "        if max_frames_behind > SPECTATOR_BUFFER_SIZE {", 'max_frames_behind == buffer size accepted')
M('C16-duplicate-handle', 'C16', 'C16.O1', BUILDER,
  """        if self.player_reg.handles.contains_key(&player_handle) {
            return Err(GgrsError::InvalidRequest {
                info: "Player handle already in use.".to_owned(),
            });
        }
""", "", 'duplicate handles overwrite')
M('C16-add-local-input-effect-first', 'C16', 'C16.O2', P2P,
  """        if !self
            .player_reg
            .local_player_handles()
            .contains(&player_handle)
        {
            return Err(GgrsError::InvalidRequest {
                info: "The player handle you provided is not referring to a local player."
                    .to_owned(),
            });
        }
        let player_input = PlayerInput::<T::Input>::new(self.sync_layer.current_frame(), input);
        self.pending_local_inputs
            .insert(player_handle, player_input);
        Ok(())""",
  """        let player_input = PlayerInput::<T::Input>::new(self.sync_layer.current_frame(), input);
        self.pending_local_inputs
            .insert(player_handle, player_input);
        if !self
            .player_reg
            .local_player_handles()
            .contains(&player_handle)
        {
            return Err(GgrsError::InvalidRequest {
                info: "The player handle you provided is not referring to a local player."
                    .to_owned(),
            });
        }
        Ok(())""", 'rejected input is stored anyway')

# ---------------------------------------------------------------- C17
M('C17-from-inputs-map-order', 'C17', 'C17.O2', PROTO,
  """        for handle in 0..num_players {
            if let Some(input) = inputs.get(&handle) {""", """        for (_, input) in inputs.iter() {
            if num_players > 0 {""", 'frame bytes assembled in map order')
M('C17-unsorted-handles', 'C17', 'C17.O2', PROTO, "        handles.sort_unstable();\n", "", 'endpoint handles in map order')
M('C17-desync-hash-order', 'C17', 'C17.O1', P2P,
  """                    let mut pending: Vec<(Frame, u128)> = remote
                        .pending_checksums
                        .iter()
                        .map(|(&frame, &checksum)| (frame, checksum))
                        .collect();
                    pending.sort_unstable();
""", """                    let pending: Vec<(Frame, u128)> = remote
                        .pending_checksums
                        .iter()
                        .map(|(&frame, &checksum)| (frame, checksum))
                        .collect();
""", 'inverse of the D9 fix')

# ---------------------------------------------------------------- C18
M('C18-drop-recv-inputs-prune', 'C18', 'C18.O2', PROTO,
  """            let last_recv_frame = self.last_recv_frame();
            self.recv_inputs
                .retain(|&k, _| k >= last_recv_frame - 2 * self.max_prediction as i32);
""", "", 'received inputs never pruned')
M('C18-drop-pending-output-cap', 'C18', 'C18.O2', PROTO,
  """        if self.pending_output.len() > PENDING_OUTPUT_SIZE && !self.disconnect_event_sent {
            self.event_queue.push_back(Event::Disconnected);
            self.disconnect_event_sent = true;
        }
""", "", 'silent spectator buffered for without bound')
M('C18-queue-without-remotes', 'C18', 'C18.O3', P2P,
  """        if self.player_reg.remotes.is_empty() {
            return;
        }
        self.outgoing_local_inputs""", "        self.outgoing_local_inputs", '0.13 regression: all-local session leaks')
M('C18-checksum-history-unbounded', 'C18', 'C18.O2', P2P,
  "                        if self.local_checksum_history.len() > MAX_CHECKSUM_HISTORY_SIZE {", "                        if self.local_checksum_history.len() > usize::MAX / 2 {", 'history effectively never pruned')
M('C18-new-growth-site', 'C18', 'C18.O1', P2P,
  "        self.frames_ahead = self.max_frame_advantage();", "        self.frames_ahead = self.max_frame_advantage();\n        self.local_checksum_history.insert(self.sync_layer.current_frame(), 0);", 'a new, unbounded growth site')

# ---------------------------------------------------------------- NEUTRAL edits: behaviour-preserving rewrites; every check must stay quiet
ALL = ['C01', 'C02', 'C03', 'C04', 'C05', 'C06', 'C07', 'C08', 'C09', 'C10', 'C11', 'C12', 'C13', 'C14', 'C15', 'C16', 'C17', 'C18']
N('rename-local-confirmed-frame', ALL, P2P,
  """        let confirmed_frame = self.confirmed_frame();

        // check game consistency and roll back, if necessary
        self.handle_rollback_and_save(confirmed_frame, requests);

        // send confirmed inputs to spectators before throwing them away
        self.send_confirmed_inputs_to_spectators(confirmed_frame);

        // set the last confirmed frame and discard all saved inputs before that frame
        self.sync_layer
            .set_last_confirmed_frame(confirmed_frame, self.sparse_saving);""",
  """        let cf = self.confirmed_frame();

        // check game consistency and roll back, if necessary
        self.handle_rollback_and_save(cf, requests);

        // send confirmed inputs to spectators before throwing them away
        self.send_confirmed_inputs_to_spectators(cf);

        // set the last confirmed frame and discard all saved inputs before that frame
        let sparse = self.sparse_saving;
        self.sync_layer.set_last_confirmed_frame(cf, sparse);""", 'renamed local, extra temporary')
N('gate-negated-ge', ALL, P2P, "        if frames_ahead < self.max_prediction as i32 {", "        if !(frames_ahead >= self.max_prediction as i32) {", 'a < b written as !(a >= b)')
N('gate-plus-one-le', ALL, P2P, "        if frames_ahead < self.max_prediction as i32 {", "        if frames_ahead + 1 <= self.max_prediction as i32 {", 'a < b written as a + 1 <= b')
N('gate-stricter', ALL, P2P, "        if frames_ahead < self.max_prediction as i32 {", "        if frames_ahead + 1 < self.max_prediction as i32 {", 'a stricter gate (different behaviour, no property broken)')
N('skip-lt-plus-one', ALL, PROTO, "                if inp_frame <= self.last_recv_frame() {", "                if inp_frame < self.last_recv_frame() + 1 {", 'a <= b written as a < b + 1')
N('reorder-clear-before-step', ALL, P2P,
  "            self.sync_layer.advance_frame();\n            self.pending_local_inputs.clear();\n            requests.push(GgrsRequest::AdvanceFrame { inputs });\n        } else {\n            debug!(\n                \"Prediction Threshold reached.",
  "            self.pending_local_inputs.clear();\n            self.sync_layer.advance_frame();\n            requests.push(GgrsRequest::AdvanceFrame { inputs });\n        } else {\n            debug!(\n                \"Prediction Threshold reached.", 'independent statements reordered')
N('add-logging', ALL, PROTO,
  "        // drop pending outputs until the ack frame\n        self.pop_pending_output(body.ack_frame);", "        // drop pending outputs until the ack frame\n        trace!(\"acknowledged up to {}\", body.ack_frame);\n        self.pop_pending_output(body.ack_frame);", 'a trace! line')
N('trim-as-loop-break', ALL, P2P,
  "        while self.event_queue.len() > MAX_EVENT_QUEUE_SIZE {\n            self.event_queue.pop_front();\n        }\n    }\n\n    fn compare_local_checksums_against_peers",
  "        loop {\n            if self.event_queue.len() <= MAX_EVENT_QUEUE_SIZE {\n                break;\n            }\n            self.event_queue.pop_front();\n        }\n    }\n\n    fn compare_local_checksums_against_peers", 'while rewritten as loop/break')
MUTANTS.append(dict(id='neutral/extract-frames-ahead-helper', property=ALL, expect=[], neutral=True, desc='gate operand extracted into a helper function',
    edits=[dict(file=P2P, old="""        let frames_ahead = if self.sync_layer.last_confirmed_frame() == NULL_FRAME {
            self.sync_layer.current_frame()
        } else {
            self.sync_layer.current_frame() - self.sync_layer.last_confirmed_frame()
        };
        if frames_ahead < self.max_prediction as i32 {""", new="""        if self.frames_ahead_of_confirmed() < self.max_prediction as i32 {"""),
           dict(file=P2P, old="""    /// Roll back to `min_confirmed` frame and resimulate the game with most up-to-date input data.""",
                new="""    fn frames_ahead_of_confirmed(&self) -> i32 {
        if self.sync_layer.last_confirmed_frame() == NULL_FRAME {
            self.sync_layer.current_frame()
        } else {
            self.sync_layer.current_frame() - self.sync_layer.last_confirmed_frame()
        }
    }

    /// Roll back to `min_confirmed` frame and resimulate the game with most up-to-date input data.""")]))
_unused = ('extract-frames-ahead-helper', ALL, P2P,
  """        let frames_ahead = if self.sync_layer.last_confirmed_frame() == NULL_FRAME {
            self.sync_layer.current_frame()
        } else {
            self.sync_layer.current_frame() - self.sync_layer.last_confirmed_frame()
        };
        if frames_ahead < self.max_prediction as i32 {""",
  """        if self.frames_ahead_of_confirmed() < self.max_prediction as i32 {""", 'gate operand extracted into a helper (first half)')
N('inline-lockstep-confirmed', ALL, P2P,
  "        if self.lockstep_current_frame_confirmed() {\n            let inputs = self", "        if self.confirmed_frame() >= self.sync_layer.current_frame() {\n            let inputs = self", 'helper inlined')
N('swap-and-operands', ALL, SL,
  "            if con_stat.disconnected && con_stat.last_frame < self.current_frame {", "            if con_stat.last_frame < self.current_frame && con_stat.disconnected {", 'operands of && swapped')
N('gt-instead-of-lt', ALL, SL,
  "            if con_stat.disconnected && con_stat.last_frame < frame {", "            if con_stat.disconnected && frame > con_stat.last_frame {", 'a < b written as b > a')
N('match-instead-of-if-state', ALL, PROTO,
  "        if self.state != ProtocolState::Running {\n            return;\n        }\n\n        let endpoint_data", "        match self.state {\n            ProtocolState::Running => (),\n            _ => return,\n        }\n\n        let endpoint_data", 'if state != Running rewritten as match')
N('early-return-inverted', ALL, PROTO,
  "        if self.state == ProtocolState::Shutdown {\n            return;\n        }\n\n        self.state = ProtocolState::Disconnected;\n        // schedule the timeout which will lead to shutdown\n        self.shutdown_timeout = Instant::now().add(Duration::from_millis(UDP_SHUTDOWN_TIMER));",
  "        if self.state != ProtocolState::Shutdown {\n            self.state = ProtocolState::Disconnected;\n            // schedule the timeout which will lead to shutdown\n            self.shutdown_timeout = Instant::now().add(Duration::from_millis(UDP_SHUTDOWN_TIMER));\n        }", 'early return turned into a guarded block')
N('timer-via-duration-since', ALL, PROTO,
  "                    && self.last_recv_time + self.disconnect_timeout < now", "                    && now.duration_since(self.last_recv_time) > self.disconnect_timeout", 'timer comparison written with duration_since')
N('doc-comment-and-format', ALL, IQ,
  "    pub(crate) fn reset_prediction(&mut self) {\n        self.prediction.frame = NULL_FRAME;\n        self.first_incorrect_frame = NULL_FRAME;\n        self.last_requested_frame = NULL_FRAME;",
  "    /// Forget the prediction state.\n    pub(crate) fn reset_prediction(&mut self) {\n        self.last_requested_frame = NULL_FRAME;\n        self.first_incorrect_frame = NULL_FRAME;\n        self.prediction.frame = NULL_FRAME;", 'statement order of independent stores, doc comment')
N('marker-condition-nested-ifs', ALL, IQ,
  "            if self.first_incorrect_frame == NULL_FRAME && !self.prediction.input_matches(&input) {\n                self.first_incorrect_frame = frame_number;\n            }",
  "            if self.first_incorrect_frame == NULL_FRAME {\n                if !self.prediction.input_matches(&input) {\n                    self.first_incorrect_frame = frame_number;\n                }\n            }", '&& split into nested ifs')
N('retain-bound-precomputed', ALL, PROTO,
  "            self.recv_inputs\n                .retain(|&k, _| k >= last_recv_frame - 2 * self.max_prediction as i32);",
  "            let oldest = last_recv_frame - 2 * self.max_prediction as i32;\n            self.recv_inputs.retain(|&k, _| k >= oldest);", 'prune bound computed outside the closure')
N('spectator-ring-check-order', ALL, SPEC,
  """        if player_inputs[0].frame < frame_to_grab {
            return Err(GgrsError::PredictionThreshold);
        }

        // The host is more than [`SPECTATOR_BUFFER_SIZE`] frames ahead of the spectator. The input we need is gone forever.
        if player_inputs[0].frame > frame_to_grab {
            return Err(GgrsError::SpectatorTooFarBehind);
        }
""", """        // The host is more than [`SPECTATOR_BUFFER_SIZE`] frames ahead of the spectator. The input we need is gone forever.
        if player_inputs[0].frame > frame_to_grab {
            return Err(GgrsError::SpectatorTooFarBehind);
        }
        if player_inputs[0].frame < frame_to_grab {
            return Err(GgrsError::PredictionThreshold);
        }
""", 'order of two independent checks swapped')
N('builder-fps-lt-1', ALL, BUILDER, "        if fps == 0 {", "        if fps < 1 {", 'fps == 0 written as fps < 1 (unsigned)')
N('catchup-speed-eq-0', ALL, BUILDER, "        if catchup_speed < 1 {", "        if catchup_speed == 0 {", 'catchup_speed < 1 written as == 0 (unsigned)')
N('delta-decode-check-as-sub', ALL, COMP,
  "        if pos + 2 > data.len() {\n            return Err(\"truncated length prefix\".into());\n        }", "        if data.len() < pos + 2 {\n            return Err(\"truncated length prefix\".into());\n        }", 'comparison operands swapped')
N('send-input-ack-helper-renamed-local', ALL, PROTO,
  "        let body = InputAck {\n            ack_frame: self.last_recv_frame(),\n        };\n\n        self.queue_message(MessageBody::InputAck(body));",
  "        let ack = InputAck {\n            ack_frame: self.last_recv_frame(),\n        };\n        let message = MessageBody::InputAck(ack);\n        self.queue_message(message);", 'locals renamed / split')
N('disconnect-frame-min-via-cmp', ALL, P2P,
  "                    if self.disconnect_frame == NULL_FRAME || last_frame + 1 < self.disconnect_frame {\n                        self.disconnect_frame = last_frame + 1;\n                    }",
  "                    let candidate = last_frame + 1;\n                    if self.disconnect_frame == NULL_FRAME || self.disconnect_frame > candidate {\n                        self.disconnect_frame = candidate;\n                    }", 'min-merge with a temporary and flipped comparison')
N('confirmed-frame-as-iterator-min', ALL, P2P,
  """        let mut confirmed_frame = i32::MAX;

        for con_stat in &self.local_connect_status {
            if !con_stat.disconnected {
                confirmed_frame = std::cmp::min(confirmed_frame, con_stat.last_frame);
            }
        }
""", """        let confirmed_frame = self
            .local_connect_status
            .iter()
            .filter(|con_stat| !con_stat.disconnected)
            .map(|con_stat| con_stat.last_frame)
            .min()
            .unwrap_or(i32::MAX);
""", 'min over connected players written with iterators')
N('check-consistency-as-iterator-min', ALL, SL,
  """        for handle in 0..self.num_players {
            let incorrect = self.input_queues[handle].first_incorrect_frame();
            if incorrect != NULL_FRAME
                && (first_incorrect == NULL_FRAME || incorrect < first_incorrect)
            {
                first_incorrect = incorrect;
            }
        }
        first_incorrect""", """        self.input_queues
            .iter()
            .map(|q| q.first_incorrect_frame())
            .chain(std::iter::once(first_incorrect))
            .filter(|&f| f != NULL_FRAME)
            .min()
            .unwrap_or(NULL_FRAME)""", 'NULL-aware minimum including the pending disconnect frame, written with iterators')

# ---------------------------------------------------------------- helper bodies (rules/helpers.py)
M('H-last-recv-frame-min', 'C05', 'C05.H', PROTO,
  "match self.recv_inputs.iter().max_by_key(|&(k, _)| k) {", "match self.recv_inputs.iter().min_by_key(|&(k, _)| k) {",
  'last_recv_frame returns the smallest stored frame')
M('H-last-recv-frame-first', 'C01', 'C01.H', PROTO,
  "match self.recv_inputs.iter().max_by_key(|&(k, _)| k) {", "match self.recv_inputs.iter().next() {",
  'last_recv_frame returns the first stored frame')
M('H-prev-pos-off-by-one', 'C03', 'C03.H', IQ,
  """        if head == 0 {
            INPUT_QUEUE_LENGTH - 1
        } else {
            head - 1
        }""", """        if head <= 1 {
            INPUT_QUEUE_LENGTH - 1
        } else {
            head - 1
        }""", 'ring predecessor wrong at head == 1')
M('H-cells-max-pred', 'C02', 'C02.H', SL,
  "let num_cells = max_pred + 1;", "let num_cells = max_pred.max(1);", 'one cell short')
M('H-get-cell-shifted', 'C13', 'C13.H', SL,
  "let pos = frame as usize % self.states.len();", "let pos = (frame as usize + 1) % self.states.len();", 'cell index shifted')
M('H-saved-state-untagged', 'C09', 'C09.H', SL,
  """        if cell.0.lock().frame == frame {
            Some(cell)
        } else {
            None
        }
    }

    /// Returns the latest saved state whose""", """        if cell.0.lock().frame >= frame {
            Some(cell)
        } else {
            None
        }
    }

    /// Returns the latest saved state whose""", 'a newer frame in the slot is handed out as the requested frame')
M('H-input-matches-frame', 'C03', 'C03.H', 'src/frame_info.rs',
  """    pub(crate) fn input_matches(&self, other: &Self) -> bool {
        self.input == other.input""", """    pub(crate) fn input_matches(&self, other: &Self) -> bool {
        self.frame == other.frame || self.input == other.input""", 'prediction check passes on equal frames')
M('H-is-synchronized-too-early', 'C12', 'C12.H', PROTO,
  """        self.state == ProtocolState::Running
            || self.state == ProtocolState::Disconnected""", """        self.state == ProtocolState::Running
            || self.state == ProtocolState::Synchronizing
            || self.state == ProtocolState::Disconnected""", 'synchronizing endpoints count as synchronized')
M('H-num-spectators-counts-remotes', 'C06', 'C06.H', P2P,
  ".filter(|(_, v)| matches!(v, PlayerType::Spectator(_)))\n            .count()", ".filter(|(_, v)| !matches!(v, PlayerType::Local))\n            .count()",
  'num_spectators counts remotes too')
M('H-delay-not-applied', 'C11', 'C11.H', IQ,
  "        input_frame += self.frame_delay as i32;\n", "        input_frame += (self.frame_delay as i32).min(1);\n", 'delay clipped to 1')
M('H-next-complete-any', 'C18', 'C18.H', P2P,
  """        if local_handles
            .iter()
            .all(|handle| inputs.contains_key(handle))
        {
            Some(next_frame)""", """        if local_handles
            .iter()
            .any(|handle| inputs.contains_key(handle))
        {
            Some(next_frame)""", 'a frame counts as complete once any local handle has an entry')

# neutral spellings for the helper / codec-table / wiring rules
N('rle-fill-shift-spelling', ['C14', 'C03'], COMP,
  "let fill = if value & 2 != 0 { 255 } else { 0 };", "let fill = if (value >> 1) & 1 == 1 { 255 } else { 0 };", 'same bit, tested after a shift')
N('rle-fill-inverted-branches', ['C14'], COMP,
  "let fill = if value & 2 != 0 { 255 } else { 0 };", "let fill = if value & 2 == 0 { 0 } else { 255 };", 'branches swapped')
N('queue-positive-guard', ['C11', 'C18'], P2P,
  """        if self.player_reg.remotes.is_empty() {
            return;
        }
        self.outgoing_local_inputs
            .entry(input.frame)
            .or_default()
            .insert(player_handle, input);""", """        if !self.player_reg.remotes.is_empty() {
            self.outgoing_local_inputs
                .entry(input.frame)
                .or_default()
                .insert(player_handle, input);
        }""", 'guard written positively')
N('cells-inclusive-range', ['C02', 'C13', 'C16', 'C04'], SL,
  """        let num_cells = max_pred + 1;
        let mut states = Vec::with_capacity(num_cells);
        for _ in 0..num_cells {
            states.push(GameStateCell::default());
        }
""", """        let mut states = Vec::with_capacity(max_pred + 1);
        for _ in 0..=max_pred {
            states.push(GameStateCell::default());
        }
""", 'same number of cells, inclusive range')
N('cells-iterator', ['C02', 'C13'], SL,
  """        let num_cells = max_pred + 1;
        let mut states = Vec::with_capacity(num_cells);
        for _ in 0..num_cells {
            states.push(GameStateCell::default());
        }
""", """        let states: Vec<_> = (0..max_pred + 1).map(|_| GameStateCell::default()).collect();
""", 'same number of cells, iterator')
N('last-recv-frame-keys-max', ['C01', 'C05', 'C08'], PROTO,
  """        match self.recv_inputs.iter().max_by_key(|&(k, _)| k) {
            Some((k, _)) => *k,
            None => NULL_FRAME,
        }""", """        self.recv_inputs.keys().max().copied().unwrap_or(NULL_FRAME)""", 'largest key via keys().max()')
N('prev-pos-modular', ALL, IQ,
  """        if head == 0 {
            INPUT_QUEUE_LENGTH - 1
        } else {
            head - 1
        }""", """        (head + INPUT_QUEUE_LENGTH - 1) % INPUT_QUEUE_LENGTH""", 'ring predecessor written with modular arithmetic')
N('is-synchronized-matches', ['C12', 'C05', 'C07'], PROTO,
  """        self.state == ProtocolState::Running
            || self.state == ProtocolState::Disconnected
            || self.state == ProtocolState::Shutdown""", """        matches!(
            self.state,
            ProtocolState::Running | ProtocolState::Disconnected | ProtocolState::Shutdown
        )""", 'same three states with matches!')
N('input-matches-swapped-operands', ['C03', 'C01'], 'src/frame_info.rs',
  """    pub(crate) fn input_matches(&self, other: &Self) -> bool {
        self.input == other.input""", """    pub(crate) fn input_matches(&self, other: &Self) -> bool {
        other.input == self.input""", 'operands swapped')

# wiring / codec table / queue guard
M('W-swap-timeouts-p2p-endpoint', 'C07', 'C07.W', BUILDER,
  """            local_players,
            self.max_prediction,
            self.disconnect_timeout,
            self.disconnect_notify_start,""", """            local_players,
            self.max_prediction,
            self.disconnect_notify_start,
            self.disconnect_timeout,""", 'timeout and notify delay crossed at the P2P endpoint constructor call')
M('W-swap-fields-in-endpoint', 'C12', 'C12.W', PROTO,
  """            disconnect_timeout,
            disconnect_notify_start,""", """            disconnect_timeout: disconnect_notify_start,
            disconnect_notify_start: disconnect_timeout,""", 'fields crossed inside UdpProtocol::new')
M('C14-run-length-shift', 'C14', 'C14.O4', COMP,
  "let len = if is_run { value >> 2 } else { value >> 1 };", "let len = if is_run { value >> 1 } else { value >> 1 };", 'run length read with the literal shift')
M('C14-run-flag-inverted', 'C14', 'C14.O4', COMP,
  "let is_run = value & 1 != 0;", "let is_run = value & 1 == 0;", 'run / literal flag inverted')
M('C14-encode-skip-first', 'C14', 'C14.O2', COMP,
  "let buf = delta_encode(reference, pending_input);", "let buf = delta_encode(reference, pending_input.skip(0).take(64));", 'sequence truncated before encoding')
M('C11-queue-only-when-running', 'C11', 'C11.O1b', P2P,
  """        if self.player_reg.remotes.is_empty() {
            return;
        }
        self.outgoing_local_inputs
            .entry(input.frame)""", """        if self.player_reg.remotes.is_empty() || self.state != SessionState::Running {
            return;
        }
        self.outgoing_local_inputs
            .entry(input.frame)""", 'announced fills are dropped before the session runs')

# initial state (rules/initial.py)
M('I-cadence-gate-closed-at-start', 'C15', 'C15.I', P2P, "next_recommended_sleep: 0,", "next_recommended_sleep: 60,", 'no recommendation during the first second')
M('I-checksum-cursor-zero', 'C09', 'C09.I', P2P, "last_sent_checksum_frame: NULL_FRAME,", "last_sent_checksum_frame: 0,", 'frame 0 counts as already reported')
M('I-last-requested-zero', 'C01', 'C01.I', IQ, "last_requested_frame: NULL_FRAME,", "last_requested_frame: 0,", 'discard bound starts at 0 instead of none')
M('I-spectator-starts-at-zero', 'C06', 'C06.I', SPEC, "current_frame: NULL_FRAME,", "current_frame: 0,", 'the spectator skips frame 0')
M('I-event-latch-set', 'C07', 'C07.I', PROTO, "disconnect_event_sent: false,", "disconnect_event_sent: true,", 'Disconnected can never be emitted')

M('W-getter-crossed', 'C02', 'C02.W', SL,
  """    pub(crate) fn last_saved_frame(&self) -> Frame {
        self.last_saved_frame""", """    pub(crate) fn last_saved_frame(&self) -> Frame {
        self.last_confirmed_frame""", 'getter returns the neighbouring field')

# ---------------------------------------------------------------- round 4: configuration-determined panics, forwarding
M('O4-duration-plain-sub', 'C16', 'C16.O4', PROTO,
  """                    let duration: Duration = self
                        .disconnect_timeout
                        .saturating_sub(self.disconnect_notify_start);""",
  """                    let duration: Duration = self.disconnect_timeout - self.disconnect_notify_start;""",
  'Duration subtraction panics when the notify delay exceeds the timeout (a configuration the builder accepts)')
N('duration-sub-guarded', ['C16', 'C07', 'C12'], PROTO,
  """                    let duration: Duration = self
                        .disconnect_timeout
                        .saturating_sub(self.disconnect_notify_start);""",
  """                    let duration: Duration = if self.disconnect_timeout >= self.disconnect_notify_start {
                        self.disconnect_timeout - self.disconnect_notify_start
                    } else {
                        Duration::ZERO
                    };""", 'saturating_sub written as a guarded subtraction')
M('O4-prediction-minus-one', 'C16', 'C16.O4', PROTO,
  """                .retain(|&k, _| k >= last_recv_frame - 2 * self.max_prediction as i32);""",
  """                .retain(|&k, _| k >= last_recv_frame - 2 * (self.max_prediction - 1) as i32 - 2);""",
  'unsigned subtraction on the prediction window: underflows for lockstep (window 0)')
M('O4-wait-fps-unchecked-field', 'C16', 'C16.O4', P2P,
  """        let micros = (1_000_000_u64 / self.fps as u64).max(1);""",
  """        let micros = (1_000_000_u64 / self.max_prediction as u64).max(1);""",
  'divides by the prediction window, which may be 0 (lockstep)')
M('W-forward-filtered-handles', ['C18', 'C07'], ['C18.W', 'C07.W'], BUILDER,
  """        // create the endpoint, set parameters
        let mut endpoint = UdpProtocol::new(
            handles,""",
  """        // create the endpoint, set parameters
        let mut endpoint = UdpProtocol::new(
            handles.into_iter().filter(|&h| h < self.num_players).collect(),""",
  'spectator endpoints get an empty handle list: the Disconnected arm never stops them')

# ---------------------------------------------------------------- round 5
M('O9-keepalive-not-a-sign-of-life', ['C12', 'C07'], ['C12.O9', 'C07.O1'], PROTO,
  """        // update time when we last received packages
        self.last_recv_time = Instant::now();
""", """        // update time when we last received packages
        if !matches!(msg.body, MessageBody::KeepAlive) {
            self.last_recv_time = Instant::now();
        }
""", 'keep-alives no longer refresh the liveness timestamp: an idle but healthy peer is reported interrupted')
M('R-local-history-consumed', ['C09', 'C17'], ['C09.R', 'C17.R'], P2P,
  """                        if let Some(&local_checksum) =
                            self.local_checksum_history.get(&remote_frame)""",
  """                        if let Some(local_checksum) =
                            self.local_checksum_history.remove(&remote_frame)""", 'the local checksum is consumed by the first remote that reports the frame')
M('R-pending-output-cleared-on-ack', 'C05', 'C05.R', PROTO,
  """    fn on_input_ack(&mut self, body: InputAck) {
        self.pop_pending_output(body.ack_frame);""",
  """    fn on_input_ack(&mut self, body: InputAck) {
        if body.ack_frame >= self.last_acked_input.frame {
            self.pending_output.clear();
        }
        self.pop_pending_output(body.ack_frame);""", 'an ack clears the whole resend queue, unacknowledged inputs included')
N('from-inputs-frame-as-if-expression', ['C06', 'C01', 'C07', 'C17'], PROTO,
  """                if input.frame != NULL_FRAME {
                    frame = input.frame;
                }
""", """                frame = if input.frame != NULL_FRAME {
                    input.frame
                } else {
                    frame
                };
""", 'conditional assignment written as an if-expression')
N('from-inputs-frame-guard-positive', ['C06', 'C01', 'C07', 'C17'], PROTO,
  """                if input.frame != NULL_FRAME {
                    frame = input.frame;
                }
""", """                if input.frame >= 0 {
                    frame = input.frame;
                }
""", 'frame != NULL_FRAME written as frame >= 0')
N('liveness-store-after-resume-check', ['C12', 'C07', 'C08'], PROTO,
  """        // update time when we last received packages
        self.last_recv_time = Instant::now();

        // if the connection has been marked as interrupted, send an event to signal we are receiving again
        if self.disconnect_notify_sent && self.state == ProtocolState::Running {
            trace!("Received message on interrupted protocol; sending NetworkResumed event");
            self.disconnect_notify_sent = false;
            self.event_queue.push_back(Event::NetworkResumed);
        }
""", """        // if the connection has been marked as interrupted, send an event to signal we are receiving again
        if self.disconnect_notify_sent && self.state == ProtocolState::Running {
            trace!("Received message on interrupted protocol; sending NetworkResumed event");
            self.disconnect_notify_sent = false;
            self.event_queue.push_back(Event::NetworkResumed);
        }

        // update time when we last received packages
        self.last_recv_time = Instant::now();
""", 'two independent statements reordered')
N('event-queue-trim-as-drain', ['C12', 'C18'], P2P,
  """        while self.event_queue.len() > MAX_EVENT_QUEUE_SIZE {
            self.event_queue.pop_front();
        }""", """        if self.event_queue.len() > MAX_EVENT_QUEUE_SIZE {
            let excess = self.event_queue.len() - MAX_EVENT_QUEUE_SIZE;
            self.event_queue.drain(..excess);
        }""", 'cap loop written as one drain')

SOCK = 'src/network/udp_socket.rs'
M('S-malformed-datagram-ends-receive', 'C08', 'C08.O6', SOCK,
  """                    if let Ok(msg) = bincode::deserialize(&self.buffer[0..number_of_bytes]) {
                        received_messages.push((src_addr, msg));
                    }""",
  """                    match bincode::deserialize(&self.buffer[0..number_of_bytes]) {
                        Ok(msg) => received_messages.push((src_addr, msg)),
                        Err(err) => {
                            warn!("Dropping malformed packet from {src_addr}: {err}");
                            return received_messages;
                        }
                    }""", 'a malformed datagram ends the receive loop: valid packets queued behind it wait for the next poll (and a flood of garbage starves the session)')
M('S-unexpected-error-drops-collected', 'C08', 'C08.O6', SOCK,
  """                    warn!("Unexpected error receiving UDP packet: {err}");
                    return received_messages;""",
  """                    warn!("Unexpected error receiving UDP packet: {err}");
                    return Vec::new();""", 'messages collected before an unexpected socket error are dropped')
M('S-parse-whole-buffer', 'C08', 'C08.O6', SOCK,
  """bincode::deserialize(&self.buffer[0..number_of_bytes])""", """bincode::deserialize(&self.buffer[..])""", 'stale bytes of an earlier, longer datagram are parsed as part of this one')
N('socket-match-instead-of-if-let', ['C08', 'C03', 'C01'], SOCK,
  """                    if let Ok(msg) = bincode::deserialize(&self.buffer[0..number_of_bytes]) {
                        received_messages.push((src_addr, msg));
                    }""",
  """                    match bincode::deserialize(&self.buffer[0..number_of_bytes]) {
                        Ok(msg) => received_messages.push((src_addr, msg)),
                        Err(_) => continue,
                    }""", 'if-let written as a match with an explicit continue')
N('skip-frames-unsigned-abs', ['C15'], P2P,
  """                skip_frames: self
                    .frames_ahead
                    .try_into()
                    .expect("frames ahead is negative despite being positive."),""",
  """                skip_frames: self.frames_ahead.unsigned_abs(),""", 'try_into().expect() of a value known to be >= 3 written as unsigned_abs()')

# ---------------------------------------------------------------- round 6
N('add-remote-input-via-helper', ALL, SL,
  """        self.input_queues[player_handle].add_input(input);
    }

    /// Returns inputs for all players for the current frame of the sync layer.""",
  """        self.queue_of(player_handle).add_input(input);
    }

    fn queue_of(&mut self, player_handle: PlayerHandle) -> &mut InputQueue<T> {
        &mut self.input_queues[player_handle]
    }

    /// Returns inputs for all players for the current frame of the sync layer.""", 'queue lookup extracted into a helper')
N('register-local-inputs-logging', ALL, P2P,
  """            let actual_frame = self.sync_layer.add_local_input(handle, player_input);
            if actual_frame != NULL_FRAME {""",
  """            let actual_frame = self.sync_layer.add_local_input(handle, player_input);
            trace!("local input of player {} registered for frame {}", handle, actual_frame);
            if actual_frame != NULL_FRAME {""", 'logging added inside a loop over a map-ordered vector')
N('status-write-from-actual-frame', ALL, P2P,
  """                self.local_connect_status[handle].last_frame = queued_input.frame;""",
  """                self.local_connect_status[handle].last_frame = actual_frame;""", 'the same value under its other name')
M('M-remote-input-window-check', ['C04', 'C03'], ['C04.M', 'C03.M'], SL,
  """        self.input_queues[player_handle].add_input(input);
    }

    /// Returns inputs for all players for the current frame of the sync layer.""",
  """        if input.frame > self.current_frame + 2 * self.max_prediction as i32 + 64 {
            return; // nobody can be that far ahead
        }
        self.input_queues[player_handle].add_input(input);
    }

    /// Returns inputs for all players for the current frame of the sync layer.""", 'a "sanity check" drops remote inputs after the session recorded them as received')
M('W-mixing-delay-capped', ['C13', 'C16'], ['C13.W', 'C16.W'], SYNCT,
  """            sync_layer.set_frame_delay(i, input_delay);""",
  """            sync_layer.set_frame_delay(i, input_delay.min(max_prediction));""", 'the configured input delay silently capped at the prediction window')

# ---------------------------------------------------------------- timers
M('T-keepalive-uses-recv-time', ['C12', 'C05'], ['C12.T', 'C05.T'], PROTO,
  """                if self.last_send_time + KEEP_ALIVE_INTERVAL < now {""",
  """                if self.last_recv_time + KEEP_ALIVE_INTERVAL < now {""", 'keep-alive timer reads the receive timestamp: a peer that only sends goes silent towards us')
M('T-quality-report-not-rearmed', ['C12', 'C05'], ['C12.T', 'C05.T'], PROTO,
  """        self.running_last_quality_report = Instant::now();""",
  """        if self.local_frame_advantage != 0 {
            self.running_last_quality_report = Instant::now();
        }""", 'the quality-report timer is re-armed only when the advantage is non-zero: otherwise a report goes out on every poll')
M('T-resend-timer-armed-from-send-time', ['C05', 'C12'], ['C05.T', 'C12.T'], PROTO,
  """                    self.send_pending_output(connect_status);
                    self.running_last_input_recv = Instant::now();""",
  """                    self.send_pending_output(connect_status);
                    self.running_last_input_recv = self.last_send_time;""", 'resend timer armed from another timer\'s timestamp')
N('timer-guard-now-minus-field', ['C05', 'C12', 'C07'], PROTO,
  """                if self.last_send_time + KEEP_ALIVE_INTERVAL < now {""",
  """                if now > self.last_send_time + KEEP_ALIVE_INTERVAL {""", 'a < b written as b > a')
N('timer-rearm-with-sampled-now', ['C05', 'C12'], PROTO,
  """                    self.send_pending_output(connect_status);
                    self.running_last_input_recv = Instant::now();""",
  """                    self.send_pending_output(connect_status);
                    self.running_last_input_recv = now;""", 're-arm with the reading taken at the top of poll')

# ---------------------------------------------------------------- inventories
M('D-effect-inside-debug-assert', ['C05', 'C18'], ['C05.K', 'C18.K'], PROTO,
  """    fn on_input_ack(&mut self, body: InputAck) {
        self.pop_pending_output(body.ack_frame);""",
  """    fn on_input_ack(&mut self, body: InputAck) {
        debug_assert!({
            self.pop_pending_output(body.ack_frame);
            true
        });""", 'the ack is applied inside a debug_assert!: release builds never release acknowledged inputs')
M('S-lost-writer-disconnect-frame', ['C04', 'C07'], ['C04.S', 'C07.S'], P2P,
  """            self.adjust_gamestate(first_incorrect, confirmed_frame, requests);
            self.disconnect_frame = NULL_FRAME;""",
  """            self.adjust_gamestate(first_incorrect, confirmed_frame, requests);""", 'the pending disconnect frame is never cleared')
M('K-lost-call-flush', ['C11', 'C05'], ['C11.K', 'C05.K', 'C11.M', 'C05.M'], P2P,
  """                self.queue_outgoing_local_input(handle, queued_input);
            }
        }
        self.send_ready_outgoing_inputs_to_remotes();
    }""",
  """                self.queue_outgoing_local_input(handle, queued_input);
            }
        }
    }""", 'the flush after registering local inputs deleted (set_input_delay still flushes)')
M('D-effect-inside-trace', ['C05', 'C18'], ['C05.K', 'C18.K'], PROTO,
  """    fn on_input_ack(&mut self, body: InputAck) {
        self.pop_pending_output(body.ack_frame);""",
  """    fn on_input_ack(&mut self, body: InputAck) {
        trace!("ack {} released: {:?}", body.ack_frame, self.pop_pending_output(body.ack_frame));""", 'the ack is applied inside the arguments of trace!: evaluated only when a subscriber enables TRACE')

# ---------------------------------------------------------------- round 9: pinned expressions, impls, wire fields, shifts
N('head-increment-commuted', ALL, IQ, "        self.head = (self.head + 1) % INPUT_QUEUE_LENGTH;", "        self.head = (1 + self.head) % INPUT_QUEUE_LENGTH;", 'operands of a sum swapped')
N('prune-bound-respelled', ALL, PROTO,
  """                .retain(|&k, _| k >= last_recv_frame - 2 * self.max_prediction as i32);""",
  """                .retain(|&k, _| k + 2 * self.max_prediction as i32 >= last_recv_frame);""", 'a >= b - c written as a + c >= b')
# (A-prune-bound-one-window -- `last_recv - max_prediction` instead of `- 2 * max_prediction` -- was a mutant of the pinned-expression table only; since the D2 repair a
# reference that has left the window is re-acknowledged and the sender moves its base, so a narrower window costs round trips but breaks no property: withdrawn when
# Cxx.A became advisory in round 12.)
M('A-ring-index-off-by-one', ['C06'], ['C06.A', 'C06.O3'], SPEC,
  """                self.inputs[input.frame as usize % SPECTATOR_BUFFER_SIZE][player] = input;""",
  """                self.inputs[(input.frame as usize + 1) % SPECTATOR_BUFFER_SIZE][player] = input;""", 'spectator ring written one slot further')

# ---------------------------------------------------------------- round 11: access order, decode subtraction, one pair per player, one event per endpoint event
N('independent-stores-swapped', ALL, PROTO,
  """        self.state = ProtocolState::Synchronizing;
        self.sync_remaining_roundtrips = NUM_SYNC_PACKETS;""",
  """        self.sync_remaining_roundtrips = NUM_SYNC_PACKETS;
        self.state = ProtocolState::Synchronizing;""", 'two stores to different fields swapped')
N('reset-prediction-stores-reordered', ALL, IQ,
  """        self.prediction.frame = NULL_FRAME;
        self.first_incorrect_frame = NULL_FRAME;
        self.last_requested_frame = NULL_FRAME;""",
  """        self.last_requested_frame = NULL_FRAME;
        self.first_incorrect_frame = NULL_FRAME;
        self.prediction.frame = NULL_FRAME;""", 'three independent stores reversed')
N('last-saved-read-inside-the-branch', ALL, P2P,
  """        let last_saved = self.sync_layer.last_saved_frame();
        if self.sparse_saving {
            self.check_last_saved_state(last_saved, confirmed_frame, requests);""",
  """        if self.sparse_saving {
            let last_saved = self.sync_layer.last_saved_frame();
            self.check_last_saved_state(last_saved, confirmed_frame, requests);""", 'the snapshot is taken inside the branch that uses it, still after the rollback')
N('disconnect-frame-cleared-before-the-rollback', ALL, P2P,
  """            self.adjust_gamestate(first_incorrect, confirmed_frame, requests);
            self.disconnect_frame = NULL_FRAME;""",
  """            self.disconnect_frame = NULL_FRAME;
            self.adjust_gamestate(first_incorrect, confirmed_frame, requests);""", 'the pending disconnect frame (already consumed) is cleared before instead of after the rollback, which does not read it')
N('sync-inputs-single-push', ALL, SL,
  """            if con_stat.disconnected && con_stat.last_frame < self.current_frame {
                inputs.push((T::Input::default(), InputStatus::Disconnected));
            } else {
                inputs.push(self.input_queues[i].input(self.current_frame));
            }""",
  """            let pair = if con_stat.disconnected && con_stat.last_frame < self.current_frame {
                (T::Input::default(), InputStatus::Disconnected)
            } else {
                self.input_queues[i].input(self.current_frame)
            };
            inputs.push(pair);""", 'the pair is chosen by an if-expression and pushed once')
M('O1-decode-cap-operands-swapped', ['C14', 'C08'], ['C14.O1', 'C08.O7'], COMP,
  """        if len > MAX_DECODED_LEN - output.len() {""",
  """        if output.len() > MAX_DECODED_LEN - len {""", 'the length read from the packet is subtracted from the cap: underflow')
M('O2-confirmed-inputs-dangling-else', ['C03'], ['C03.O2'], SL,
  """            if con_stat.disconnected && con_stat.last_frame < frame {
                inputs.push(PlayerInput::blank_input(NULL_FRAME));
            } else {""",
  """            if con_stat.disconnected {
                if con_stat.last_frame < frame {
                    inputs.push(PlayerInput::blank_input(NULL_FRAME));
                }
            } else {""", 'the else binds to the outer test: a disconnected player with inputs for this frame gets no entry')
M('K-order-last-saved-before-rollback', ['C04', 'C07', 'C10', 'C16', 'C02'], ['C04.K', 'C07.K', 'C10.K', 'C16.K', 'C02.K'], P2P,
  """        let first_incorrect = self
            .sync_layer
            .check_simulation_consistency(self.disconnect_frame);
        if first_incorrect != NULL_FRAME {
            self.adjust_gamestate(first_incorrect, confirmed_frame, requests);
            self.disconnect_frame = NULL_FRAME;
        }

        let last_saved = self.sync_layer.last_saved_frame();
""",
  """        let last_saved = self.sync_layer.last_saved_frame();
        let first_incorrect = self
            .sync_layer
            .check_simulation_consistency(self.disconnect_frame);
        if first_incorrect != NULL_FRAME {
            self.adjust_gamestate(first_incorrect, confirmed_frame, requests);
            self.disconnect_frame = NULL_FRAME;
        }

""", 'the last-saved snapshot is taken before the rollback that (with sparse saving) saves a newer state')
