"""Mutants: realistic one-instance-broken variants of gschup/ggrs that still compile (most pass the 114 tests).
Each is a (file, old, new) replacement; `old` must occur exactly once in today's file.  `expect` names the
obligation(s) that must report it; `property` the check(s) to run."""

P2P = 'src/sessions/p2p_session.rs'
SL = 'src/sync_layer.rs'
IQ = 'src/input_queue.rs'
PROTO = 'src/network/protocol.rs'
SPEC = 'src/sessions/p2p_spectator_session.rs'
SYNCT = 'src/sessions/sync_test_session.rs'
BUILDER = 'src/sessions/builder.rs'
COMP = 'src/network/compression.rs'

MUTANTS = []


def M(id, property, expect, file, old, new, desc=''):
    MUTANTS.append(dict(id=id, property=property, expect=expect if isinstance(expect, list) else [expect],
                        file=file, old=old, new=new, desc=desc))


# ---------------------------------------------------------------- C01
M('C01-confirm-before-rollback', 'C01', 'C01.O5', P2P,
  """        // check game consistency and roll back, if necessary
        self.handle_rollback_and_save(confirmed_frame, requests);

        // send confirmed inputs to spectators before throwing them away
        self.send_confirmed_inputs_to_spectators(confirmed_frame);

        // set the last confirmed frame and discard all saved inputs before that frame
        self.sync_layer
            .set_last_confirmed_frame(confirmed_frame, self.sparse_saving);
""",
  """        // set the last confirmed frame and discard all saved inputs before that frame
        self.sync_layer
            .set_last_confirmed_frame(confirmed_frame, self.sparse_saving);

        // check game consistency and roll back, if necessary
        self.handle_rollback_and_save(confirmed_frame, requests);

        // send confirmed inputs to spectators before throwing them away
        self.send_confirmed_inputs_to_spectators(confirmed_frame);
""", 'set_last_confirmed_frame before the rollback step and the broadcast')
M('C01-drop-reset-prediction', 'C01', 'C01.O2', P2P,
  """        assert_eq!(self.sync_layer.current_frame(), frame_to_load);
        self.sync_layer.reset_prediction();
""", """        assert_eq!(self.sync_layer.current_frame(), frame_to_load);
""", 'reset_prediction dropped after the load')
M('C01-reset-prediction-elsewhere', 'C01', 'C01.O2', P2P,
  """        let first_incorrect = self
            .sync_layer
            .check_simulation_consistency(self.disconnect_frame);
""", """        let first_incorrect = self
            .sync_layer
            .check_simulation_consistency(self.disconnect_frame);
        if first_incorrect == NULL_FRAME {
            self.sync_layer.reset_prediction();
        }
""", 'reset_prediction called outside a rollback')
M('C01-decoder-skip-lt', 'C01', 'C01.O6', PROTO,
  "                if inp_frame <= self.last_recv_frame() {", "                if inp_frame < self.last_recv_frame() {",
  'decoder skip <= -> <')
M('C01-decoder-skip-too-strict', 'C01', 'C01.O6', PROTO,
  "                if inp_frame <= self.last_recv_frame() {", "                if inp_frame <= self.last_recv_frame() + 1 {",
  'decoder skips one frame too many')
M('C01-discard-frame', 'C01', 'C01.O5', SL,
  "                self.input_queues[i].discard_confirmed_frames(frame - 1);",
  "                self.input_queues[i].discard_confirmed_frames(frame);", 'discard up to the confirmed frame itself')
M('C01-min-flipped', 'C01', 'C01.O7', SL,
  "                && (first_incorrect == NULL_FRAME || incorrect < first_incorrect)",
  "                && (first_incorrect == NULL_FRAME || incorrect > first_incorrect)", 'latest instead of earliest')
M('C01-fetch-after-step', ['C01', 'C02'], ['C01.O3'], P2P,
  """            let inputs = self
                .sync_layer
                .synchronized_inputs(&self.local_connect_status);
            self.sync_layer.advance_frame();
            self.pending_local_inputs.clear();
            requests.push(GgrsRequest::AdvanceFrame { inputs });
        } else {
            debug!(
                "Prediction Threshold reached. Skipping on frame {}",""",
  """            self.sync_layer.advance_frame();
            let inputs = self
                .sync_layer
                .synchronized_inputs(&self.local_connect_status);
            self.pending_local_inputs.clear();
            requests.push(GgrsRequest::AdvanceFrame { inputs });
        } else {
            debug!(
                "Prediction Threshold reached. Skipping on frame {}",""", 'inputs fetched after the increment')
M('C01-marker-overwrite', 'C01', 'C01.O4', IQ,
  "            if self.first_incorrect_frame == NULL_FRAME && !self.prediction.input_matches(&input) {",
  "            if !self.prediction.input_matches(&input) {", 'marker overwritten by later mismatches')
M('C01-marker-polarity', 'C01', 'C01.O4', IQ,
  "            if self.first_incorrect_frame == NULL_FRAME && !self.prediction.input_matches(&input) {",
  "            if self.first_incorrect_frame == NULL_FRAME && self.prediction.input_matches(&input) {", 'polarity')
M('C01-rollback-not-before-fetch', 'C01', 'C01.O1', P2P,
  """        let first_incorrect = self
            .sync_layer
            .check_simulation_consistency(self.disconnect_frame);
        if first_incorrect != NULL_FRAME {""",
  """        let first_incorrect = self
            .sync_layer
            .check_simulation_consistency(self.disconnect_frame);
        if first_incorrect != NULL_FRAME && confirmed_frame >= first_incorrect {""", 'rollback only for confirmed frames')
M('C01-decode-reference-off', 'C01', 'C01.O6', PROTO,
  "            body.start_frame - 1\n        };", "            body.start_frame\n        };", 'wrong decode reference')
M('C01-no-requested-cap', 'C01', 'C01.O5', IQ,
  """        if self.last_requested_frame != NULL_FRAME {
            frame = cmp::min(frame, self.last_requested_frame);
        }
""", "", 'discard not capped by the last requested frame')
M('C01-event-before-insert', 'C01', 'C01.O6', PROTO,
  "                self.recv_inputs.insert(input_data.frame, input_data);\n", "", 'frame announced but never stored')
