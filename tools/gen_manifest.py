#!/usr/bin/env python3
"""Regenerates /verif/MANIFEST.json from the rule modules that exist (rules/cXX.py) and the properties file."""
import importlib
import json
import os
import sys

VERIF = os.path.dirname(os.path.dirname(os.path.abspath(__file__)))
sys.path.insert(0, VERIF)

props = [json.loads(l) for l in open(os.path.join(VERIF, 'properties.jsonl'))]
checks = []
na = []
for p in props:
    pid = p['id']
    path = os.path.join(VERIF, 'rules', pid.lower() + '.py')
    if not os.path.exists(path):
        na.append(dict(property_id=pid, reason='check not built yet (machinery under construction)'))
        continue
    mod = importlib.import_module('rules.' + pid.lower())
    if getattr(mod, 'NOT_APPLICABLE', None):
        na.append(dict(property_id=pid, reason=mod.NOT_APPLICABLE))
        continue
    adv = [o for o in mod.OBLIGATIONS if o[0].split('.')[-1] in ('A', 'V')]
    obs = [o for o in mod.OBLIGATIONS if o not in adv]
    text = ('Static rule checking over the typed MIR of the current tree (%d obligations: %s). Each obligation is a '
            'necessary structural condition of the property that holds on every path of the control-flow graph; a green '
            'result means all of them hold, it does not mean the behavioural property holds. Advisory only (printed as REVIEW lines, never an alarm, because they compare '
            'spellings and fire on behaviour-preserving refactorings): %s. Extracted helper functions are spliced back into their callers before the rules run. Undecided: %s'
            % (len(obs), '; '.join('%s %s' % (o[0], o[1]) for o in obs), ', '.join('%s %s' % (o[0], o[1]) for o in adv) or 'none', '; '.join(mod.NOT_DECIDED) or 'nothing essential'))
    checks.append(dict(
        property_id=pid,
        quick_cmd='./check %s --tier quick' % pid,
        thorough_cmd='./check %s --tier thorough' % pid,
        evidence_file='/verif/evidence/%s.json' % pid,
        replay_cmd_template='./check explain {path}',
        engine='ggrs-facts + rules',
        level_claimed=dict(category=getattr(mod, 'LEVEL', 'other'), text=text, design_ref='DESIGN.md section 4, ' + pid),
        level_note=('Trusted base: rustc MIR construction and Instance resolution, the fact extractor (engine/), the '
                    'analyses in rules/ (cfg, sem, world), the reviewed tables; assumptions: ' + '; '.join(mod.ASSUMPTIONS)),
        technique=getattr(mod, 'TECHNIQUE', 'static analysis: custom MIR-level rules (dominance/must-call, writer sets, '
                                            'guard normal forms, value flows) via a rustc_private fact extractor'),
    ))
m = dict(
    version=1,
    setup_cmd='cd /verif/engine && cargo +nightly build --release --offline && cd /verif && python3 -m rules.extract',
    hooks=dict(guard='none (static analysis of the unmodified sources needs no instrumentation)',
               enable='n/a: checks compile /repo with `cargo +nightly check` through the fact-extracting rustc wrapper',
               baseline_off_cmd='cd /repo && cargo test --workspace --no-fail-fast --offline',
               source_commits=[], add_only=True),
    engines=[dict(name='ggrs-facts + rules', path='/verif/engine, /verif/rules',
                  serves_properties=[c['property_id'] for c in checks],
                  kind_free_text='rustc_private driver dumping typed MIR facts (JSON) + python rule engine: CFG, dominators, '
                                 'call graph with must-call, access paths, guard normal forms, per-property obligations')],
    checks=checks,
    notes='All checks are static: they read /repo\'s current source through the compiler and never run ggrs. '
          'See DESIGN.md. fix: commits in /repo are listed in findings/known_findings.json.',
    not_applicable=na,
)
with open(os.path.join(VERIF, 'MANIFEST.json'), 'w') as f:
    json.dump(m, f, indent=1)
print('MANIFEST: %d checks, %d not applicable' % (len(checks), len(na)))
