"""development helper: all 18 property checks against kept dev facts (tools.dev facts <name> <patch>), in parallel.
   python3 -m tools.devall rC01 rC02 ...   [-v]"""
import os, sys, json
from concurrent.futures import ProcessPoolExecutor
sys.path.insert(0, os.path.dirname(os.path.dirname(os.path.abspath(__file__))))


def one(name):
    from tools import dev
    from rules import engine, killmatrix
    W = dev.world(name)
    known = {k['key'] for k in engine.known_findings().get('known', [])}
    out = []
    for pid in killmatrix.implemented():
        try:
            mod, obs = engine.run_obligations(pid, W, 'quick', 'default')
        except Exception as e:
            out.append((pid + '.CRASH', 'crash', '%s: %s' % (type(e).__name__, e), None))
            continue
        for ob in obs:
            for v in ob.violations:
                if v['key'] not in known:
                    out.append((ob.id, v['key'], v['what'], v.get('where')))
    return name, out


if __name__ == '__main__':
    verbose = '-v' in sys.argv
    names = [a for a in sys.argv[1:] if a != '-v']
    with ProcessPoolExecutor(max_workers=min(12, len(names))) as ex:
        for name, out in ex.map(one, names):
            print('%-8s %s' % (name, 'quiet' if not out else 'FIRED ' + ','.join(sorted({o[0] for o in out}))))
            if verbose:
                seen = set()
                for ob, key, what, where in out:
                    if key in seen:
                        continue
                    seen.add(key)
                    print('      %s | %s | %s | %s' % (ob, key, what[:260], where))
