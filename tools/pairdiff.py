"""development helper: for each round-12 pair, the violation keys reported on refactor+slip but not on the refactor alone (dev facts rCxx / sCxx)."""
import os, sys
from concurrent.futures import ProcessPoolExecutor
sys.path.insert(0, os.path.dirname(os.path.dirname(os.path.abspath(__file__))))
from tools.devall import one

if __name__ == '__main__':
    ids = sys.argv[1:] or ['C%02d' % i for i in range(1, 19)]
    names = ['r' + i for i in ids] + ['s' + i for i in ids]
    with ProcessPoolExecutor(max_workers=12) as ex:
        res = dict(ex.map(one, names))
    for i in ids:
        r = {k: (ob, what) for ob, k, what, wh in res['r' + i]}
        s = {k: (ob, what) for ob, k, what, wh in res['s' + i]}
        extra = {k: v for k, v in s.items() if k not in r}
        own = sorted({v[0] for k, v in extra.items() if v[0].startswith(i + '.')})
        print('%s refactor:%-3d slip-only:%-3d own-property slip-only: %s' % (i, len(r), len(extra), ','.join(own) or '-- NONE --'))
        if '-v' in os.environ.get('PD', ''):
            for k, v in extra.items():
                print('      ', k, '|', v[1][:200])


def record(ids=None):
    """write caught_by / differential into seeded/Cxx-a12/meta.json and neutral/Cxx-r12/meta.json"""
    import json
    ids = ids or ['C%02d' % i for i in range(1, 19)]
    names = ['r' + i for i in ids] + ['s' + i for i in ids]
    with ProcessPoolExecutor(max_workers=12) as ex:
        res = dict(ex.map(one, names))
    V = os.path.dirname(os.path.dirname(os.path.abspath(__file__)))
    for i in ids:
        r = {k: ob for ob, k, what, wh in res['r' + i]}
        s = {k: ob for ob, k, what, wh in res['s' + i]}
        extra = sorted({ob for k, ob in s.items() if k not in r})
        mp = os.path.join(V, 'seeded', i + '-a12', 'meta.json')
        m = json.load(open(mp))
        m['caught_by'] = sorted({ob for ob in s.values() if ob.startswith(i + '.')})
        m['also_fired'] = sorted({ob for ob in s.values() if not ob.startswith(i + '.')})
        m['reported_on_the_slip_but_not_on_the_refactoring'] = extra
        m['refactoring_alone_quiet_under_own_property'] = not any(ob.startswith(i + '.') for ob in r.values())
        m['refactoring_alone_quiet_under_all_properties'] = not r
        json.dump(m, open(mp, 'w'), indent=1)
        np_ = os.path.join(V, 'neutral', i + '-r12', 'meta.json')
        n = json.load(open(np_))
        n['fires'] = sorted(set(r.values()))
        n['quiet'] = not r
        json.dump(n, open(np_, 'w'), indent=1)
        print(i, 'caught_by', m['caught_by'][:6], 'slip-only', extra[:6], 'refactor quiet:', not r)
