"""development helper: for each round-12 pair, the violation keys reported on refactor+slip but not on the refactor alone (dev facts rCxx / sCxx)."""
import os, sys
from concurrent.futures import ProcessPoolExecutor
sys.path.insert(0, os.path.dirname(os.path.dirname(os.path.abspath(__file__))))
from tools.devall import one

if __name__ == '__main__':
    ids = sys.argv[1:] or ['C%02d' % i for i in range(1, 19)]
    names = ['r' + i for i in ids] + ['s' + i for i in ids]
    with ProcessPoolExecutor(max_workers=12) as ex:
        res = dict(ex.map(one, names))
    for i in ids:
        r = {k: (ob, what) for ob, k, what, wh in res['r' + i]}
        s = {k: (ob, what) for ob, k, what, wh in res['s' + i]}
        extra = {k: v for k, v in s.items() if k not in r}
        own = sorted({v[0] for k, v in extra.items() if v[0].startswith(i + '.')})
        print('%s refactor:%-3d slip-only:%-3d own-property slip-only: %s' % (i, len(r), len(extra), ','.join(own) or '-- NONE --'))
        if '-v' in os.environ.get('PD', ''):
            for k, v in extra.items():
                print('      ', k, '|', v[1][:200])
