"""development helper: copy the small behaviour-preserving edits of round 13 (deliver/n*.diff + meta.json in /tmp/r13/<N>) into /verif/neutral/<N>-n<k>/"""
import json, os, shutil, sys
V = os.path.dirname(os.path.dirname(os.path.abspath(__file__)))
for n in sys.argv[1:]:
    d = '/tmp/r13/%s/deliver' % n
    meta = json.load(open(os.path.join(d, 'meta.json')))
    if isinstance(meta, dict):
        meta = meta.get('patches') or meta.get('edits') or list(meta.values())[0]
    log = open(os.path.join(d, 'verify.log')).read()[-1500:] if os.path.exists(os.path.join(d, 'verify.log')) else ''
    for e in meta:
        f = e['file']
        k = os.path.splitext(os.path.basename(f))[0]
        out = os.path.join(V, 'neutral', '%s-%s' % (n, k))
        os.makedirs(out, exist_ok=True)
        shutil.copy(os.path.join(d, os.path.basename(f)), os.path.join(out, 'patch.diff'))
        json.dump(dict(summary='%s: %s' % (e.get('kind'), e.get('summary')), why_equivalent=e.get('why_equivalent'),
                       source='fresh sub-agent (round 13: eight small behaviour-preserving edits of different kinds next to the anchors of three properties), given only the property records and a scratch worktree',
                       author_verification=log[-600:]), open(os.path.join(out, 'meta.json'), 'w'), indent=1)
        print('installed', out)
