"""development helper: details of what fires on cached seedfacts:  python3 -m tools.showfa neutral_ext-N1-n3 [props...]"""
import sys, os
sys.path.insert(0, os.path.dirname(os.path.dirname(os.path.abspath(__file__))))
from rules.facts import Facts
from rules.world import World
from rules import engine, killmatrix
name = sys.argv[1]
W = World(Facts('/verif/.cache/seedfacts/%s.json' % name))
props = sys.argv[2:] or killmatrix.implemented()
seen = set()
for pid in props:
    mod, obs = engine.run_obligations(pid, W, 'quick', 'default')
    for ob in obs:
        for v in ob.violations:
            k = v['key'].split('|', 1)[1]
            if k in seen:
                continue
            seen.add(k)
            print(ob.id, '|', v['key'], '|', v['what'][:420], '|', v.get('where'))
