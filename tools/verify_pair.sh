#!/bin/bash
# development helper (not a check): confirm a refactor/slip pair delivered by a sub-agent in its scratch worktree.
#   tools/verify_pair.sh /tmp/r12/C16        -> writes <wt>/deliver/verify_main.log, prints a verdict line
# refactor.diff: suite green, demo passes.  slip.diff: suite green, demo FAILS.  baseline: demo passes.
wt="$1"; d="$wt/deliver"; log="$d/verify_main.log"; : > "$log"
cd "$wt" || exit 2
LOCK=/tmp/r12/test.lock
reset() { git checkout -q -- . ; rm -f tests/seeded_demo.rs; git clean -qfd src tests >/dev/null 2>&1; }
suite() { # prints "passed=N failed=M"
  flock $LOCK timeout 1500 cargo test --offline --workspace --no-fail-fast > "$d/.suite.out" 2>&1
  p=$(grep -E '^test result:' "$d/.suite.out" | sed -E 's/.* ([0-9]+) passed.*/\1/' | paste -sd+ | bc)
  f=$(grep -E '^test result:' "$d/.suite.out" | sed -E 's/.* ([0-9]+) failed.*/\1/' | paste -sd+ | bc)
  c=$(grep -c -E '^error' "$d/.suite.out")
  echo "passed=${p:-0} failed=${f:-0} compile_errors=$c"
}
demo() { # prints the result line(s) of the demo
  if [ -f "$d/demo_unit.diff" ]; then
    git apply "$d/demo_unit.diff" 2>>"$log" || { echo "demo_unit.diff does not apply"; return; }
    filt=$(grep -oE 'fn +[a-z0-9_]*seeded[a-z0-9_]*|fn +[a-z0-9_]*demo[a-z0-9_]*' "$d/demo_unit.diff" | head -1 | awk '{print $2}')
    flock $LOCK timeout 900 cargo test --offline --lib ${filt:-seeded} > "$d/.demo.out" 2>&1
  else
    cp "$d/demo.rs" tests/seeded_demo.rs
    flock $LOCK timeout 900 cargo test --offline --test seeded_demo > "$d/.demo.out" 2>&1
  fi
  grep -E '^test result:|^error(\[|:)' "$d/.demo.out" | head -3 | paste -sd' '
}
reset
echo "baseline demo: $(demo)" | tee -a "$log"
reset
git apply "$d/refactor.diff" 2>>"$log" || echo "refactor.diff DOES NOT APPLY" | tee -a "$log"
echo "refactor suite: $(suite)" | tee -a "$log"
echo "refactor demo: $(demo)" | tee -a "$log"
reset
git apply "$d/slip.diff" 2>>"$log" || echo "slip.diff DOES NOT APPLY" | tee -a "$log"
echo "slip suite: $(suite)" | tee -a "$log"
echo "slip demo: $(demo)" | tee -a "$log"
reset
