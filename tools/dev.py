"""development helper (not a check): keep the facts of a patched scratch copy so that single obligations can be tried against it.
  python3 -m tools.dev facts <name> <patch.diff>        -> .cache/dev/<name>.json
  python3 -m tools.dev run <name|repo> Cxx.Oy [...]    -> prints the obligation records"""
import os
import shutil
import sys

sys.path.insert(0, os.path.dirname(os.path.dirname(os.path.abspath(__file__))))
from rules import extract as E, killmatrix as K, engine  # noqa
from rules.facts import Facts  # noqa
from rules.world import World  # noqa

DEV = os.path.join(E.CACHE, 'dev')


def facts(name, patch):
    os.makedirs(DEV, exist_ok=True)
    scratch = K.make_scratch('/repo')
    try:
        if patch.startswith('mutant:'):
            m = [x for x in K.load_mutants() if x['id'] == patch[7:]][0]
        else:
            m = dict(patch=os.path.abspath(patch))
        ok, msg = K.apply_mutant(m, scratch)
        if not ok:
            print('patch does not apply:', msg)
            return 1
        tdir = os.path.join(E.CACHE, 'target-mut-0')
        if not os.path.isdir(tdir):
            shutil.copytree(os.path.join(E.CACHE, 'target-default'), tdir, symlinks=True)
        paths, info = E.extract(scratch, 'default', target_dir=tdir)
        shutil.copy(paths['ggrs'], os.path.join(DEV, name + '.json'))
        shutil.rmtree(os.path.dirname(paths['ggrs']), ignore_errors=True)
        print('facts kept:', os.path.join(DEV, name + '.json'))
    finally:
        shutil.rmtree(scratch, ignore_errors=True)
    return 0


def world(name):
    if name == 'repo':
        paths, info = E.extract('/repo', 'default')
        return World(Facts(paths['ggrs']))
    W = World(Facts(os.path.join(DEV, name + '.json')))
    return W


def run(name, ids):
    W = world(name)
    for oid in ids:
        pid = oid.split('.')[0]
        mod, obs = engine.run_obligations(pid, W, 'quick', 'default')
        for ob in obs:
            if ob.id != oid and oid != pid:
                continue
            print('==', ob.id, 'violations=%d' % len(ob.violations), 'instances=%d' % len(getattr(ob, 'instances', [])))
            for v in ob.violations:
                print('   VIOL', v['key'], '|', v['what'][:400], v.get('where'))


if __name__ == '__main__':
    if sys.argv[1] == 'facts':
        sys.exit(facts(sys.argv[2], sys.argv[3]))
    run(sys.argv[2], sys.argv[3:])
