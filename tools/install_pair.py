"""development helper: copy a delivered refactor/slip pair from a sub-agent's scratch worktree into /verif
   python3 -m tools.install_pair C16 [...]   ->  neutral/Cxx-r12/ (refactor, must stay quiet)  seeded/Cxx-a12/ (refactor + slip, must be reported)"""
import json, os, shutil, sys
V = os.path.dirname(os.path.dirname(os.path.abspath(__file__)))
for pid in sys.argv[1:]:
    d = '/tmp/r12/%s/deliver' % pid
    meta = json.load(open(os.path.join(d, 'meta.json')))
    n = os.path.join(V, 'neutral', pid + '-r12'); s = os.path.join(V, 'seeded', pid + '-a12')
    os.makedirs(n, exist_ok=True); os.makedirs(s, exist_ok=True)
    shutil.copy(os.path.join(d, 'refactor.diff'), os.path.join(n, 'patch.diff'))
    shutil.copy(os.path.join(d, 'slip.diff'), os.path.join(s, 'patch.diff'))
    shutil.copy(os.path.join(d, 'refactor.diff'), os.path.join(s, 'refactor.diff'))
    for f in ('demo.rs', 'demo_unit.diff'):
        if os.path.exists(os.path.join(d, f)):
            shutil.copy(os.path.join(d, f), os.path.join(s, 'seeded_demo.rs' if f == 'demo.rs' else f))
    ver = '/tmp/r12/%s.verify' % pid
    vlines = open(ver).read().strip().splitlines() if os.path.exists(ver) else []
    if vlines:
        open(os.path.join(s, 'verify.log'), 'w').write('\n'.join(vlines) + '\n')
    json.dump(dict(summary=meta.get('refactor_summary'), why_equivalent=meta.get('why_refactor_is_equivalent'), pair='seeded/%s-a12' % pid,
                   source='fresh sub-agent (round 12, paired: a behaviour-preserving refactoring and the same refactoring with one slip), given only the property record and a scratch worktree',
                   verified=vlines[:3]), open(os.path.join(n, 'meta.json'), 'w'), indent=1)
    old = {}
    if os.path.exists(os.path.join(s, 'meta.json')):
        old = json.load(open(os.path.join(s, 'meta.json')))
    m = dict(property=pid, summary=meta.get('slip_summary'), refactor=meta.get('refactor_summary'), needs=meta.get('needs'), why_tests_pass=meta.get('why_tests_pass'),
             kind='a slip inside a behaviour-preserving refactoring (the refactoring alone is neutral/%s-r12 and must stay quiet)' % pid,
             demo_cmd=meta.get('demo_cmd'), files_changed=meta.get('files_changed'),
             source='fresh sub-agent (round 12, paired refactor + slip), given only the property record and a scratch worktree',
             caught_by=old.get('caught_by', []), also_fired=old.get('also_fired', []),
             verified=dict(by='main session, tools/verify_pair.sh in the scratch worktree /tmp/r12/%s (removed afterwards); suites run one at a time' % pid, ran=vlines))
    json.dump(m, open(os.path.join(s, 'meta.json'), 'w'), indent=1)
    print('installed', pid, 'verified lines:', len(vlines))
