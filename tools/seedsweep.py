"""development helper: the seeded changes (seeded/*/patch.diff) against the check of the property each was written for -- facts are extracted once per seed
(threads: the work is in cargo), the rules are evaluated in a process pool (the rule engine is CPU-bound python).  Facts are kept under .cache/seedfacts so
that a rule change can be re-evaluated without re-extracting.
   python3 -m tools.seedsweep [--all-props] [--refresh] [--prefix neutral/] [ids...]"""
import json
import os
import shutil
import sys
import time
from concurrent.futures import ThreadPoolExecutor, ProcessPoolExecutor

sys.path.insert(0, os.path.dirname(os.path.dirname(os.path.abspath(__file__))))
from rules import extract as E, killmatrix as K  # noqa

SF = os.path.join(E.CACHE, 'seedfacts')


def facts_for(args):
    m, slot = args
    out = os.path.join(SF, m['id'].replace('/', '_') + '.json')
    if os.path.exists(out):
        return m['id'], out, 'cached'
    scratch = K.make_scratch('/repo')
    try:
        ok, msg = K.apply_mutant(m, scratch)
        if not ok:
            return m['id'], None, 'does not apply: ' + msg
        tdir = os.path.join(E.CACHE, 'target-mut-%d' % slot)
        if not os.path.isdir(tdir):
            shutil.copytree(os.path.join(E.CACHE, 'target-default'), tdir, symlinks=True)
        try:
            paths, info = E.extract(scratch, 'default', target_dir=tdir)
        except RuntimeError as e:
            return m['id'], None, 'does not compile: %s' % str(e)[-200:]
        shutil.copy(paths['ggrs'], out)
        shutil.rmtree(os.path.dirname(paths['ggrs']), ignore_errors=True)
        return m['id'], out, 'extracted'
    finally:
        shutil.rmtree(scratch, ignore_errors=True)


def evaluate(args):
    mid, path, props = args
    from rules import engine
    from rules.facts import Facts
    from rules.world import World
    W = World(Facts(path))
    known = {k['key'] for k in engine.known_findings().get('known', [])}
    fired = []
    for pid in props:
        try:
            mod, obs = engine.run_obligations(pid, W, 'quick', 'default')
        except Exception as e:
            fired.append(pid + '.CRASH:' + type(e).__name__)
            continue
        for ob in obs:
            if any(v['key'] not in known for v in ob.violations):
                fired.append(ob.id)
    return mid, sorted(set(fired))


if __name__ == '__main__':
    argv = sys.argv[1:]
    allp = '--all-props' in argv
    prefix = 'seeded/'
    if '--prefix' in argv:
        prefix = argv[argv.index('--prefix') + 1]
        argv.remove(prefix)
    if '--refresh' in argv:
        shutil.rmtree(SF, ignore_errors=True)
    ids = [a for a in argv if not a.startswith('--')]
    os.makedirs(SF, exist_ok=True)
    if '--mutants' in sys.argv:
        prefix = 'mutants'
        ms = [m for m in K.load_mutants() if not m['id'].startswith('seeded/') and not m['id'].startswith('neutral/') and (not ids or any(i in m['id'] for i in ids))]
    else:
        ms = [m for m in K.load_mutants() if m['id'].startswith(prefix) and (not ids or any(i in m['id'] for i in ids))]
    t0 = time.time()
    import queue
    slots = queue.Queue()
    J = 8
    for s in range(J):
        slots.put(s)

    def work(m):
        s = slots.get()
        try:
            return facts_for((m, s))
        finally:
            slots.put(s)
    with ThreadPoolExecutor(max_workers=J) as ex:
        fx = list(ex.map(work, ms))
    print('facts: %d in %.0fs' % (len(fx), time.time() - t0))
    props = K.implemented()
    jobs = []
    bym = {m['id']: m for m in ms}
    for mid, path, st in fx:
        if path is None:
            print('ITEM %-44s %s' % (mid, st))
            continue
        p = bym[mid].get('property')
        jobs.append((mid, path, props if (allp or not isinstance(p, str)) else [p]))
    res = {}
    with ProcessPoolExecutor(max_workers=14) as ex:
        for mid, fired in ex.map(evaluate, jobs):
            res[mid] = fired
    missed = []
    for mid in sorted(res):
        p = bym[mid].get('property')
        if bym[mid].get('neutral'):
            print('NEUTRAL %-44s %-12s %s' % (mid, 'FALSE-ALARM' if res[mid] else 'quiet', ','.join(res[mid])))
            if res[mid]:
                missed.append(mid)
            continue
        exp = K.as_list(bym[mid].get('expect'))
        own = [o for o in res[mid] if (isinstance(p, str) and o.startswith(p + '.')) or (not isinstance(p, str) and (not exp or any(o == e or o.startswith(e) for e in exp)))]
        if prefix == 'mutants' and exp:
            own = [o for o in res[mid] if any(o == e or o.startswith(e) for e in exp)] or own
        print('SEED %-24s %-8s %s' % (mid, 'caught' if own else 'MISSED', ','.join(res[mid])))
        if not own:
            missed.append(mid)
    print('%d evaluated, %d as expected, not as expected: %s  (%.0fs)' % (len(res), len(res) - len(missed), missed, time.time() - t0))
    with open(os.path.join(E.CACHE, 'sweep-%s.json' % prefix.strip('/')), 'w') as f:
        json.dump(res, f, indent=1)
