mod probe_net; use probe_net::*; use ggrs::*;
// game with one nondeterministic step: the k-th execution of AdvanceFrame for frame `bad` adds noise
fn run(cd: usize, mp: usize, delay: usize, np: usize, bad: i32) -> Result<(Option<(i32, Vec<i32>, i32)>), String> {
    let mut s = SessionBuilder::<Cfg>::new().with_num_players(np).unwrap().with_max_prediction_window(mp).with_check_distance(cd).with_input_delay(delay).start_synctest_session().map_err(|e| e.to_string())?;
    let mut g = Game::default(); let mut execs = std::collections::HashMap::<i32, u32>::new();
    for tick in 0..80 {
        for h in 0..np { s.add_local_input(h, ((tick + h as i32) % 7) as u8).unwrap(); }
        match s.advance_frame() {
            Ok(reqs) => for r in reqs { match r {
                GgrsRequest::AdvanceFrame { inputs } => { let f = g.frame; let e = execs.entry(f).or_default(); *e += 1; let e = *e;
                    for (_, st) in inputs.iter() { if *st != InputStatus::Confirmed { return Err(format!("frame {f}: status {st:?}")); } }
                    g.handle(vec![GgrsRequest::AdvanceFrame { inputs }]); if f == bad && e == 2 { g.state ^= 0x5555; } }
                other => g.handle(vec![other]) } },
            Err(GgrsError::MismatchedChecksum { current_frame, mismatched_frames }) => return Ok(Some((current_frame, mismatched_frames, tick))),
            Err(e) => return Err(e.to_string()),
        }
    }
    Ok(None)
}
#[test]
fn explore_synctest() {
    let mut bad = 0;
    for cd in 0..=7usize { for mp in (cd+1)..=9 { for delay in [0usize, 3] { for np in [1usize, 2, 4] {
        match run(cd, mp, delay, np, -1) { Ok(None) => {}, o => { bad += 1; println!("deterministic game cd={cd} mp={mp} delay={delay} np={np}: {o:?}"); } }
        if cd >= 2 { for b in [0i32, 1, 5, 20] { match run(cd, mp, delay, np, b) {
            Ok(Some((cur, frames, _))) => { if cur > b + cd as i32 + 2 || frames.first() != Some(&(b + 1)) { bad += 1; println!("nondet at {b} cd={cd} mp={mp}: reported at current={cur} frames={frames:?}"); } }
            o => { bad += 1; println!("nondet at {b} cd={cd} mp={mp} delay={delay} np={np}: not reported: {o:?}"); } } } }
    }}}}
    println!("explore_synctest bad={bad}");
}
