#![allow(dead_code)]
use ggrs::*;
use std::cell::RefCell;
use std::collections::{HashMap, VecDeque};
use std::rc::Rc;

pub struct Cfg;
impl Config for Cfg { type Input = u8; type InputPredictor = PredictRepeatLast; type State = u64; type Address = usize; }

#[derive(Default)]
pub struct Net { pub q: HashMap<usize, VecDeque<(usize, Message)>>, pub drop: Vec<(usize, usize)>, pub sent: usize }
pub type NetRc = Rc<RefCell<Net>>;
pub struct Sock { pub me: usize, pub net: NetRc }
impl NonBlockingSocket<usize> for Sock {
    fn send_to(&mut self, msg: &Message, addr: &usize) {
        let mut n = self.net.borrow_mut();
        n.sent += 1;
        if n.drop.contains(&(self.me, *addr)) { return; }
        let me = self.me;
        n.q.entry(*addr).or_default().push_back((me, msg.clone()));
    }
    fn receive_all_messages(&mut self) -> Vec<(usize, Message)> {
        self.net.borrow_mut().q.entry(self.me).or_default().drain(..).collect()
    }
}

#[derive(Default, Clone)]
pub struct Game { pub frame: i32, pub state: u64, pub log: Vec<(i32, Vec<(u8, InputStatus)>)> }
impl Game {
    pub fn handle(&mut self, reqs: Vec<GgrsRequest<Cfg>>) {
        for r in reqs { match r {
            GgrsRequest::SaveGameState { cell, frame } => { assert_eq!(frame, self.frame); cell.save(frame, Some(self.state), Some(self.state as u128)); }
            GgrsRequest::LoadGameState { cell, frame } => { self.state = cell.load().unwrap(); self.frame = frame; self.log.retain(|(f,_)| *f < frame); }
            GgrsRequest::AdvanceFrame { inputs } => {
                for (i,(v,_)) in inputs.iter().enumerate() { self.state = self.state.wrapping_mul(1099511628211).wrapping_add((*v as u64) + 31*(i as u64)+1); }
                self.log.push((self.frame, inputs.clone())); self.frame += 1; }
        }}
    }
}
pub fn sync(sessions: &mut [&mut P2PSession<Cfg>]) {
    for _ in 0..200 { for s in sessions.iter_mut() { s.poll_remote_clients(); } if sessions.iter().all(|s| s.current_state()==SessionState::Running) { return; } }
    panic!("no sync");
}
