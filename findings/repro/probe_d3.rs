mod probe_net; use probe_net::*; use ggrs::*; use std::rc::Rc; use std::cell::RefCell;
struct AckDropSock { inner: Sock }
impl NonBlockingSocket<usize> for AckDropSock {
    fn send_to(&mut self, msg: &Message, addr: &usize) { if format!("{:?}", msg).contains("InputAck") { return; } self.inner.send_to(msg, addr) }
    fn receive_all_messages(&mut self) -> Vec<(usize, Message)> { self.inner.receive_all_messages() }
}
#[test]
fn probe_d3_duplicate_disconnected() {
    let net: NetRc = Rc::new(RefCell::new(Net::default()));
    let mut a = SessionBuilder::<Cfg>::new().with_num_players(2).unwrap()
        .add_player(PlayerType::Local, 0).unwrap().add_player(PlayerType::Remote(1), 1).unwrap()
        .add_player(PlayerType::Spectator(2), 2).unwrap()
        .start_p2p_session(Sock{me:0, net: net.clone()}).unwrap();
    let mut b = SessionBuilder::<Cfg>::new().with_num_players(2).unwrap()
        .add_player(PlayerType::Remote(0), 0).unwrap().add_player(PlayerType::Local, 1).unwrap()
        .start_p2p_session(Sock{me:1, net: net.clone()}).unwrap();
    let mut s = SessionBuilder::<Cfg>::new().with_num_players(2).unwrap().start_spectator_session(0, AckDropSock{inner: Sock{me:2, net: net.clone()}});
    for _ in 0..200 { a.poll_remote_clients(); b.poll_remote_clients(); s.poll_remote_clients(); }
    let (mut ga, mut gb) = (Game::default(), Game::default());
    let mut disc = 0;
    for f in 0..200 {
        // b advances two frames every other tick so a confirms 2 frames per call regularly
        for _ in 0..(if f >= 5 && f % 2 == 0 { 2 } else { 0 }) { b.add_local_input(1, 1).unwrap(); if let Ok(r) = b.advance_frame() { gb.handle(r); } }
        a.add_local_input(0, 2).unwrap(); if let Ok(r) = a.advance_frame() { ga.handle(r); }
        s.poll_remote_clients();
        for e in a.events() { if let GgrsEvent::Disconnected{addr} = e { if addr == 2 { disc += 1; println!("frame {f}: Disconnected(spectator)"); } } }
    }
    println!("d3 disconnected events for spectator: {disc}");
    assert!(disc <= 1);
}
