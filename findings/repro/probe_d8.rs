mod probe_net; use probe_net::*; use ggrs::*; use std::rc::Rc; use std::cell::RefCell;

fn peer(me: usize, net: &NetRc) -> P2PSession<Cfg> {
    let mut b = SessionBuilder::<Cfg>::new().with_num_players(3).unwrap();
    for h in 0..3 { b = b.add_player(if h==me {PlayerType::Local} else {PlayerType::Remote(h)}, h).unwrap(); }
    b.start_p2p_session(Sock{me, net: net.clone()}).unwrap()
}

#[test]
fn probe_d8_three_peer_drop() {
    let net: NetRc = Rc::new(RefCell::new(Net::default()));
    let (mut a, mut b, mut c) = (peer(0,&net), peer(1,&net), peer(2,&net));
    sync(&mut [&mut a, &mut b, &mut c]);
    let (mut ga, mut gb, mut gc) = (Game::default(), Game::default(), Game::default());
    let res = std::panic::catch_unwind(std::panic::AssertUnwindSafe(|| {
    for f in 0..60 {
        if f == 17 { net.borrow_mut().drop.push((2,0)); }          // C -> A link dies 3 frames before C does
        if f < 20 { c.add_local_input(2, (f*7 % 5 + 1) as u8).unwrap(); if let Ok(r) = c.advance_frame() { gc.handle(r); } }
        if f == 22 { b.disconnect_player(2).unwrap(); }             // B notices first
        a.add_local_input(0, (f % 3) as u8).unwrap(); match a.advance_frame() { Ok(r) => ga.handle(r), Err(e) => println!("f{f} a err {e}") }
        b.add_local_input(1, (f % 4) as u8).unwrap(); match b.advance_frame() { Ok(r) => gb.handle(r), Err(e) => println!("f{f} b err {e}") }
    }}));
    println!("d8 panicked={} a={} b={}", res.is_err(), a.current_frame(), b.current_frame());
    let n = ga.log.len().min(gb.log.len()).saturating_sub(10);
    let mut diffs = vec![];
    for i in 0..n { if ga.log[i].1[2] != gb.log[i].1[2] { diffs.push((ga.log[i].0, ga.log[i].1[2], gb.log[i].1[2])); } }
    println!("d8 diffs for player 2 (frame, A's view, B's view): {:?}", diffs);
    assert!(!res.is_err() && diffs.is_empty());
}
