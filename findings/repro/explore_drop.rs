// Exploratory (design phase): one remote stops, survivor disconnects it explicitly; final timeline + spectator view.
mod probe_net; use probe_net::*; use ggrs::*; use std::rc::Rc; use std::cell::RefCell;
struct Rng(u64); impl Rng { fn next(&mut self) -> u64 { self.0 ^= self.0 << 13; self.0 ^= self.0 >> 7; self.0 ^= self.0 << 17; self.0 } fn below(&mut self, n: u64) -> u64 { self.next() % n } }
fn run(seed: u64, mp: usize, delay: usize, sparse: bool, spect: bool) -> Result<(), String> {
    let net: NetRc = Rc::new(RefCell::new(Net::default()));
    let mut ba = SessionBuilder::<Cfg>::new().with_num_players(2).unwrap().with_max_prediction_window(mp).with_input_delay(delay).with_sparse_saving_mode(sparse)
        .add_player(PlayerType::Local, 0).unwrap().add_player(PlayerType::Remote(1), 1).unwrap();
    if spect { ba = ba.add_player(PlayerType::Spectator(2), 2).unwrap(); }
    let mut a = ba.start_p2p_session(Sock{me:0, net: net.clone()}).unwrap();
    let mut b = SessionBuilder::<Cfg>::new().with_num_players(2).unwrap().with_max_prediction_window(mp).with_input_delay(delay).with_sparse_saving_mode(sparse)
        .add_player(PlayerType::Remote(0), 0).unwrap().add_player(PlayerType::Local, 1).unwrap().start_p2p_session(Sock{me:1, net: net.clone()}).unwrap();
    let mut s = if spect { Some(SessionBuilder::<Cfg>::new().with_num_players(2).unwrap().start_spectator_session(0, Sock{me:2, net: net.clone()})) } else { None };
    for _ in 0..300 { a.poll_remote_clients(); b.poll_remote_clients(); if let Some(s) = s.as_mut() { s.poll_remote_clients(); } }
    let (mut ga, mut gb, mut gs) = (Game::default(), Game::default(), Game::default());
    let mut rng = Rng(seed | 1);
    let death = 20 + rng.below(20) as i32; let lag = rng.below(mp as u64 + 2) as i32; let notice = death + lag + rng.below(6) as i32;
    let mut b_inputs = vec![]; let mut disconnected = false; let mut stalls = 0;
    for tick in 0..120 {
        if tick < death { let bf = b.current_frame(); let v = (bf * 7 % 5 + 1) as u8; if b_inputs.len() as i32 == bf { b_inputs.push(v); } b.add_local_input(1, v).unwrap(); if let Ok(r) = b.advance_frame() { gb.handle(r); } }
        if tick >= death - lag && tick < death { net.borrow_mut().drop = vec![(1,0)]; }   // the last `lag` packets of b never reach a
        if tick == notice && !disconnected { a.disconnect_player(1).map_err(|e| e.to_string())?; disconnected = true; }
        a.add_local_input(0, (tick % 3) as u8).unwrap();
        let before = a.current_frame();
        match a.advance_frame() { Ok(r) => ga.handle(r), Err(e) => return Err(format!("a err {e}")) }
        if a.current_frame() == before { stalls += 1; }
        if let Some(s) = s.as_mut() { if let Ok(r) = s.advance_frame() { gs.handle(r); } }
    }
    if a.current_frame() < 40 { return Err(format!("a stuck at {} (stalls {stalls}, death {death} notice {notice})", a.current_frame())); }
    // final timeline of a for player 1: real inputs (delayed) then default+Disconnected, one switch point
    let mut switched = false;
    for (f, inp) in ga.log.iter() { let (v, st) = inp[1];
        if st == InputStatus::Disconnected { switched = true; if v != 0 { return Err(format!("frame {f}: disconnected but value {v}")); } }
        else { if switched { return Err(format!("frame {f}: {st:?} after Disconnected")); }
            if st == InputStatus::Predicted && *f < a.current_frame() - 12 { return Err(format!("frame {f}: still Predicted ({v}) in final timeline")); }
            let idx = *f - delay as i32; let want = if idx < 0 { 0 } else { *b_inputs.get(idx as usize).unwrap_or(&255) };
            if st == InputStatus::Confirmed && v != want { return Err(format!("frame {f}: confirmed {v} want {want}")); } } }
    if !switched { return Err("never switched to Disconnected".into()); }
    if spect { let n = gs.log.len().min(ga.log.len()); for i in 0..n.saturating_sub(2) { if gs.log[i].1[1] != ga.log[i].1[1] && !(ga.log[i].1[1].1 == InputStatus::Predicted) { return Err(format!("frame {}: host {:?} spectator {:?}", ga.log[i].0, ga.log[i].1[1], gs.log[i].1[1])); } } }
    Ok(())
}
#[test]
fn explore_drop() {
    let (mut bad, mut n) = (0, 0);
    for seed in 1..=60u64 { for &mp in &[0usize, 1, 3, 8] { for &delay in &[0usize, 2] { for &sparse in &[false, true] { for &spect in &[false, true] {
        n += 1;
        let r = std::panic::catch_unwind(|| run(seed, mp, delay, sparse, spect));
        let msg = match r { Ok(Ok(())) => continue, Ok(Err(e)) => e, Err(p) => format!("PANIC {:?}", p.downcast_ref::<String>().cloned().or(p.downcast_ref::<&str>().map(|s| s.to_string()))) };
        bad += 1; if bad <= 15 { println!("seed={seed} mp={mp} delay={delay} sparse={sparse} spect={spect}: {msg}"); }
    }}}}}
    println!("explore_drop: {bad} bad of {n}");
}
