mod probe_net; use probe_net::*; use ggrs::*; use std::rc::Rc; use std::cell::RefCell;
fn peer(me: usize, net: &NetRc) -> P2PSession<Cfg> {
    let mut b = SessionBuilder::<Cfg>::new().with_num_players(3).unwrap();
    for h in 0..3 { b = b.add_player(if h==me {PlayerType::Local} else {PlayerType::Remote(h)}, h).unwrap(); }
    b.start_p2p_session(Sock{me, net: net.clone()}).unwrap()
}
#[test]
fn probe_d7_two_drops_same_tick() {
    let net: NetRc = Rc::new(RefCell::new(Net::default()));
    let (mut a, mut b, mut c) = (peer(0,&net), peer(1,&net), peer(2,&net));
    sync(&mut [&mut a, &mut b, &mut c]);
    let (mut ga, mut gb, mut gc) = (Game::default(), Game::default(), Game::default());
    for f in 0..30 {
        if f < 14 { b.add_local_input(1, 9).unwrap(); if let Ok(r) = b.advance_frame() { gb.handle(r); } }   // B stops after frame 13
        if f < 17 { c.add_local_input(2, 7).unwrap(); if let Ok(r) = c.advance_frame() { gc.handle(r); } }   // C stops after frame 16
        if f == 20 { a.disconnect_player(1).unwrap(); a.disconnect_player(2).unwrap(); }                    // both dropped before the same advance_frame
        a.add_local_input(0, 1).unwrap(); match a.advance_frame() { Ok(r) => ga.handle(r), Err(e) => println!("f{f} a err {e}") }
    }
    let bad: Vec<_> = ga.log.iter().filter(|(fr, inp)| *fr >= 14 && *fr <= 19 && inp[1].1 != InputStatus::Disconnected).map(|(fr, inp)| (*fr, inp[1])).collect();
    println!("d7 a={} frames where player 1 (last real frame 13) is not Disconnected in A's final timeline: {:?}", a.current_frame(), bad);
    assert!(bad.is_empty());
}
