mod probe_net; use probe_net::*; use ggrs::*; use std::rc::Rc; use std::cell::RefCell;

fn two_peers_with_spec(delay_b: usize) -> (P2PSession<Cfg>, P2PSession<Cfg>, SpectatorSession<Cfg>, NetRc) {
    let net: NetRc = Rc::new(RefCell::new(Net::default()));
    let a = SessionBuilder::<Cfg>::new().with_num_players(2).unwrap()
        .add_player(PlayerType::Local, 0).unwrap().add_player(PlayerType::Remote(1), 1).unwrap()
        .add_player(PlayerType::Spectator(2), 2).unwrap()
        .start_p2p_session(Sock{me:0, net: net.clone()}).unwrap();
    let b = SessionBuilder::<Cfg>::new().with_num_players(2).unwrap().with_input_delay(delay_b)
        .add_player(PlayerType::Remote(0), 0).unwrap().add_player(PlayerType::Local, 1).unwrap()
        .start_p2p_session(Sock{me:1, net: net.clone()}).unwrap();
    let s = SessionBuilder::<Cfg>::new().with_num_players(2).unwrap().start_spectator_session(0, Sock{me:2, net: net.clone()});
    (a,b,s,net)
}

#[test]
fn probe_d4_delay_increase_with_spectator() {
    let (mut a, mut b, mut s, _net) = two_peers_with_spec(3);
    for _ in 0..200 { a.poll_remote_clients(); b.poll_remote_clients(); s.poll_remote_clients(); }
    assert_eq!(a.current_state(), SessionState::Running);
    let (mut ga, mut gb) = (Game::default(), Game::default());
    for f in 0..30 {
        // b runs first so a always has b's (delayed => ahead) inputs
        b.add_local_input(1, (f*3 % 11) as u8).unwrap(); if let Ok(r) = b.advance_frame() { gb.handle(r); }
        if f == 10 { a.set_input_delay(0, 3).unwrap(); }
        a.add_local_input(0, (f*5 % 13) as u8).unwrap();
        match a.advance_frame() { Ok(r) => ga.handle(r), Err(e) => println!("a err {e}") }
        let _ = s.advance_frame();
    }
    println!("d4 ok a={} b={}", a.current_frame(), b.current_frame());
}

#[test]
fn probe_d5_decrease_then_increase() {
    let net: NetRc = Rc::new(RefCell::new(Net::default()));
    let mut a = SessionBuilder::<Cfg>::new().with_num_players(2).unwrap().with_input_delay(3)
        .add_player(PlayerType::Local, 0).unwrap().add_player(PlayerType::Remote(1), 1).unwrap()
        .start_p2p_session(Sock{me:0, net: net.clone()}).unwrap();
    let mut b = SessionBuilder::<Cfg>::new().with_num_players(2).unwrap()
        .add_player(PlayerType::Remote(0), 0).unwrap().add_player(PlayerType::Local, 1).unwrap()
        .start_p2p_session(Sock{me:1, net: net.clone()}).unwrap();
    sync(&mut [&mut a, &mut b]);
    let (mut ga, mut gb) = (Game::default(), Game::default());
    for f in 0..60 {
        if f == 10 { a.set_input_delay(0, 1).unwrap(); }
        if f == 11 { a.set_input_delay(0, 3).unwrap(); }
        a.add_local_input(0, (100 + f) as u8).unwrap(); match a.advance_frame() { Ok(r) => ga.handle(r), Err(e) => println!("a err {e}") }
        b.add_local_input(1, (f*3 % 11) as u8).unwrap(); match b.advance_frame() { Ok(r) => gb.handle(r), Err(e) => println!("b err {e}") }
    }
    for _ in 0..5 { a.poll_remote_clients(); b.poll_remote_clients(); }
    let n = ga.log.len().min(gb.log.len()) - 10;
    let mut diffs = vec![];
    for i in 0..n { if ga.log[i].1[0].0 != gb.log[i].1[0].0 { diffs.push((ga.log[i].0, ga.log[i].1[0], gb.log[i].1[0])); } }
    println!("d5 frames a={} b={} diffs in player0 input: {:?}", a.current_frame(), b.current_frame(), diffs);
    assert!(diffs.is_empty());
}

#[test]
fn probe_d6_event_queue_bound() {
    // a runs far ahead of b's reports? simpler: never drain events on a; count after many frames
    let net: NetRc = Rc::new(RefCell::new(Net::default()));
    let mut a = SessionBuilder::<Cfg>::new().with_num_players(2).unwrap()
        .with_desync_detection_mode(DesyncDetection::On{interval:1})
        .add_player(PlayerType::Local, 0).unwrap().add_player(PlayerType::Remote(1), 1).unwrap()
        .start_p2p_session(Sock{me:0, net: net.clone()}).unwrap();
    let mut b = SessionBuilder::<Cfg>::new().with_num_players(2).unwrap()
        .with_desync_detection_mode(DesyncDetection::On{interval:1})
        .add_player(PlayerType::Remote(0), 0).unwrap().add_player(PlayerType::Local, 1).unwrap()
        .start_p2p_session(Sock{me:1, net: net.clone()}).unwrap();
    sync(&mut [&mut a, &mut b]);
    let (mut ga, mut gb) = (Game::default(), Game::default());
    let mut maxq = 0;
    for f in 0..400 {
        a.add_local_input(0, 1).unwrap(); if let Ok(r) = a.advance_frame() { ga.handle(r); }
        if f == 5 { gb.state ^= 0xdead; } // real divergence so DesyncDetected events flow
        b.add_local_input(1, 2).unwrap(); if let Ok(r) = b.advance_frame() { gb.handle(r); }
        // peek the queue length without draining is impossible via API; drain every 150 frames only and measure
        if f % 150 == 149 { let n = a.events().count(); maxq = maxq.max(n); }
    }
    println!("d6 max events seen at a drain: {maxq}");
    assert!(maxq <= 100);
}
